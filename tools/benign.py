#!/venv/bin/python
"""Development tool: behaviour-preserving variants of the whole package, built in memory (nothing is written to /repo),
on which every check must stay silent.  usage: tools/benign.py <variant> [Cxx ...]
variants:  rename   every function-local variable gets a new name (suffix _v)
           swap     operands of commutative binary operators / symmetric comparisons are swapped
           shift    a no-op statement is inserted at the top of every function body (line numbers move)
"""
import ast, os, sys, importlib, builtins
sys.path.insert(0, os.path.dirname(os.path.dirname(os.path.abspath(__file__))))
from sa.core import load_repo, REPO
from sa import report


def fn_locals(fn):
    """names that are local variables of fn (assigned in it; not parameters, not global/nonlocal)."""
    params = {a.arg for a in fn.args.posonlyargs + fn.args.args + fn.args.kwonlyargs}
    if fn.args.vararg: params.add(fn.args.vararg.arg)
    if fn.args.kwarg: params.add(fn.args.kwarg.arg)
    stored, excluded = set(), set()
    def walk(n, top):
        for c in ast.iter_child_nodes(n):
            if isinstance(c, (ast.FunctionDef, ast.AsyncFunctionDef, ast.ClassDef, ast.Lambda)):
                # inner scopes: their own params/locals are not renamed; but they may read ours
                if isinstance(c, (ast.FunctionDef, ast.AsyncFunctionDef)):
                    excluded.add(c.name)
                inner_params = set()
                if not isinstance(c, ast.ClassDef):
                    a = c.args
                    inner_params = {x.arg for x in a.posonlyargs + a.args + a.kwonlyargs}
                for x in ast.walk(c):
                    if isinstance(x, ast.Name) and isinstance(x.ctx, ast.Store):
                        excluded.add(x.id)
                excluded.update(inner_params)
                continue
            if isinstance(c, (ast.Global, ast.Nonlocal)):
                excluded.update(c.names)
            if isinstance(c, ast.Name) and isinstance(c.ctx, (ast.Store, ast.Del)):
                stored.add(c.id)
            if isinstance(c, ast.ExceptHandler) and c.name:
                excluded.add(c.name)
            if isinstance(c, (ast.Import, ast.ImportFrom)):
                excluded.update((a.asname or a.name.split('.')[0]) for a in c.names)
            walk(c, False)
    walk(fn, True)
    return {n for n in stored if n not in params and n not in excluded and not n.startswith('__')}


def variant_rename(tree):
    for fn in ast.walk(tree):
        if not isinstance(fn, (ast.FunctionDef, ast.AsyncFunctionDef)):
            continue
        loc = fn_locals(fn)
        if not loc:
            continue
        for x in ast.walk(fn):
            if isinstance(x, ast.Name) and x.id in loc:
                x.id = x.id + '_v'
    return tree


def variant_swap(tree):
    for x in ast.walk(tree):
        if isinstance(x, ast.BinOp) and isinstance(x.op, (ast.Add, ast.Mult, ast.BitAnd, ast.BitOr)):
            # keep string concatenation / sequence repetition order
            if any(isinstance(s, (ast.Constant, ast.JoinedStr, ast.List, ast.Tuple)) and not isinstance(getattr(s, 'value', 0), (int, float))
                   for s in (x.left, x.right)):
                continue
            x.left, x.right = x.right, x.left
    return tree


def variant_yoda(tree):
    for x in ast.walk(tree):
        if isinstance(x, ast.Compare) and len(x.ops) == 1 and isinstance(x.ops[0], (ast.Eq, ast.NotEq)):
            x.left, x.comparators[0] = x.comparators[0], x.left
    return tree


def variant_shift(tree):
    for fn in ast.walk(tree):
        if isinstance(fn, (ast.FunctionDef, ast.AsyncFunctionDef)):
            i = 1 if (fn.body and isinstance(fn.body[0], ast.Expr) and isinstance(fn.body[0].value, ast.Constant)
                      and isinstance(fn.body[0].value.value, str)) else 0
            fn.body.insert(i, ast.Pass())
    return tree


def variant_polarity(tree):
    """`a if c else b` -> `b if not c else a`;  `len(x) > 0` -> `len(x) != 0`;  `len(x) == 0` -> `len(x) < 1`."""
    for x in ast.walk(tree):
        if isinstance(x, ast.IfExp):
            x.test, x.body, x.orelse = ast.UnaryOp(op=ast.Not(), operand=x.test), x.orelse, x.body
        if isinstance(x, ast.Compare) and len(x.ops) == 1 and isinstance(x.left, ast.Call) and isinstance(x.left.func, ast.Name) \
                and x.left.func.id == 'len' and isinstance(x.comparators[0], ast.Constant) and x.comparators[0].value == 0:
            if isinstance(x.ops[0], ast.Gt):
                x.ops = [ast.NotEq()]
            elif isinstance(x.ops[0], ast.Eq):
                x.ops, x.comparators = [ast.Lt()], [ast.Constant(value=1)]
    return tree


def variant_rettemp(tree):
    """`return E` -> `result_tmp = E; return result_tmp` in every function that does not already use that name."""
    for fn in ast.walk(tree):
        if not isinstance(fn, (ast.FunctionDef, ast.AsyncFunctionDef)):
            continue
        if any(isinstance(x, ast.Name) and x.id == 'result_tmp' for x in ast.walk(fn)):
            continue
        if any(isinstance(x, (ast.Yield, ast.YieldFrom)) for x in ast.walk(fn)):
            continue
        for parent in ast.walk(fn):
            for fld in ('body', 'orelse', 'finalbody'):
                blk = getattr(parent, fld, None)
                if not isinstance(blk, list):
                    continue
                i = 0
                while i < len(blk):
                    st = blk[i]
                    if isinstance(st, ast.Return) and st.value is not None and not isinstance(st.value, (ast.Name, ast.Constant)) \
                            and _owner(fn, st):
                        blk[i:i + 1] = [ast.Assign(targets=[ast.Name(id='result_tmp', ctx=ast.Store())], value=st.value),
                                        ast.Return(value=ast.Name(id='result_tmp', ctx=ast.Load()))]
                        i += 1
                    i += 1
    return tree


def _owner(fn, st):
    """st belongs to fn itself (not to a nested function)."""
    def rec(n):
        for c in ast.iter_child_nodes(n):
            if c is st:
                return True
            if isinstance(c, (ast.FunctionDef, ast.AsyncFunctionDef, ast.Lambda, ast.ClassDef)):
                continue
            if rec(c):
                return True
        return False
    return rec(fn)


def variant_privparam(tree):
    """parameters of private functions renamed (`p` -> `p_arg`) where no call in the module passes them by keyword."""
    kw_used = {k.arg for c in ast.walk(tree) if isinstance(c, ast.Call) for k in c.keywords if k.arg}
    for fn in ast.walk(tree):
        if not isinstance(fn, (ast.FunctionDef, ast.AsyncFunctionDef)) or not fn.name.startswith('_') or fn.name.startswith('__'):
            continue
        if any(isinstance(d, ast.Attribute) and d.attr == 'setter' for d in fn.decorator_list):
            continue
        a = fn.args
        names = {x.arg for x in a.posonlyargs + a.args if x.arg not in ('self', 'cls') and x.arg not in kw_used}
        if any(isinstance(n, (ast.FunctionDef, ast.Lambda, ast.ClassDef)) and n is not fn for n in ast.walk(fn)):
            continue
        if not names:
            continue
        for x in ast.walk(fn):
            if isinstance(x, ast.Name) and x.id in names:
                x.id += '_arg'
            elif isinstance(x, ast.arg) and x.arg in names:
                x.arg += '_arg'
    return tree


def _ends_flow(blk):
    return bool(blk) and isinstance(blk[-1], (ast.Return, ast.Raise, ast.Continue, ast.Break))


def variant_elsify(tree):
    """`if c: ...; return X` followed by the rest of the block -> the rest moves into `else:`."""
    for parent in ast.walk(tree):
        for fld in ('body', 'orelse', 'finalbody'):
            blk = getattr(parent, fld, None)
            if not isinstance(blk, list) or isinstance(parent, (ast.ClassDef, ast.Module)):
                continue
            for i, st in enumerate(blk):
                if isinstance(st, ast.If) and not st.orelse and _ends_flow(st.body) and i + 1 < len(blk):
                    st.orelse = blk[i + 1:]
                    del blk[i + 1:]
                    break
    return tree


def variant_unelse(tree):
    """`if c: ...; return X  else: rest` -> the else body is dedented after the if."""
    for parent in ast.walk(tree):
        for fld in ('body', 'orelse', 'finalbody'):
            blk = getattr(parent, fld, None)
            if not isinstance(blk, list):
                continue
            i = 0
            while i < len(blk):
                st = blk[i]
                if isinstance(st, ast.If) and st.orelse and _ends_flow(st.body) \
                        and not (len(st.orelse) == 1 and isinstance(st.orelse[0], ast.If)):
                    rest = st.orelse
                    st.orelse = []
                    blk[i + 1:i + 1] = rest
                i += 1
    return tree


def variant_comp2loop(tree):
    """`x = [E for a in B]` (single generator, no filter) -> `x = []; for a in B: x.append(E)`."""
    for parent in ast.walk(tree):
        for fld in ('body', 'orelse', 'finalbody'):
            blk = getattr(parent, fld, None)
            if not isinstance(blk, list):
                continue
            i = 0
            while i < len(blk):
                st = blk[i]
                if isinstance(st, ast.Assign) and len(st.targets) == 1 and isinstance(st.targets[0], ast.Name) \
                        and isinstance(st.value, ast.ListComp) and len(st.value.generators) == 1 \
                        and not st.value.generators[0].ifs and not st.value.generators[0].is_async:
                    x = st.targets[0].id
                    g = st.value.generators[0]
                    if not any(isinstance(n, ast.Name) and n.id == x for n in ast.walk(st.value)):
                        loop = ast.For(target=g.target, iter=g.iter, orelse=[], body=[ast.Expr(value=ast.Call(
                            func=ast.Attribute(value=ast.Name(id=x, ctx=ast.Load()), attr='append', ctx=ast.Load()),
                            args=[st.value.elt], keywords=[]))])
                        for n in ast.walk(loop.target):
                            if hasattr(n, 'ctx'):
                                n.ctx = ast.Store()
                        blk[i:i + 1] = [ast.Assign(targets=[ast.Name(id=x, ctx=ast.Store())], value=ast.List(elts=[], ctx=ast.Load())), loop]
                        i += 1
                i += 1
    return tree


def variant_kwstyle(tree):
    """calls of functions defined in the same module (`f(a, b)`, `self.m(a)`, `cls(a)`) pass every positional argument by keyword."""
    from sa import canon
    sigs = {k: v[0] for k, v in canon.signatures(tree).items() if len(v) == 1}
    owner = {}

    def rec(node, cls):
        for c in ast.iter_child_nodes(node):
            if isinstance(c, ast.ClassDef):
                rec(c, c.name)
            else:
                if isinstance(c, ast.Call):
                    owner[id(c)] = cls
                rec(c, cls)
    rec(tree, None)
    for c in ast.walk(tree):
        if not isinstance(c, ast.Call) or not c.args or any(isinstance(a, ast.Starred) for a in c.args) \
                or any(k.arg is None for k in c.keywords):
            continue
        f = c.func
        name = None
        if isinstance(f, ast.Name):
            name = owner.get(id(c)) if f.id == 'cls' else f.id
        elif isinstance(f, ast.Attribute) and isinstance(f.value, ast.Name) and f.value.id == 'self':
            name = f.attr
        sg = sigs.get(name)
        if not sg or sg['var'] or len(c.args) > len(sg['pos']):
            continue
        c.keywords = [ast.keyword(arg=p_, value=a) for p_, a in zip(sg['pos'], c.args)] + c.keywords
        c.args = []
    return tree


VARIANTS = {'elsify': variant_elsify, 'unelse': variant_unelse, 'comp2loop': variant_comp2loop, 'kwstyle': variant_kwstyle,
            'rename': variant_rename, 'swap': variant_swap, 'shift': variant_shift, 'yoda': variant_yoda,
            'polarity': variant_polarity, 'rettemp': variant_rettemp, 'privparam': variant_privparam}


def build(variant):
    over = {}
    base = load_repo()
    for m in base.modules.values():
        if '/tests/' in m.relpath or m.relpath.endswith('conftest.py'):
            continue
        with open(os.path.join(REPO, m.relpath), encoding='utf-8') as fh:
            src = fh.read()
        tree = VARIANTS[variant](ast.parse(src))
        ast.fix_missing_locations(tree)
        over[m.relpath] = ast.unparse(tree)
    return load_repo(overrides=over)


def main():
    variant = sys.argv[1]
    props = sys.argv[2:] or [f'C{i:02d}' for i in range(1, 21)]
    repo2 = build(variant)
    total = 0
    for p in props:
        mod = importlib.import_module(f'sa.rules.{p}')
        clean = {f.key for f in mod.run(load_repo(), 'quick').findings}
        try:
            res = mod.run(repo2, 'quick')
        except Exception as exc:
            print(f'{p}: ANALYSIS-ERROR {type(exc).__name__}: {str(exc)[:200]}')
            total += 1
            continue
        known, new = report.split_findings(p, res.findings)
        new = [f for f in new if f.key not in clean]
        # keys contain construct text, which a rename changes: compare by (rule, function) against the clean run
        clean_rf = {(k.split('|')[0], k.split('|')[1]) for k in clean}
        new = [f for f in new if (f.rule, f.func) not in clean_rf]
        by_rule = {}
        for f in new:
            by_rule[f.rule] = by_rule.get(f.rule, 0) + 1
        floors = [r for r, n in res.floors.items() if res.rule_instances.get(r, 0) < n]
        print(f'{p}: false alarms={len(new)} {by_rule} floors_missed={floors}')
        for f in new[:int(os.environ.get("SHOW", "0"))]:
            print('    ', f.rule, f.func, f.message[:160])
        total += len(new) + len(floors)
    print('TOTAL', total)


if __name__ == '__main__':
    main()
