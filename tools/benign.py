#!/venv/bin/python
"""Development tool: behaviour-preserving variants of the whole package, built in memory (nothing is written to /repo),
on which every check must stay silent.  usage: tools/benign.py <variant> [Cxx ...]
variants:  rename   every function-local variable gets a new name (suffix _v)
           swap     operands of commutative binary operators / symmetric comparisons are swapped
           shift    a no-op statement is inserted at the top of every function body (line numbers move)
"""
import ast, os, sys, importlib, builtins
sys.path.insert(0, os.path.dirname(os.path.dirname(os.path.abspath(__file__))))
from sa.core import load_repo, REPO
from sa import report


def fn_locals(fn):
    """names that are local variables of fn (assigned in it; not parameters, not global/nonlocal)."""
    params = {a.arg for a in fn.args.posonlyargs + fn.args.args + fn.args.kwonlyargs}
    if fn.args.vararg: params.add(fn.args.vararg.arg)
    if fn.args.kwarg: params.add(fn.args.kwarg.arg)
    stored, excluded = set(), set()
    def walk(n, top):
        for c in ast.iter_child_nodes(n):
            if isinstance(c, (ast.FunctionDef, ast.AsyncFunctionDef, ast.ClassDef, ast.Lambda)):
                # inner scopes: their own params/locals are not renamed; but they may read ours
                if isinstance(c, (ast.FunctionDef, ast.AsyncFunctionDef)):
                    excluded.add(c.name)
                inner_params = set()
                if not isinstance(c, ast.ClassDef):
                    a = c.args
                    inner_params = {x.arg for x in a.posonlyargs + a.args + a.kwonlyargs}
                for x in ast.walk(c):
                    if isinstance(x, ast.Name) and isinstance(x.ctx, ast.Store):
                        excluded.add(x.id)
                excluded.update(inner_params)
                continue
            if isinstance(c, (ast.Global, ast.Nonlocal)):
                excluded.update(c.names)
            if isinstance(c, ast.Name) and isinstance(c.ctx, (ast.Store, ast.Del)):
                stored.add(c.id)
            if isinstance(c, ast.ExceptHandler) and c.name:
                excluded.add(c.name)
            if isinstance(c, (ast.Import, ast.ImportFrom)):
                excluded.update((a.asname or a.name.split('.')[0]) for a in c.names)
            walk(c, False)
    walk(fn, True)
    return {n for n in stored if n not in params and n not in excluded and not n.startswith('__')}


def variant_rename(tree):
    for fn in ast.walk(tree):
        if not isinstance(fn, (ast.FunctionDef, ast.AsyncFunctionDef)):
            continue
        loc = fn_locals(fn)
        if not loc:
            continue
        for x in ast.walk(fn):
            if isinstance(x, ast.Name) and x.id in loc:
                x.id = x.id + '_v'
    return tree


def variant_swap(tree):
    for x in ast.walk(tree):
        if isinstance(x, ast.BinOp) and isinstance(x.op, (ast.Add, ast.Mult, ast.BitAnd, ast.BitOr)):
            # keep string concatenation / sequence repetition order
            if any(isinstance(s, (ast.Constant, ast.JoinedStr, ast.List, ast.Tuple)) and not isinstance(getattr(s, 'value', 0), (int, float))
                   for s in (x.left, x.right)):
                continue
            x.left, x.right = x.right, x.left
    return tree


def variant_yoda(tree):
    for x in ast.walk(tree):
        if isinstance(x, ast.Compare) and len(x.ops) == 1 and isinstance(x.ops[0], (ast.Eq, ast.NotEq)):
            x.left, x.comparators[0] = x.comparators[0], x.left
    return tree


def variant_shift(tree):
    for fn in ast.walk(tree):
        if isinstance(fn, (ast.FunctionDef, ast.AsyncFunctionDef)):
            i = 1 if (fn.body and isinstance(fn.body[0], ast.Expr) and isinstance(fn.body[0].value, ast.Constant)
                      and isinstance(fn.body[0].value.value, str)) else 0
            fn.body.insert(i, ast.Pass())
    return tree


VARIANTS = {'rename': variant_rename, 'swap': variant_swap, 'shift': variant_shift, 'yoda': variant_yoda}


def build(variant):
    over = {}
    base = load_repo()
    for m in base.modules.values():
        if '/tests/' in m.relpath or m.relpath.endswith('conftest.py'):
            continue
        with open(os.path.join(REPO, m.relpath), encoding='utf-8') as fh:
            src = fh.read()
        tree = VARIANTS[variant](ast.parse(src))
        ast.fix_missing_locations(tree)
        over[m.relpath] = ast.unparse(tree)
    return load_repo(overrides=over)


def main():
    variant = sys.argv[1]
    props = sys.argv[2:] or [f'C{i:02d}' for i in range(1, 21)]
    repo2 = build(variant)
    total = 0
    for p in props:
        mod = importlib.import_module(f'sa.rules.{p}')
        clean = {f.key for f in mod.run(load_repo(), 'quick').findings}
        try:
            res = mod.run(repo2, 'quick')
        except Exception as exc:
            print(f'{p}: ANALYSIS-ERROR {type(exc).__name__}: {str(exc)[:200]}')
            total += 1
            continue
        known, new = report.split_findings(p, res.findings)
        new = [f for f in new if f.key not in clean]
        # keys contain construct text, which a rename changes: compare by (rule, function) against the clean run
        clean_rf = {(k.split('|')[0], k.split('|')[1]) for k in clean}
        new = [f for f in new if (f.rule, f.func) not in clean_rf]
        by_rule = {}
        for f in new:
            by_rule[f.rule] = by_rule.get(f.rule, 0) + 1
        floors = [r for r, n in res.floors.items() if res.rule_instances.get(r, 0) < n]
        print(f'{p}: false alarms={len(new)} {by_rule} floors_missed={floors}')
        for f in new[:int(os.environ.get("SHOW", "0"))]:
            print('    ', f.rule, f.func, f.message[:160])
        total += len(new) + len(floors)
    print('TOTAL', total)


if __name__ == '__main__':
    main()
