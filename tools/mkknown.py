#!/venv/bin/python
"""Builds known_findings.json from the table below (edited by hand; never run by a check)."""
import json, os, subprocess
V = os.path.dirname(os.path.dirname(os.path.abspath(__file__)))
log = subprocess.run(['git', '-C', '/repo', 'log', '--format=%h %s', '8203d59..HEAD'], capture_output=True, text=True).stdout.strip().splitlines()
commits = {l.split(' ', 1)[1]: l.split(' ', 1)[0] for l in log}
def c(part):
    for k, v in commits.items():
        if part in k:
            return v
    raise KeyError(part)
F = []
def known(prop, key, what, inp):
    F.append({'property': prop, 'status': 'known', 'key': key, 'what': what, 'failing_input': inp})
def fixed(prop, part, what):
    h = c(part)
    F.append({'property': prop, 'status': 'fixed', 'commit': h, 'what': what, 'line': f'fixed: property={prop} {h} {what}'})

GEOM = ("the isophote package shares the caller's EllipseGeometry by design (documented upstream behaviour: fit_image 'overrides the "
        "geometry for good'); changing it alters the public Ellipse.geometry contract, not a small safe patch")
# ---- C10
known('C10', 'A1|photutils.background.background_2d.Background2D.__init__|bkg_estimator.sigma_clip = None',
      "Background2D.__init__ sets .sigma_clip = None on the caller's bkg_estimator object (deliberate upstream: 'perform sigma clipping on the box data, not in the estimators')",
      "e=MedianBackground(sigma_clip=SigmaClip(3.)); Background2D(data,(10,10),bkg_estimator=e); e.sigma_clip is None afterwards")
known('C10', 'A1|photutils.background.background_2d.Background2D.__init__|bkgrms_estimator.sigma_clip = None',
      "Background2D.__init__ sets .sigma_clip = None on the caller's bkgrms_estimator object (same deliberate upstream behaviour)",
      "e=StdBackgroundRMS(sigma_clip=SigmaClip(3.)); Background2D(data,(10,10),bkgrms_estimator=e); e.sigma_clip is None afterwards")
known('C10', 'A1|photutils.isophote.ellipse.Ellipse.set_threshold|self._geometry.centerer_threshold = threshold',
      "Ellipse.__init__/set_threshold writes centerer_threshold into the caller's EllipseGeometry; " + GEOM,
      "g=EllipseGeometry(...); Ellipse(image, g, threshold=0.3); g.centerer_threshold == 0.3")
known('C10', 'A1|photutils.isophote.ellipse.Ellipse.fit_image|self._geometry.linear_growth = linear',
      "Ellipse.fit_image(linear=...) overwrites linear_growth on the caller's EllipseGeometry; " + GEOM,
      "g=EllipseGeometry(..., linear_growth=False); Ellipse(image,g).fit_image(linear=True); g.linear_growth is True")
known('C10', 'A1|photutils.isophote.ellipse.Ellipse.fit_image|self._geometry.fix = np.array([fix_center, fix_center, fix_pa, fix_eps])',
      "Ellipse.fit_image(fix_*=...) overwrites the fix flags on the caller's EllipseGeometry; " + GEOM,
      "g=EllipseGeometry(...); Ellipse(image,g).fit_image(fix_pa=True); g.fix[2] is True")
known('C10', 'A1|photutils.isophote.fitter.EllipseFitter.fit|sample.geometry.fix = fixed_parameters',
      "EllipseFitter.fit stores the fixed_parameters array into the geometry of the caller's sample; " + GEOM,
      "s=EllipseSample(image, 10., geometry=g); EllipseFitter(s).fit(fixed_parameters=np.array([True]*4)); g.fix all True")
fixed('C10', 'ProfileBase no longer', "ProfileBase._compute_mask: `mask |= badmask` modified the caller's mask (RadialProfile(data, xycen, radii, mask=m) with NaN in data changed m)")
fixed('C10', 'centroid_1dg', "centroid_1dg/centroid_2dg: `data.mask |= mask` / `data.fill_value = 0.0` modified a caller-supplied MaskedArray")
fixed('C10', 'StarFinder no longer', "StarFinder: `kernel /= np.max(kernel)` modified the caller's kernel; _StarFinderCatalog.cutout_data zeroed negative pixels through views of the caller's image")
fixed('C10', 'grid_from_epsfs', "grid_from_epsfs(meta=d) added grid_xypos/oversampling/fill_value to the caller's dict")
fixed('C10', 'extract_stars', "extract_stars: with a float 'weights' uncertainty and a mask, masked pixels were zeroed in the caller's uncertainty array")
# ---- C08
fixed('C08', 'no longer shares its extra', "SourceCatalog.__getitem__ copied _extra_properties by reference: child.add_extra_property('foo', ...) made parent.to_table() fail")
fixed('C08', 'scalar SourceCatalog', "cat[i].centroid_quad raised IndexError when the quadratic fit is NaN (fallback indexed a (2,) array); cat[0].fluxfrac_radius(0.5) raised TypeError with a large kron_params[2]")
# ---- C09
known('C09', 'ECALL|photutils.isophote.ellipse.Ellipse.fit_image|self._geometry.linear_growth = linear',
      "Ellipse.fit_image(linear=True) persists: a later fit_image() on the same object grows linearly although its own linear argument is the default; " + GEOM,
      "e=Ellipse(image,g); e.fit_image(linear=True); e.fit_image() differs from Ellipse(image,g0).fit_image()")
known('C09', 'ECALL|photutils.isophote.ellipse.Ellipse.fit_image|self._geometry.fix = np.array([fix_center, fix_center, fix_pa, fix_eps])',
      "Ellipse.fit_image(fix_*=True) persists in the geometry object (sample geometries built later inherit it); " + GEOM,
      "e=Ellipse(image,g); e.fit_image(fix_pa=True); e.fit_isophote(sma) keeps pa fixed")
fixed('C09', 'ImageDepth', "ImageDepth.__call__: self.fluxes.append never reset; second call on one object reported the fluxes of both runs")
fixed('C09', 'EPSFStars.__delitem__', "EPSFStars: n_stars/all_stars/n_all_stars/_max_shape stayed cached after `del stars[i]`")
fixed('C09', 'background_mesh no longer fails', "Background2D(filter_threshold=...): reading background_rms_mesh and then background_mesh raised TypeError (_bkg_stats dropped before the selective filter)")
fixed('C09', 'honours an input group_id', "PSFPhotometry._prepare_init_params set self.grouper = None when init_params had a group_id column (configuration lost for later calls)")
fixed('C09', 'profile normalize/unnormalize', "ProfileBase.normalize/unnormalize: data_profile rescaled only if already cached; cached gaussian_* stayed un-normalised")
# ---- C05
known('C05', 'T-CARD|photutils.segmentation.core.SegmentationImage.segments|zip(self.labels, self.slices, self.bbox, self.areas, self.polygons, strict=True)',
      "SegmentationImage.polygons/_geo_polygons hold one polygon per connected region (rasterio shapes), not one per label: a label with two "
      "components makes `segments` raise (zip strict) and an array without background loses its first polygon ([1:]); a per-label union "
      "(MultiPolygon) changes the public return type, not a small safe patch",
      "SegmentationImage(np.array([[1,0,1],[0,0,0],[2,2,2]])).segments raises ValueError; .polygons has 3 entries for 2 labels")
fixed('C05', 'remove_border_labels(0)', "SegmentationImage.remove_border_labels(border_width=0) removed every label (`border_mask[-0:] = True`)")
fixed('C05', 'removed deblended labels are dropped', "after remove_label(child) of a deblended source, deblended_labels contained the background label 0")
# ---- C12
fixed('C12', 'honours an input group_id', "PSFPhotometry: a group_id column supplied in init_params was overwritten with the source ids (every source fitted alone)")
fixed('C12', 'masks non-finite pixels also', "PSFPhotometry._make_mask returned the bare input mask: NaN pixels entered the fit whenever a mask was given (fit failure / wrong npixfit)")
# ---- C16 / C07
fixed('C16', 'sum_aper_area is NaN only', "ApertureStats.sum_aper_area NaN via the center-method masks although exact weights > 0 (CircularAperture((4.5, 4.5), 0.3))")
fixed('C16', 'centroids are correct for apertures', "ApertureStats.centroid off by the clipped part for apertures extending beyond the left/bottom edge (origin from the unclipped bbox)")
fixed('C07', 'background_centroid samples', "SourceCatalog.background_centroid read the background at (row=x, col=y): map_coordinates given (xcen, ycen)")
fixed('C13', 'PRFAdapter.evaluate uses yname', "PRFAdapter.evaluate: y branch keyed on xname; flux stored into the parameter named by yname (T-MIRROR copy-paste signature)")
fixed('C15', 'calc_total_error accepts', "calc_total_error(int data): UFuncTypeError (in-place division on an integer copy)")
fixed('C15', 'create_matching_kernel accepts', "create_matching_kernel(int PSFs): UFuncTypeError (in-place normalisation of integer copies)")
# ---- C17 / C18
fixed('C17', 'centroid_sources no longer', "centroid_sources(error=... or xpeak=/ypeak=) with >= 2 positions: NaN from the second source on (keyword dict reused across sources)")
fixed('C18', 'make_model_image attaches', "make_model_image: unit-ful model with row 0 off the image raised UnitTypeError (units attached only when i == 0)")
fixed('C18', 'sources just outside the left/bottom', "make_model_image(shape, model, table) with a source whose rendering window ends exactly at pixel 0 (e.g. x_0=-3, model_shape=(5,5)) raised ValueError (ambiguous truth value: ndarray shape handed to astropy overlap_slices) instead of skipping the source")
# ---- C19
fixed('C19', 'profile normalize/unnormalize', "RadialProfile.normalize(); first read of data_profile afterwards returned raw values; unnormalize() did not restore gaussian_*")
json.dump({'comment': 'Committed list of genuine defects of astropy/photutils found by the checks. status=known entries are matched by key '
                      '(rule|function|normalised construct) and printed as KNOWN-FINDING; status=fixed entries suppress nothing. Never written at run time.',
           'findings': F}, open(os.path.join(V, 'known_findings.json'), 'w'), indent=1)
print(len(F), 'entries')
