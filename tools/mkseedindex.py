#!/venv/bin/python
"""Apply every seeded change to /repo in turn, run the check of the property it breaks, undo it, and
write seeded/INDEX.md (+ caught_by in each meta.json).  Development tool; not run by any registered check."""
import json, os, subprocess, sys, glob
V = os.path.dirname(os.path.dirname(os.path.abspath(__file__)))
rows = []
assert subprocess.run(['git', '-C', '/repo', 'status', '--short'], capture_output=True, text=True).stdout.strip() == '', '/repo not clean'
for d in sorted(glob.glob(os.path.join(V, 'seeded', 'C*'))):
    name = os.path.basename(d)
    meta = json.load(open(os.path.join(d, 'meta.json')))
    prop = meta['property']
    patch = os.path.join(d, 'patch.diff')
    r = subprocess.run(['git', '-C', '/repo', 'apply', patch], capture_output=True, text=True)
    if r.returncode != 0:
        rows.append((name, prop, 'PATCH DOES NOT APPLY to current /repo HEAD', meta.get('breaks', '')))
        continue
    props = [prop] + [p for p in meta.get('also_check', []) if p != prop]
    caught = []
    for p in props:
        out = subprocess.run([os.path.join(V, 'check'), p], capture_output=True, text=True)
        rules = sorted({l.split()[0] for l in out.stdout.splitlines() if l.startswith('  ')})
        if out.returncode == 1:
            caught.append(f'{p}: ' + ', '.join(rules))
        elif out.returncode == 2:
            caught.append(f'{p}: ANALYSIS-ERROR')
    subprocess.run(['git', '-C', '/repo', 'checkout', '--', '.'])
    meta['caught_by'] = caught
    json.dump(meta, open(os.path.join(d, 'meta.json'), 'w'), indent=1)
    rows.append((name, prop, '; '.join(caught) if caught else 'MISSED', meta.get('breaks', '')))
    print(name, caught or 'MISSED', flush=True)
with open(os.path.join(V, 'seeded', 'INDEX.md'), 'w') as fh:
    fh.write('# Seeded changes and the rules that report them\n\n'
             'Each change was written by an independent sub-agent (property text + scratch worktree only), confirmed with '
             '`tools/verify_seed.sh`, and checked with `tools/mkseedindex.py` (apply to /repo, run `./check <property>`, undo).\n\n'
             '| seed | property | reported by | what the change does |\n|---|---|---|---|\n')
    for name, prop, caught, what in rows:
        fh.write(f'| {name} | {prop} | {caught} | {what[:220].replace("|", "/")} |\n')
    n = len(rows); m = len([r for r in rows if r[2] != 'MISSED' and not r[2].startswith('PATCH DOES NOT') and 'ANALYSIS-ERROR' not in r[2]])
    fh.write(f'\n{m} of {n} seeded changes are reported by the check of the property they break.\n')
print('done')
