#!/venv/bin/python
"""Development tool: every "fixed:" entry of known_findings.json is reverted IN MEMORY (reverse diff of the fix commit applied to
the parsed tree; /repo is not touched) and the check of its property must report it again.  Not run by any registered check."""
import sys, os, json, subprocess, importlib
sys.path.insert(0,'/verif')
from multiprocessing import Pool
k=json.load(open('/verif/known_findings.json'))
fx=[(e['property'], e['commit']) for e in k['findings'] if e.get('status')=='fixed']
fx=sorted(set(fx))
def work(a):
    prop, commit = a
    from sa.core import load_repo
    from sa.liveness import _patched_sources
    import tempfile
    d=tempfile.mkdtemp(prefix=f'vf_revert_{prop}_{commit}_')
    diff=subprocess.run(['git','-C','/repo','diff',commit,commit+'^','--','photutils',':!photutils/**/tests/*'],capture_output=True,text=True).stdout
    open(d+'/patch.diff','w').write(diff)
    srcs=_patched_sources(d+'/patch.diff')
    if srcs is None: return prop, commit, 'REVERSE PATCH DOES NOT APPLY'
    mod=importlib.import_module(f'sa.rules.{prop}')
    base={f.key for f in mod.run(load_repo(),'quick').findings}
    res=mod.run(load_repo(overrides=srcs),'quick')
    new=sorted({f.rule for f in res.findings if f.key not in base})
    import shutil
    shutil.rmtree(d, ignore_errors=True)
    return prop, commit, ','.join(new) or 'NOT REPORTED'
if __name__=='__main__':
    with Pool(12) as p:
        for r in p.map(work, fx, chunksize=1): print(*r)
