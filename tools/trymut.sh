#!/bin/sh
# usage: trymut.sh <patch.diff> <Cxx> [<Cyy> ...]   apply a seeded change to /repo, run the checks, undo it
p=$1; shift
cd /repo || exit 2
if [ -n "$(git status --short)" ]; then echo "/repo not clean"; exit 2; fi
if ! git apply "$p" 2>/dev/null; then
  if ! patch -p1 -s --no-backup-if-mismatch < "$p"; then echo "PATCH-FAILED $p"; git checkout -- .; exit 3; fi
fi
for c in "$@"; do
  out=$(/verif/check $c 2>&1); rc=$?
  echo "== $c exit=$rc"
  echo "$out" | grep -v "^KNOWN-FINDING" | grep -E "VIOLATION|ANALYSIS-ERROR|^  " | cut -c1-300 | head -12
done
git checkout -- . ; git status --short
