#!/bin/sh
# usage: tryrevert.sh <grep pattern of fix commit subject> <Cxx>...   re-introduce a fixed defect and run checks
pat=$1; shift
cd /repo || exit 2
h=$(git log --format='%h %s' | grep -i -- "$pat" | head -1 | cut -d' ' -f1)
[ -z "$h" ] && { echo "no commit matches $pat"; exit 2; }
git show $h > /tmp/revert_$h.diff
/bin/sh -c "git apply -R /tmp/revert_$h.diff" || { echo "cannot revert $h"; exit 3; }
echo "reverted $h: $(git log --format=%s -1 $h)"
for c in "$@"; do
  out=$(/verif/check $c 2>&1); rc=$?
  echo "== $c exit=$rc"
  echo "$out" | grep -v "^KNOWN-FINDING" | grep -E "ANALYSIS-ERROR|^  " | cut -c1-260 | head -8
done
git checkout -- . ; rm -f /tmp/revert_$h.diff
