#!/bin/sh
# usage: verify_seed.sh <Cxx> <mk> [patchfile]   -> confirms a seeded change in a scratch worktree of /repo HEAD and,
# when confirmed, stores it as /verif/seeded/<Cxx>-<mk>/ {patch.diff (rebased on HEAD), demo.py, meta.json}
# env: SEED_SRC (default /tmp/wt/out) = root of the agents' outputs, SEED_TAG = prefix of the stored name (e.g. r2)
id=$1; mk=$2; src=${SEED_SRC:-/tmp/wt/out}/$id/$mk; patch=${3:-$src/patch.diff}
name=vs-$id-${SEED_TAG}$mk
wt=$(/verif/tools/mkwt.sh $name) || exit 2
cd $wt
if ! git apply "$patch" 2>/dev/null; then
  if ! patch -p1 -s --no-backup-if-mismatch < "$patch" >/dev/null 2>&1; then echo "$id/$mk PATCH-FAILED"; /verif/tools/rmwt.sh $name; exit 3; fi
fi
find . -name '*.rej' -o -name '*.orig' | xargs -r rm -f
git diff > /tmp/wt/$name.rebased.diff
timeout 600 /venv/bin/python $src/demo.py > /tmp/wt/$name.demo_mut.txt 2>&1; rc_mut=$?
suite=$(/verif/tools/suite.sh $wt 2>&1 | tail -3 | tr '\n' ' ')
git checkout -- . 
timeout 600 /venv/bin/python $src/demo.py > /tmp/wt/$name.demo_clean.txt 2>&1; rc_clean=$?
ok=no
case "$suite" in *SUITE-OK*) if [ $rc_mut -ne 0 ] && [ $rc_clean -eq 0 ]; then ok=yes; fi;; esac
echo "$id/$mk confirmed=$ok demo_with_patch_rc=$rc_mut demo_clean_rc=$rc_clean suite=[$suite]"
if [ $ok = yes ]; then
  d=/verif/seeded/$id-${SEED_TAG}$mk; mkdir -p $d
  cp /tmp/wt/$name.rebased.diff $d/patch.diff; cp $src/demo.py $d/demo.py
  /venv/bin/python - "$src/meta.json" "$d/meta.json" "$id" "$rc_mut" "$rc_clean" "$suite" <<'PY'
import json,sys,subprocess
src,dst,pid,rm,rc,suite=sys.argv[1:7]
try: m=json.load(open(src))
except Exception: m={}
head=subprocess.run(['git','-C','/repo','rev-parse','--short','HEAD'],capture_output=True,text=True).stdout.strip()
out={'property':pid,'breaks':m.get('summary',''),'site':m.get('site',''),'needs_to_manifest':m.get('needs',''),
     'confirmed_by':{'repo_head':head,'what_i_ran':'scratch worktree of /repo HEAD: git apply patch.diff; python demo.py (must fail); tools/suite.sh (all 1731 baseline-passing tests must still pass); git checkout; python demo.py (must pass)',
                     'demo_exit_with_patch':int(rm),'demo_exit_without_patch':int(rc),'suite':suite.strip()}}
json.dump(out,open(dst,'w'),indent=1)
PY
fi
rm -f /tmp/wt/$name.*; /verif/tools/rmwt.sh $name
