#!/venv/bin/python
"""Regenerate MANIFEST.json from the table below (kept by hand)."""
import json, os, subprocess
V = os.path.dirname(os.path.dirname(os.path.abspath(__file__)))
props = [json.loads(l) for l in open(os.path.join(V, 'properties.jsonl'))]

CLAIMS = {
 'C10': dict(
   text="Static ownership/alias may-analysis (rule A1) over every public entry point of the package: no caller-owned "
        "object, view of it, or field storing it reaches an in-place write on any path. Decides the structural clause "
        "'no aliasing path from an argument to an in-place sink exists' for all inputs and branches at once; this is the "
        "right level because the property's risk is exactly an aliasing path taken only for particular data.",
   note="Trusted: the hand-written numpy/astropy API table (which calls alias/copy/mutate), externals not in the table are "
        "pure (census in evidence), container contents merged, exemption table (one named function x object each, with reason). "
        "Known findings (deliberate upstream behaviour) are listed in known_findings.json.",
   technique="interprocedural alias/ownership dataflow over the AST (may-analysis, summaries to fixpoint)",
   design="4 C10, 3.1"),
 'C09': dict(
   text="History independence decided structurally for all interleavings at once: a three-valued (absent/fresh/stale) dataflow over every "
        "public mutator and setter of every class with lazyproperties proves that each state write is followed, on every path, by an "
        "invalidation of every dependent cache (L1); cache-presence branches (L2), memory-saving deletions against all later readers under "
        "path guards decided by truth tables (L3), aperture attribute descriptors (L4), the interpolator memo key (L5), in-place writes "
        "inside getters (A2) and re-entrancy of all call-like entries (no configuration attribute written, every per-call attribute assigned "
        "before its first read: ECALL) are rule sets of the same kind. Orders of reads/calls are covered because every obligation is per "
        "(writer, reader) pair, not per order.",
   note="Trusted: dependency extraction (a lazy value depends on the self attributes its getter transitively reads), the ALLOWED_SEEDS / "
        "ALLOWED_CACHE_TESTS tables (one reason per row), config atoms stable after __init__ (checked). Numerical equality with a fresh object "
        "is not decided. Ellipse's persistent geometry overrides are known findings.",
   technique="typestate/dataflow over lazyproperty caches + guard truth tables + must-assigned analysis (AST)",
   design="4 C09, 3.2, 3.3"),
 'C05': dict(
   text="Cache coherence of SegmentationImage decided for every history: per (public mutator, lazyproperty) pair the three-valued "
        "stale-cache dataflow proves each write of the label array or deblend map is followed on every path by an invalidation (L1, "
        "exhaustive over 30 entries x 20 lazies), plus COUPLED (label array and deblend map change together), D3 (who may seed private "
        "state from outside), NEGZERO (zero border width), T-CARD (one entry per label), LABELSET (no label 0 in bookkeeping), DTYPE-KEEP "
        "and A2. Orders of operations are covered because obligations are per (writer, cache) pair.",
   note="Trusted: ALLOWED_SEEDS rows (labels/slices re-seeded by relabel_consecutive and the data setter equal what the getters compute), "
        "external models for rasterio shapes and scipy find_objects. Not decided: that relabel_map[data] has the documented set-theoretic "
        "effect. Known finding: polygons are per connected region.",
   technique="typestate dataflow over lazyproperty caches + path-event sets + who-may-write table (AST)",
   design="4 C05"),
 'C19': dict(
   text="History clause (normalize/unnormalize interleaved with first reads) decided by L1/L2 on the three profile classes, ATOMIC "
        "(normalization_value, profile, profile_error updated all-or-nothing on every path) and MIRROR (profile_error rescaled exactly "
        "like profile); plumbing clause decided by SLOT (profile/area/errors are the matching slots of the nested-aperture photometry; "
        "RadialProfile = diff(sum)/diff(area), errors in quadrature) and SIB (do_photometry and area_overlap get the same "
        "mask/method/subpixels). Necessary structural conditions of the property, for all inputs.",
   note="Not decided: the aperture sums themselves (C02), monotonicity, interpolator inversion, restoration to rounding. Spec forms are "
        "compared as algebraic normal forms with accepted alternatives listed in the rule.",
   technique="lazy-cache typestate + path-event sets + normal-form comparison of getter expressions (AST)",
   design="4 C19"),
 'C06': dict(
   text="Schedule clause decided for ALL completion orders and all nproc by commutation: the only as_completed loop in the package may "
        "do nothing but store results[submission index] into a pre-sized list (SCHED, exhaustive over such loops), the merge runs over "
        "zip(labels, slices, results) in submission order and is the same program as the serial branch (SIB). Refinement clause as "
        "necessary structure: children get fresh labels above a running maximum starting at max_label, stores go into a copy inside the "
        "parent cutout and source mask (MERGE), final relabel applied to array and map (RELABEL), options forwarded (FWD), input image "
        "never written (A1).",
   note="Not decided: the watershed partitions each parent exactly and children have >= npixels. Trusted: spawn-context workers share no "
        "state; future.result() returns the worker's value. MERGE compares normal forms of the merge statements (accepted forms in the rule).",
   technique="effect-commutation rule over the as_completed loop + sibling-block comparison + normal forms + alias analysis (AST)",
   design="4 C06, 3.5"),
 'C17': dict(
   text="Per-source clause decided for every position list: loop-carried state rules LP1/LP1b (no container entry or pre-loop array carries a "
        "per-source value into the next iteration), LP4/T-FRAME (data, mask, error cut with the large slices of one overlap computation, "
        "footprint with the small ones; offsets restored with the matching axis), T-AXIS/T-MIRROR (x/y pairing and copy-paste signatures "
        "over the centroid modules), A1 (inputs never written), plus the moment / quadratic-vertex formulas as normal forms.",
   note="Not decided: exact recovery on symmetric inputs beyond the formulas' normal forms; Gaussian fit convergence.",
   technique="loop-carried dependence analysis + axis tag system + mirror (copy-paste) detection + normal forms (AST)",
   design="4 C17, 3.4, 3.7"),
 'C18': dict(
   text="Superposition structure decided for all tables: every mapped parameter is assigned from the row at the start of each iteration "
        "(ROW), no state is carried between rows except the returned accumulator and no first-row special case can be skipped "
        "(LP1/LP1b/LP2 over all loops of the rendering modules), window/accumulation/precedence/skip statements have the property's normal "
        "forms (SPEC), input model and table are never written (A1), stored fit results are not modified when rendering (A2), residual = "
        "data - model.",
   note="Not decided: discretisation values (astropy). SPEC compares algebraic normal forms of the rendering statements.",
   technique="loop-carried dependence + first-iteration rule + alias analysis + normal forms (AST)",
   design="4 C18"),
 'C08': dict(
   text="Slicing commutes structurally for every cache content: every __init__ attribute read elsewhere is copied or sliced by __getitem__ "
        "(GETITEM, five catalog classes), no by-reference copied container is modified in place (SHARE), every per-source use of a value "
        "coming from an @as_scalar attribute is inside an isscalar branch or after the normalisation idiom (SCALAR-SHAPE, all uses), "
        "decorator stacks agree (DECOR), id lookups search the current id array (IDLOOKUP). The 'before or after indexing' history is covered "
        "because both the slicing of every cache kind and the recomputation path on the scalar child are constrained.",
   note="Not decided: numerical equality cat[i].p == cat.p[i]. Trusted: the as_scalar decorator body and the three sanctioned cache "
        "slicing forms.",
   technique="shape-polymorphism (scalar vs array) dataflow + attribute-completeness and sharing rules (AST)",
   design="4 C08, 3.9"),
 'C02': dict(
   text="Registration structure decided for all images/apertures: one overlap computation per aperture yields slices, weights and good-pixel "
        "mask; sums, variances and overlap areas are taken with the large slices on exactly those pixels; NaN iff the box misses the image "
        "(SPEC normal forms), variance mirrors the data expression (MIRROR), no ApertureMask/PixelAperture method modifies its stored "
        "weights (A2), no state is carried between positions (LP1/LP1b), options incl. the NDData recursion are forwarded (FWD), x/y pairing "
        "(T-AXIS), inputs never written (A1).",
   note="Not decided: the numeric sums, linearity, and the overlap weights (C01). Statement normal forms are compared with accepted forms.",
   technique="normal-form comparison of the photometry statements + alias/effect analysis + loop-carried dependence + option forwarding (AST)",
   design="4 C02"),
 'C04': dict(
   text="Detector structure decided for all inputs: labeller input is `data > threshold` and-ed with the inverse mask and labelled with the "
        "von Neumann/Moore footprint; components with count < npixels are zeroed and kept labels/slices recorded together on every path; "
        "relabel happens whenever something was pruned (raw kept labels -> 1..N, array dtype); the returned object is seeded with the final "
        "array, labels and kept slices and only the two fast paths may seed; None only after a zero-count test, warning iff None; "
        "detect_threshold = background + nsigma*error; options forwarded.",
   note="Not decided: correctness of scipy.ndimage.label / find_objects (trusted external model).",
   technique="normal-form comparison + path-event sets + who-may-write table + option forwarding (AST)",
   design="4 C04"),
 'C12': dict(
   text="Bookkeeping clauses decided structurally, recovery not claimed: T-ORDER (each per-group list is un-grouped exactly once before it "
        "meets the id-ordered table; the permutation is the argsort of the grouped ids and only the gather in _order_by_id applies it), "
        "USERCOL (no caller-supplied init_params column is overwritten), D1 (fit mask = input mask | non-finite), SPEC (ids, fit window, "
        "local-background subtraction, grouper renumbering), FWD (Iterative driver / local background forward every option), "
        "LP1/LP1b/T-AXIS/A1 on the psf photometry modules.",
   note="Not decided (no sound static bound in reach): exact recovery of x/y/flux, flux scaling, flag semantics vs geometry, iterative == "
        "single pass numerically.",
   technique="order-type (group vs id) tag system + guard analysis + normal forms + option forwarding (AST)",
   design="4 C12"),
 'C14': dict(
   text="Selection predicates decided structurally: find_peaks statements in normal form (equality with the neighbourhood maximum, mask "
        "conjoined after the filter and never written into the data, strict threshold, zero-width-safe borders, top-N by descending sort, NaN "
        "fill with the minimum on a copy), exactly the inclusive bounds of each finder's contract on the matching measurement (FILTER), "
        "agreement of the three finder catalogs on select_brightest/apply_all_filters/reset_ids (SIB), filters -> brightest -> reset_ids "
        "(D2), border order (T-AXIS), options forwarded (FWD), inputs never written (A1).",
   note="Not decided: the numeric sharpness/roundness/flux measurements.",
   technique="normal forms + sibling agreement + comparison-set extraction + axis tags (AST)",
   design="4 C14"),
 'C16': dict(
   text="Pixel-set plumbing decided structurally: sum-method properties never read centre-method masks (T-FAMILY), each cutout consumer "
        "takes the slot its name says (T-SLOT), mask/weight/variance construction statements in normal form with the aperture weights applied "
        "after the sigma clip (SPEC/ORDER), local background subtracted once on a float copy, masked pixels zeroed for the moments, centroid "
        "re-based with the clipped-cutout origin (T-FRAME), no state carried between positions (LP1/LP1b), A1.",
   note="Not decided: the statistics themselves. Two genuine defects found by these rules were fixed (sum_aper_area NaN, centroid origin).",
   technique="family/slot tag systems + normal forms + statement-order rule + loop-carried dependence (AST)",
   design="4 C16"),
 'C07': dict(
   text="Definitions decided as structure: total mask = other labels | input mask | non-finite; flux/error/area/background sums over the "
        "compressed values of the total-masked cutouts; completely masked = all of the TOTAL mask; segment_area counts `== label` (SPEC normal "
        "forms); every cutout-relative index/centroid re-based with the slice origin of the matching axis (T-FRAME); x/y and min/max twin "
        "properties carry the same decorators (detection-catalog delegation) and mirrored bodies (SIBDECOR/MIRROR); row independence of every "
        "per-source loop (LP1/LP1b); x/y pairing incl. external coordinate-order models (T-AXIS); A1.",
   note="Not decided: numeric shape/Kron formulas. One genuine defect found by T-AXIS was fixed (background_centroid sampled at (x, y)).",
   technique="normal forms + frame/axis tag systems + sibling agreement + loop-carried dependence (AST)",
   design="4 C07"),
 'C03': dict(
   text="The two slips the property names are decided structurally over the 19 anchored modules: T-FRAME (every (X, cutout_X) property "
        "pair of SourceCatalog/ApertureStats differs by exactly the bounding-box/slice origin; no cutout-relative getter reads an image-frame "
        "position) and T-AXIS/T-MIRROR (x/y pairing of keywords, assignments, 2-D subscripts, comparisons with shape/slice extents, ordered "
        "pairs incl. external coordinate-order models; copy-paste signatures between mirrored statements and sibling definitions), plus "
        "finder cutout extraction around (y, x) and per-axis loops covering both axes.",
   note="Not decided: invariance of fluxes/shapes under the shift and theta -> 90deg - theta (numerical). The tag system is silent on names "
        "outside the repository's x/y conventions.",
   technique="axis and frame tag systems (abstract interpretation over names) + mirror/copy-paste detection (AST)",
   design="4 C03, 3.7"),
 'C11': dict(
   text="Mask-blindness plumbing decided structurally, values not claimed: each of the four box blocks takes a copy of the same region of "
        "data and mask and NaN-fills it with its own mask before the statistics (LP4); every exclusion applied to the background mesh is "
        "applied to the RMS mesh (MIRROR) and no local is assigned-but-unread (DEADSTORE); masks are unions on every path built as new "
        "arrays (D1); coverage fill after interpolation (D2); bottleneck/numpy dispatch tables agree and only float64 goes to bottleneck "
        "(SIB/SPEC); cache coherence and kill/use of the meshes (L1/L3); A1 on the background modules.",
   note="Not decided: finiteness, exact constant reproduction, equivariance, clipping range, IDW values. Background2D's estimator "
        "sigma_clip reset is a C10 known finding.",
   technique="paired-region rule + mirror statements + dead-store lint + normal forms + typestate (AST)",
   design="4 C11"),
 'C01': dict(
   text="Only the Python plumbing around the overlap kernels is decided, for all centres/sizes/rotations: normal forms of the minimal bounding "
        "box (floor(x+0.5)/ceil(x+0.5)), of the recentred pixel edges, of the overlap slices and the no-overlap test, of the shape half-extents; "
        "annulus = outer - inner with identical grid/method arguments (SIB); method translation table; cache invalidation of bbox/extents on "
        "every parameter assignment (L4); x/y pairing (T-AXIS). These are necessary conditions of every clause of the property.",
   note="NOT decided: that the Cython kernels compute the true overlap fractions (weights in [0,1], sum = area). The .pyx files cannot be "
        "compiled in this sandbox (no Cython) and no sound static bound on their arithmetic is in reach; an edit to a .pyx changes no behaviour "
        "here.",
   technique="normal-form comparison + sibling-call agreement + descriptor typestate + axis tags (AST)",
   design="4 C01"),
 'C13': dict(
   text="Structural clauses only: every pixel-integrated model is flux/4 times one erf difference per axis over +-0.5 pixel with one width "
        "per axis and the y factor the exact axis mirror of the x factor (PRF); rotation convention of GaussianPRF, ImagePSF index transform "
        "((y, x) oversampling, (x, y) origin, fill test on both axes), GriddedPSFModel cell lookup (SPEC); evaluate and fit_deriv agree on "
        "shared definitions (SIB); history clause: memo key completeness (L5), no mutable class attribute modified through instances "
        "(CLASS-MUTABLE), L1 on the lazy model classes.",
   note="NOT decided: normalisation constants, unit-flux integrals, non-negativity, circular == elliptical at equal widths, bilinear blend "
        "values: a wrong constant is invisible to these rules.",
   technique="pattern/normal-form rules + axis mirror + sibling definitions + memo/typestate rules (AST)",
   design="4 C13"),
 'C15': dict(
   text="Structural clauses over the whole package: abstract dtype-kind dataflow (no in-place true division / float-valued augmented "
        "assignment / NaN store on an array that still has the caller's dtype: DTYPE, every function), unit validation completeness (every "
        "Quantity-capable documented input is in the process_quantities tuple and values/names correspond: QTY, every call site), integer -> "
        "float conversions before dtype-preserving kernels (CONV), bottleneck dispatch only for float64 (SPEC/SIB), NDData branches consume "
        "data/unit/mask/uncertainty (NDDATA).",
   note="Not decided: big-endian / Fortran / strided inputs into bottleneck, scipy and compiled kernels; float32 precision; numerical "
        "equality across representations. Two genuine defects found by DTYPE were fixed (calc_total_error, create_matching_kernel).",
   technique="abstract-interpretation dtype lattice + docstring-typed parameter rule + normal forms (AST)",
   design="4 C15"),
 'C20': dict(
   text="Structural clauses: the scalar and array forms of the ellipse coordinate transform are the same guarded-update program (TWIN, by "
        "lowering `if c: v = e` and `v[c] = e[c]` to (c, v, e) triples); every sample.update() hands over the fixed-parameter flags and the "
        "harmonic selection ignores fixed parameters (FIXED); result list sorted by sma before return (D2); eps sign flip rotates the PA "
        "by +-90 deg and the model painting uses [row, column] with matching bounds (SPEC/T-AXIS); the image reaches no in-place write in "
        "photutils.isophote (A1).",
   note="Not decided: recovery of centre/eps/PA/intensity, convergence, model reconstruction accuracy. Ellipse's persistent geometry "
        "overrides are known findings under C09/C10.",
   technique="twin lowering to guarded-update normal form + call-argument rule + normal forms + alias analysis (AST)",
   design="4 C20"),
}

# clauses added after the independently seeded rounds (DESIGN 3.9); appended to the claim text
EXTRA = {
 'C01': " Also: the positions descriptor stores a private copy (L4 own-copy, alias RET summary) and every bare number taken from theta is converted to a stated unit first (UNIT).",
 'C03': " The shape half-extent normal forms (shared with C01) and pair-inferred x/y twins of T-MIRROR are included.",
 'C06': " The final relabel step is conditioned on `relabel` alone (GUARD-ONLY).",
 'C07': " The moment cutouts zero their own non-finite/negative pixels, other labels and the input mask (mask-term rule over the resolved loop sources).",
 'C08': " CACHE-PURE: no method modifies a cached property value in place (alias summaries); LP1c: no per-source local survives a swallowed exception.",
 'C10': " `x <<= unit` on a bare parameter without a dominating not-a-Quantity guard is a sink; conditional exemptions are re-validated on every run.",
 'C11': " SCALE (no absolute tolerance in the estimators/interpolators), GUARD-ONLY (clip depends on `clip` alone) and the selective-filter selection from the background mesh are decided as well.",
 'C12': " USERCOL is a truth-table entailment (guard and 'column supplied' unsatisfiable); an order typestate proves that only id-ordered values are published by _parse_fit_results.",
 'C13': " The ImagePSF bounding box normal form (centre minus origin, per-axis oversampling) is compared too.",
 'C14': " AXIS-DISPATCH: after the per-axis dispatch of the marginal fit no fixed-axis quantity is used; the kernel quadratic form (counter-clockwise theta) is compared as a normal form.",
 'C15': " UNIT-LAST: once units are attached to a local no bare value is stored into it (41 functions).",
 'C18': " WHO/MUST-PASS: only the cutouts wrapper calls astropy overlap_slices, and it converts the shape to a tuple first.",
 'C19': " LATE-UPDATE (mask complete before it is merged), SCALE (no absolute tolerance in the monotonicity test), NONFINITE and FWD over the profile and aperture modules are included.",
 'C20': " T-SLOT: every literal fix-flag array is in the order of fitter._CORRECTORS; the model's angular step and paired bilinear deposits are compared.",
}
_PACK = (" Generic pack (DESIGN 3.10) over the property's anchor modules: x/y mirror and pairing rules, no mutable default or class "
         "attribute shared between calls/instances, per-element loops neither break out of a handler nor share an iteration counter, flag-family "
         "guards, hand-rolled memos, property getters that write, cached_property, overwrite_input, option forwarding, plus the property's rows "
         "of the spec table (sa/rules/spectable.py).")
for _k in list(CLAIMS):
    EXTRA[_k] = EXTRA.get(_k, '') + _PACK
for _k, _v in EXTRA.items():
    CLAIMS[_k]['text'] += _v
    CLAIMS[_k]['note'] += " Thorough tier additionally replays the stored seeded changes of this property in memory (DESIGN 2.2)."
fix_commits = subprocess.run(['git', '-C', '/repo', 'log', '--format=%h %s', '8203d59..HEAD'],
                             capture_output=True, text=True).stdout.strip().splitlines()
m = {
 "version": 1,
 "setup_cmd": "true",
 "hooks": {"guard": "PHOTUTILS_VERIF",
           "enable": "none needed: the checks are static and read /repo's working tree; no hooks are compiled in or imported",
           "baseline_off_cmd": "cd /repo && /venv/bin/python -m pytest -ra -q -p no:cacheprovider --timeout=900 --continue-on-collection-errors",
           "source_commits": fix_commits,
           "add_only": True},
 "engines": [
   {"name": "sa", "path": "sa/", "serves_properties": sorted(CLAIMS),
    "kind_free_text": "pure-stdlib ast checkers (front end + class model + resolver, structured dataflow, alias/effect summaries, "
                      "lazy-cache coherence, loop/schedule rules, tag systems, expression normal forms) run by /venv/bin/python"}],
 "checks": [],
 "notes": "Static analysis only. ./check <id> parses /repo/photutils on every run, never imports or executes it. "
          "exit 0 held / 1 VIOLATION / 2 ANALYSIS-ERROR (checker could not decide: parse failure, vanished anchor, floor not met). "
          "source_commits lists the unguarded 'fix:' commits made to /repo (no hook commits exist).",
 "not_applicable": [],
}
for p in props:
    pid = p['id']
    if pid in CLAIMS:
        c = CLAIMS[pid]
        m['checks'].append({
            "property_id": pid,
            "quick_cmd": f"./check {pid} --tier quick",
            "thorough_cmd": f"./check {pid} --tier thorough",
            "evidence_file": f"evidence/{pid}.json",
            "replay_cmd_template": f"./check {pid} --replay {{path}}",
            "engine": "sa",
            "level_claimed": {"category": "other", "text": c['text'], "design_ref": c['design']},
            "level_note": c['note'],
            "technique": c['technique'],
        })
    else:
        m['not_applicable'].append({"property_id": pid, "reason": "no structural clause in reach"})
json.dump(m, open(os.path.join(V, 'MANIFEST.json'), 'w'), indent=1)
print('checks:', [c['property_id'] for c in m['checks']])
