#!/bin/sh
# usage: suite.sh <worktree>   -- runs the full photutils test-suite in the worktree and compares the set of passing tests with the pristine baseline
# prints "SUITE-OK" when every baseline-passing test still passes, otherwise lists the tests that no longer pass.
wt=$1
cd "$wt" || exit 2
out=$(mktemp)
/venv/bin/python -m pytest -q -p no:cacheprovider -n 6 --timeout=900 -rA --color=no 2>&1 | grep -E "^PASSED " | sed 's/^PASSED //' | sort -u > "$out"
if [ ! -f /tmp/wt/tools/baseline_pass.txt ]; then echo "no baseline"; exit 2; fi
missing=$(comm -23 /tmp/wt/tools/baseline_pass.txt "$out")
rm -f "$out"
if [ -z "$missing" ]; then echo "SUITE-OK ($(wc -l < /tmp/wt/tools/baseline_pass.txt) baseline-passing tests still pass)"; else echo "SUITE-BROKEN: these baseline-passing tests no longer pass:"; echo "$missing" | head -40; exit 1; fi
