#!/venv/bin/python
"""Regenerate canon_locals.json from the reference tree (/repo HEAD working tree): per function, each local variable and the
fingerprint of its definition (see sa/canon.py).  Run after every commit to /repo; never run by a registered check."""
import ast, json, os, sys
V = os.path.dirname(os.path.dirname(os.path.abspath(__file__)))
sys.path.insert(0, V)
from sa import canon, normalize
from sa.core import REPO
out = {}
allfuncs = []
alldefs = {}
calls = {}
sigs = {}
shapes = {}
trees = []
for dirpath, dirnames, filenames in os.walk(os.path.join(REPO, 'photutils')):
    dirnames[:] = sorted(d for d in dirnames if d not in ('tests', '__pycache__'))
    for fn in sorted(filenames):
        if not fn.endswith('.py') or fn == 'conftest.py':
            continue
        path = os.path.join(dirpath, fn)
        rel = os.path.relpath(path, REPO)
        mod = rel[:-3].replace(os.sep, '.')
        if mod.endswith('.__init__'):
            mod = mod[:-9]
        tree = ast.parse(open(path, encoding='utf-8').read())
        trees.append((mod, tree))
        for k, v in canon.signatures(tree).items():
            sigs.setdefault(k, [])
            for one in v:
                if one not in sigs[k]:
                    sigs[k].append(one)
        for q, node in canon._functions(tree, mod):
            allfuncs.append(q)
            callees = sorted({(c.func.attr if isinstance(c.func, ast.Attribute) else c.func.id) for c in ast.walk(node)
                              if isinstance(c, ast.Call) and isinstance(c.func, (ast.Attribute, ast.Name))})
            calls[q] = [c for c in callees if c.startswith('_') and not c.startswith('__')]
            d, alld = canon.local_defs(node, want_all=True)
            if d:
                out[q] = d
            multi = {k: v for k, v in alld.items() if len(v) > 1}
            if multi:
                alldefs[q] = multi
for mod, tree in trees:
    for q, node in canon._functions(tree, mod):
        sh = canon.call_shapes(node, sigs)
        if sh:
            shapes[q] = sh
    sh = canon.call_shapes(tree, sigs)
    if sh:
        shapes[mod + '.<toplevel>'] = sh
params = {}
for mod, tree in trees:
    for q, node in canon._functions(tree, mod):
        short = q.rsplit('.', 1)[-1]
        if (short.startswith('_') and not short.startswith('__')) or '<locals>' in q:
            params[q] = canon._param_names(node)
out['__params__'] = params
unread = {}
for mod, tree in trees:
    for q, node in canon._functions(tree, mod):
        a = node.args
        ps = [x.arg for x in a.posonlyargs + a.args + a.kwonlyargs] + ([a.vararg.arg] if a.vararg else []) + ([a.kwarg.arg] if a.kwarg else [])
        reads = {x.id for x in ast.walk(node) if isinstance(x, ast.Name) and isinstance(x.ctx, ast.Load)}
        u = [p_ for p_ in ps if p_ not in reads and p_ not in ('self', 'cls')]
        if u:
            unread[q] = u
out['__unread_params__'] = unread
out['__signatures__'] = sigs
out['__callshapes__'] = shapes
out['__functions__'] = sorted(allfuncs)
out['__alldefs__'] = alldefs
out['__calls__'] = {k: v for k, v in calls.items() if v}
# method pairs of the two catalog classes that are near-clones on the reference tree (sa/rules/common.run_clones)
try:
    from sa.core import load_repo
    from sa.report import Result
    from sa.rules import common as _C
    _A, _B = 'photutils.segmentation.catalog.SourceCatalog', 'photutils.aperture.stats.ApertureStats'
    out['__clones__'] = {f'{_A}|{_B}': _C.run_clones(load_repo(), Result('GEN'), _A, _B, collect_only=True)}
except Exception as exc:      # the table is still usable without it
    print('clone table not generated:', exc)
json.dump({k: out[k] for k in sorted(out)}, open(os.path.join(V, 'canon_locals.json'), 'w'), indent=0)
print(len(allfuncs), 'functions,', sum(len(v) for k, v in out.items() if not k.startswith('__')), 'locals')
