#!/venv/bin/python
"""Development tool: replay stored changes IN MEMORY (nothing touches /repo) with a process pool.
  tools/replay_all.py benign      every benign/<name>/patch.diff against ALL 20 properties -> must be silent
  tools/replay_all.py seeded      every seeded/<name>/patch.diff against its own property   -> must be reported
"""
import glob, importlib, json, os, sys
from multiprocessing import Pool
V = os.path.dirname(os.path.dirname(os.path.abspath(__file__)))
sys.path.insert(0, V)
PROPS = [f'C{i:02d}' for i in range(1, 21)]


_CLEAN = {}


def _base(p, mod):
    # the clean tree's findings per property are the same for every stored change: once per worker process
    from sa.core import load_repo
    if 'repo' not in _CLEAN:
        _CLEAN['repo'] = load_repo()
    if p not in _CLEAN:
        _CLEAN[p] = {f.key for f in mod.run(_CLEAN['repo'], 'quick').findings}
    return _CLEAN[p]


def work(args):
    kind, d = args
    from sa.core import load_repo, AnalysisError
    from sa.liveness import _patched_sources
    from sa import report
    name = os.path.basename(d)
    srcs = _patched_sources(os.path.join(d, 'patch.diff'))
    if srcs is None:
        return name, 'PATCH DOES NOT APPLY'
    repo2 = load_repo(overrides=srcs)
    props = PROPS if kind == 'benign' else [json.load(open(os.path.join(d, 'meta.json')))['property']]
    out = []
    for p in props:
        mod = importlib.import_module(f'sa.rules.{p}')
        try:
            base = _base(p, mod)
            res = mod.run(repo2, 'quick')
            new = [f for f in res.findings if f.key not in base]
            floors = [r for r, n in res.floors.items() if res.rule_instances.get(r, 0) < n]
            if new:
                out.append(f'{p}:' + ','.join(sorted({f.rule for f in new})))
            elif floors:
                out.append(f'{p}:ANALYSIS-ERROR(floor {floors})')
        except AnalysisError as exc:
            out.append(f'{p}:ANALYSIS-ERROR({str(exc)[:60]})')
        except Exception as exc:
            out.append(f'{p}:CRASH({type(exc).__name__} {str(exc)[:60]})')
    return name, ' '.join(out)


def main():
    kind = sys.argv[1]
    dirs = sorted(glob.glob(os.path.join(V, kind, 'C*')))
    with Pool(int(os.environ.get('JOBS', '12'))) as pool:
        results = pool.map(work, [(kind, d) for d in dirs], chunksize=1)
    bad = 0
    for name, r in results:
        if kind == 'benign':
            if r:
                bad += 1
                print(f'{name}: FALSE ALARM {r}')
        else:
            if not r or 'ANALYSIS-ERROR' in r or 'CRASH' in r or r.startswith('PATCH DOES'):
                bad += 1
                print(f'{name}: NOT REPORTED ({r})')
    print(f'{kind}: {len(results) - bad} of {len(results)} ' + ('silent' if kind == 'benign' else 'reported'))
    if kind == 'seeded' and '--write' in sys.argv:
        # record which rules report each stored change (meta.json caught_by) and regenerate seeded/INDEX.md
        rows = []
        for (name, r), d in zip(results, dirs):
            mp = os.path.join(d, 'meta.json')
            meta = json.load(open(mp))
            caught = [x.replace(':', ': ', 1).replace(',', ', ') for x in r.split()] if r and not r.startswith('PATCH DOES') else []
            caught = [c for c in caught if 'ANALYSIS-ERROR' not in c and 'CRASH' not in c]
            meta['caught_by'] = caught
            json.dump(meta, open(mp, 'w'), indent=1)
            rows.append((name, meta['property'], '; '.join(caught) if caught else ('MISSED ' + r).strip(), meta.get('breaks', '')))
        with open(os.path.join(V, 'seeded', 'INDEX.md'), 'w') as fh:
            fh.write('# Seeded changes and the rules that report them\n\n'
                     'Each change was written by an independent sub-agent (property text + scratch worktree only), confirmed with '
                     '`tools/verify_seed.sh` in a scratch worktree (demo fails with the patch, passes without, the pinned suite still '
                     'passes), and replayed against the check of its property with `tools/replay_all.py seeded --write` '
                     '(in memory; /repo is not touched).\n\n'
                     '| seed | property | reported by | what the change does |\n|---|---|---|---|\n')
            for name, prop, caught, what in rows:
                fh.write(f'| {name} | {prop} | {caught} | {what[:220].replace("|", "/")} |\n')
            m = len([r_ for r_ in rows if not r_[2].startswith('MISSED')])
            fh.write(f'\n{m} of {len(rows)} seeded changes are reported by the check of the property they break.\n')


if __name__ == '__main__':
    main()
