#!/bin/sh
# apply each benign patch and run its property's check plus all others quickly; report any non-zero
for d in /verif/benign/C*; do
  [ -f $d/patch.diff ] || continue
  id=$(basename $d | cut -d- -f1); b=$(basename $d | cut -d- -f2)
  cd /repo
  git apply $d/patch.diff 2>/dev/null || { echo "$id/$b PATCHFAIL"; git checkout -- .; continue; }
  bad=""
  for i in $(seq -w 1 20); do
    out=$(/verif/check C$i 2>&1); rc=$?
    if [ $rc -ne 0 ]; then bad="$bad C$i(rc=$rc):$(echo "$out" | grep -E "^  |ANALYSIS" | awk '{print $1}' | sort -u | tr '\n' ',')"; fi
  done
  git checkout -- .
  echo "$id/$b => ${bad:-silent}"
done
