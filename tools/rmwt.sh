#!/bin/sh
# usage: rmwt.sh <name>
git -C /repo worktree remove --force /tmp/wt/$1 2>/dev/null || rm -rf /tmp/wt/$1
git -C /repo worktree prune
