#!/bin/sh
# usage: mkwt.sh <name>  -> creates /tmp/wt/<name> : a detached worktree of /repo HEAD with the git-ignored build products copied in
set -e
d=/tmp/wt/$1
mkdir -p /tmp/wt
git -C /repo worktree add --detach -f "$d" HEAD >/dev/null 2>&1
cp /repo/photutils/version.py "$d/photutils/"
cp /repo/photutils/*.so "$d/photutils/" 2>/dev/null || true
cp /repo/photutils/geometry/*.so "$d/photutils/geometry/"
echo "$d"
