"""T-AXIS and T-MIRROR: x/y pairing by naming convention (unknown => silent).

Tags: 'X', 'Y', ('P', a, b) for ordered pairs, None for unknown/mixed.
"""
from __future__ import annotations

import ast
import re
import copy

from .core import unparse, norm_stmt_text, enclosing_stmt

X, Y = 'X', 'Y'

def _mk(p):
    return re.compile(p)


# ordered: first match wins.  Each entry flips x->y or y->x inside identifiers.
_FLIPS = []
for a, b in (('x', 'y'), ('y', 'x')):
    A, B = a.upper(), b.upper()
    _FLIPS += [
        (_mk(rf'^i{a}(?=min$|max$|\d*$|_|cen|idx|start|stop|0$|1$)'), f'i{b}'),
        (_mk(rf'^n{a}$'), f'n{b}'),
        (_mk(rf'^h{a}(?=fs$|size$|$)'), f'h{b}'),
        (_mk(rf'^d{a}(?=$|\d|_)'), f'd{b}'),
        (_mk(rf'^{a}{a}$'), f'{b}{b}'),
        (_mk(rf'^{a}(?=$|\d|_|min|max|cen|pos|peak|idx|size|shape|border|stddev|sigma|fwhm|off|orig|start|stop|fs$|hw|len|'
             rf'grid|bins|range|coord|val|init|fit|err|centroid|cutout|index|indices|edge|extent|half|width|lo$|hi$|low|high|'
             rf'new|old|arr|data|marg|col|mirror|masked|_?range$|radius|weight|sum|mom|var|std|hat|tr$|rot|prime|name|c$|p$|s$|i$|t$|m$|d$|w$|r$|n$|values?$)'), b),
        (_mk(rf'_{a}(?=$|\d|_|min|max|cen|pos|peak|idx|centroid|origin|stddev|fwhm|index|indices|name|shape|size)'), f'_{b}'),
    ]
_FLIPS_ALL = _FLIPS


def mirror_name(name):
    if name in ('xy', 'yx') or name.startswith(('xy', 'yx')) and not name.startswith(('xyz',)):
        # pair names flip as a whole: xycen <-> xycen (unchanged), handled by index flip
        return None
    for pat, rep in _FLIPS_ALL:
        new, n = pat.subn(rep, name, count=1)
        if n:
            return new
    return None


def name_tag(name):
    if not name:
        return None
    if name.startswith('xy') and not name.startswith('xyz'):
        return ('P', X, Y)
    if name.startswith('yx'):
        return ('P', Y, X)
    if name in ('ncols', 'ncol'):
        return X
    if name in ('nrows', 'nrow'):
        return Y
    m = mirror_name(name)
    if m is None or len(m) != len(name):
        return None
    for c1, c2 in zip(name, m):
        if c1 != c2:
            return X if c1 == 'x' else Y if c1 == 'y' else None
    return None


# names whose [0]/[1] are (y, x) ordered, and (x, y) ordered
YX_ORDER = re.compile(r'(shape|size$|sizes$|boxsize|box_size|oversampl|border_width|^slc|slc$|_slc|slices?($|_)|^slice|'
                      r'^yx|filter_size|hshape|kernel_shape|steps?$|^idx$)')
XY_ORDER = re.compile(r'(^xy|origin$|positions$|xypos|xycen|center_xy|_xy$|peak_xy|centroid(_win|_quad)?$)')


def order_of(expr):
    """'YX' / 'XY' / None for the thing being indexed."""
    if isinstance(expr, ast.Attribute):
        n = expr.attr
        # BoundingBox.center is documented (y, x)
        if n == 'center' and 'bbox' in unparse(expr.value, 0).lower():
            return 'YX'
    elif isinstance(expr, ast.Name):
        n = expr.id
    elif isinstance(expr, ast.Call):
        return None
    else:
        return None
    if YX_ORDER.search(n):
        return 'YX'
    if XY_ORDER.search(n):
        return 'XY'
    return None


def pair_order(e):
    """'YX' / 'XY' / None for an expression that evaluates to an ordered pair: a named pair, the same converted by
    np.array/asarray/tuple, scaled by arithmetic, or the last two axes of a shape (`shape[1:]` of a cube, `shape[-2:]`)."""
    if isinstance(e, (ast.Name, ast.Attribute)):
        return order_of(e)
    if isinstance(e, ast.Call) and unparse(e.func, 0).split('.')[-1] in ('array', 'asarray', 'asanyarray', 'tuple', 'list') \
            and len(e.args) >= 1:
        return pair_order(e.args[0])
    if isinstance(e, ast.BinOp) and isinstance(e.op, (ast.Div, ast.Mult, ast.FloorDiv, ast.Add, ast.Sub)):
        return pair_order(e.left) or pair_order(e.right)
    if isinstance(e, ast.Subscript) and isinstance(e.slice, ast.Slice) and e.slice.upper is None and e.slice.step is None \
            and e.slice.lower is not None and order_of(e.value) == 'YX' and 'shape' in unparse(e.value, 0):
        lo = e.slice.lower
        if (isinstance(lo, ast.Constant) and lo.value == 1) or \
                (isinstance(lo, ast.UnaryOp) and isinstance(lo.op, ast.USub) and isinstance(lo.operand, ast.Constant) and lo.operand.value == 2):
            return 'YX'
    return None


def tag(e):
    """Axis tag of an expression, or None."""
    if isinstance(e, ast.Name):
        return name_tag(e.id)
    if isinstance(e, ast.Attribute):
        if e.attr in ('start', 'stop', 'value', 'size', 'real'):
            return tag(e.value)
        t = name_tag(e.attr)
        return t
    if isinstance(e, ast.Subscript):
        base_t = tag(e.value)
        k = _const_index(e.slice)
        if k in (0, 1):
            if isinstance(base_t, tuple):
                return base_t[1 + k]
            o = order_of(e.value)
            if o == 'YX':
                return Y if k == 0 else X
            if o == 'XY':
                return X if k == 0 else Y
            return None
        if isinstance(base_t, str):
            return base_t     # element / slice of an x-array is still an x-quantity
        if base_t is None:
            # row[xcolname], table['x_fit']: a column selected by an x/y-named key
            key = e.slice
            kt = name_tag(key.id) if isinstance(key, ast.Name) else \
                name_tag(key.value) if isinstance(key, ast.Constant) and isinstance(key.value, str) and key.value.isidentifier() else None
            if isinstance(kt, str):
                return kt
        return None
    if isinstance(e, ast.UnaryOp):
        return tag(e.operand)
    if isinstance(e, ast.BinOp):
        a, b = tag(e.left), tag(e.right)
        if isinstance(a, tuple) or isinstance(b, tuple):
            if isinstance(a, tuple) and isinstance(b, tuple):
                return a if a == b else None
            return a if isinstance(a, tuple) else b
        if a and b:
            return a if a == b else None
        return a or b
    if isinstance(e, ast.Call):
        fn = unparse(e.func, 0).split('.')[-1]
        if fn in ('int', 'float', 'round', 'floor', 'ceil', 'abs', 'min', 'max', 'minimum', 'maximum', 'clip',
                  'asarray', 'array', 'atleast_1d', 'rint', 'py2intround', '_py2intround', 'astype', 'ravel', 'copy',
                  'nanmin', 'nanmax'):
            ts = {tag(a) for a in e.args}
            ts.discard(None)
            if fn in ('astype', 'ravel', 'copy') and isinstance(e.func, ast.Attribute):
                return tag(e.func.value)
            if len(ts) == 1:
                t = ts.pop()
                return t
            return None
        if fn in ('transpose',) and e.args:
            return tag(e.args[0])
        return None
    if isinstance(e, (ast.Tuple, ast.List)) and len(e.elts) == 2:
        a, b = tag(e.elts[0]), tag(e.elts[1])
        if isinstance(a, str) and isinstance(b, str) and a != b:
            return ('P', a, b)
        if isinstance(a, str) and a == b:
            return a      # (x.start, x.stop): a range along one axis
        return None
    if isinstance(e, ast.IfExp):
        a, b = tag(e.body), tag(e.orelse)
        return a if a == b else None
    return None


def _const_index(sl):
    if isinstance(sl, ast.Constant) and isinstance(sl.value, int):
        return sl.value
    if isinstance(sl, ast.Tuple) and len(sl.elts) == 2 and isinstance(sl.elts[0], ast.Slice) \
            and isinstance(sl.elts[1], ast.Constant) and isinstance(sl.elts[1].value, int):
        return sl.elts[1].value       # pair[:, k]
    if isinstance(sl, ast.Tuple) and len(sl.elts) == 2 and isinstance(sl.elts[0], ast.Constant) \
            and sl.elts[0].value is Ellipsis and isinstance(sl.elts[1], ast.Constant):
        return sl.elts[1].value
    return None


def opposite(a, b):
    return isinstance(a, str) and isinstance(b, str) and a != b


# external functions: (index of the coordinate-pair argument, its order)
COORD_ARGS = {
    'map_coordinates': (1, 'YX'),       # scipy.ndimage: coordinates in array-index order
    'overlap_slices': (2, 'YX'),        # astropy.nddata.utils: position in (y, x)
    'extract_array': (2, 'YX'),
    'add_array': (2, 'YX'),
    'Cutout2D': (1, 'XY'),              # astropy Cutout2D position is (x, y)
    'unravel_index': (99, 'YX'),
}
# external functions with per-axis positional arguments: astropy discretize_model(model, x_range, y_range, ...)
POS_AXIS_ARGS = {
    'discretize_model': {1: X, 2: Y},
}
# callables / indexers whose 2-tuple result has a fixed order
PAIR_RETURNS = {
    'mgrid': 'YX', 'ogrid': 'YX', 'indices': 'YX', 'unravel_index': 'YX', 'nonzero': 'YX', 'where': 'YX',
    'meshgrid': 'XY',
}
IMAGE_NAME = re.compile(r'(data|image|img|array|mask|error|weights?|cutout|segm|frac|footprint|kernel|bkg|background|'
                        r'result|out|model_image|variance)')


def axis_conflicts(func_node):
    """Yield (node, message) for x/y pairing conflicts inside a function; and
    the number of constructs that were checkable (both sides tagged)."""
    checked = 0
    out = []
    # a definition whose own name carries an axis tag returns a pure expression of the other axis
    if isinstance(func_node, (ast.FunctionDef, ast.AsyncFunctionDef)):
        ft = name_tag(func_node.name.lstrip('_')) if not func_node.name.lstrip('_').startswith(('xy', 'yx')) else None
        if isinstance(ft, str):
            for n in ast.walk(func_node):
                if isinstance(n, ast.Return) and n.value is not None:
                    v = n.value
                    # np.array([<elt> for ...]) / [<elt> for ...]: look at the element
                    while isinstance(v, ast.Call) and v.args and unparse(v.func, 0).split('.')[-1] in ('array', 'asarray', 'atleast_1d'):
                        v = v.args[0]
                    if isinstance(v, (ast.ListComp, ast.GeneratorExp)):
                        v = v.elt
                    vt = tag(v)
                    if isinstance(vt, str) and _pure(v):
                        checked += 1
                        if vt != ft:
                            out.append((n, f'`{func_node.name}` ({ft}) returns the {vt}-axis value `{unparse(v, 60)}`'))
    for n in ast.walk(func_node):
        # keyword arguments whose name carries a tag
        if isinstance(n, ast.Call):
            for k in n.keywords:
                if k.arg:
                    kt = name_tag(k.arg)
                    vt = tag(k.value)
                    if isinstance(kt, str) and isinstance(vt, str):
                        checked += 1
                        if kt != vt:
                            out.append((k.value, f'keyword `{k.arg}` ({kt}) receives the {vt}-axis value `{unparse(k.value, 60)}`'))
                    if isinstance(kt, tuple) and isinstance(vt, tuple):
                        checked += 1
                        if kt != vt:
                            out.append((k.value, f'keyword `{k.arg}` is ({kt[1]},{kt[2]})-ordered but receives `{unparse(k.value, 60)}` ordered ({vt[1]},{vt[2]})'))
        # external APIs with a fixed coordinate order (model rows)
        if isinstance(n, ast.Call):
            fn = unparse(n.func, 0).split('.')[-1]
            spec_ = COORD_ARGS.get(fn)
            if spec_:
                pos, order = spec_
                if pos < len(n.args):
                    vt = tag(n.args[pos])
                    if isinstance(vt, tuple):
                        checked += 1
                        want = ('P', Y, X) if order == 'YX' else ('P', X, Y)
                        if vt != want:
                            out.append((n, f'`{fn}` takes its coordinates in ({want[1].lower()}, {want[2].lower()}) order but receives '
                                           f'`{unparse(n.args[pos], 50)}` ordered ({vt[1].lower()}, {vt[2].lower()})'))
        # external APIs whose positional arguments belong to a fixed axis
        if isinstance(n, ast.Call):
            fn = unparse(n.func, 0).split('.')[-1]
            for pos, want in POS_AXIS_ARGS.get(fn, {}).items():
                if pos < len(n.args):
                    vt = tag(n.args[pos])
                    if isinstance(vt, str):
                        checked += 1
                        if vt != want:
                            out.append((n, f'`{fn}` takes a {want}-axis value as positional argument {pos} but receives the '
                                           f'{vt}-axis value `{unparse(n.args[pos], 50)}`'))
        # a, b = <call returning an ordered pair>
        if isinstance(n, ast.Assign) and len(n.targets) == 1 and isinstance(n.targets[0], (ast.Tuple, ast.List)) \
                and len(n.targets[0].elts) == 2:
            v = n.value
            base = v.value if isinstance(v, ast.Subscript) else v
            fn = unparse(base.func, 0).split('.')[-1] if isinstance(base, ast.Call) else unparse(base, 0).split('.')[-1]
            order = PAIR_RETURNS.get(fn)
            if order:
                ta, tb = tag(n.targets[0].elts[0]), tag(n.targets[0].elts[1])
                if isinstance(ta, str) and isinstance(tb, str) and ta != tb:
                    checked += 1
                    want = (Y, X) if order == 'YX' else (X, Y)
                    if (ta, tb) != want:
                        out.append((n, f'`{fn}` yields ({want[0].lower()}, {want[1].lower()}) but is unpacked into `{unparse(n.targets[0], 40)}`'))
        # name = expr
        if isinstance(n, ast.Assign) and len(n.targets) == 1:
            t = n.targets[0]
            if isinstance(t, (ast.Name, ast.Attribute)):
                tt, vt = tag(t), tag(n.value)
                if isinstance(tt, str) and isinstance(vt, str) and _pure(n.value):
                    checked += 1
                    if tt != vt:
                        out.append((n, f'`{unparse(t, 40)}` ({tt}) is assigned the {vt}-axis value `{unparse(n.value, 60)}`'))
                if not isinstance(tt, tuple) and isinstance(vt, tuple) and isinstance(n.value, (ast.Tuple, ast.List)):
                    o = order_of(t)
                    tt = ('P', Y, X) if o == 'YX' else ('P', X, Y) if o == 'XY' else tt
                if isinstance(tt, tuple) and isinstance(vt, tuple):
                    checked += 1
                    if tt != vt:
                        out.append((n, f'`{unparse(t, 40)}` is ({tt[1]},{tt[2]})-ordered but is assigned `{unparse(n.value, 60)}` ordered ({vt[1]},{vt[2]})'))
            if isinstance(t, (ast.Tuple, ast.List)) and isinstance(n.value, (ast.Tuple, ast.List)) \
                    and len(t.elts) == len(n.value.elts):
                for a, b in zip(t.elts, n.value.elts):
                    ta, tb = tag(a), tag(b)
                    if isinstance(ta, str) and isinstance(tb, str):
                        checked += 1
                        if ta != tb:
                            out.append((n, f'`{unparse(a, 30)}` ({ta}) is assigned the {tb}-axis value `{unparse(b, 50)}`'))
            # a, b = pair  (unpacking an ordered pair)
            if isinstance(t, (ast.Tuple, ast.List)) and len(t.elts) == 2 and not isinstance(n.value, (ast.Tuple, ast.List)):
                vt = tag(n.value)
                if vt is None:
                    o = pair_order(n.value)
                    vt = ('P', Y, X) if o == 'YX' else ('P', X, Y) if o == 'XY' else None
                ta, tb = tag(t.elts[0]), tag(t.elts[1])
                if isinstance(vt, tuple) and isinstance(ta, str) and isinstance(tb, str):
                    checked += 1
                    if (ta, tb) != (vt[1], vt[2]):
                        out.append((n, f'`{unparse(n.value, 40)}` is ({vt[1]},{vt[2]})-ordered but is unpacked into ({ta},{tb}) names `{unparse(t, 40)}`'))
        # x_name = <Y-ordered projection> * (...x...) : a scale factor of the other axis
        if isinstance(n, ast.Assign) and len(n.targets) == 1 and isinstance(n.targets[0], ast.Name) \
                and isinstance(n.value, ast.BinOp) and isinstance(n.value.op, (ast.Mult, ast.Div)):
            tt = tag(n.targets[0])
            if isinstance(tt, str):
                for side in (n.value.left, n.value.right):
                    if isinstance(side, ast.Subscript) and _const_index(side.slice) in (0, 1) and order_of(side.value) is not None:
                        st_ = tag(side)
                        other = n.value.right if side is n.value.left else n.value.left
                        ot = tag(other)
                        if isinstance(st_, str) and (ot is None or ot == tt):
                            checked += 1
                            if st_ != tt:
                                out.append((n, f'`{unparse(n.targets[0])}` ({tt}) is scaled by the {st_}-axis element `{unparse(side, 40)}`'))
        # 2-D subscripts [row, col] must be [Y, X]
        if isinstance(n, ast.Subscript) and isinstance(n.slice, ast.Tuple) and len(n.slice.elts) == 2:
            a, b = n.slice.elts
            ta = tag(a.lower) if isinstance(a, ast.Slice) and a.lower is not None else tag(a) if not isinstance(a, ast.Slice) else None
            tb = tag(b.lower) if isinstance(b, ast.Slice) and b.lower is not None else tag(b) if not isinstance(b, ast.Slice) else None
            if isinstance(ta, str) and isinstance(tb, str) and ta != tb:
                base = unparse(n.value, 0).split('.')[-1]
                if IMAGE_NAME.search(base.lower()) and 'moment' not in base.lower():
                    checked += 1
                    if (ta, tb) != (Y, X):
                        out.append((n, f'2-D index `{unparse(n, 60)}` is [x, y] ordered; images are indexed [y, x]'))
        # comparisons / min / max between an X quantity and a Y extent
        if isinstance(n, ast.Compare) and len(n.ops) == 1:
            ta, tb = tag(n.left), tag(n.comparators[0])
            if isinstance(ta, str) and isinstance(tb, str):
                checked += 1
                if ta != tb and (_is_extent(n.left) or _is_extent(n.comparators[0])):
                    out.append((n, f'comparison `{unparse(n, 70)}` relates a {ta}-axis and a {tb}-axis quantity'))
        if isinstance(n, ast.Call) and unparse(n.func, 0).split('.')[-1] in ('min', 'max', 'minimum', 'maximum') and len(n.args) == 2:
            ta, tb = tag(n.args[0]), tag(n.args[1])
            if isinstance(ta, str) and isinstance(tb, str):
                checked += 1
                if ta != tb:
                    out.append((n, f'`{unparse(n, 70)}` combines a {ta}-axis and a {tb}-axis quantity'))
        # +/- between a coordinate and a slice/shape projection of the other axis
        if isinstance(n, ast.BinOp) and isinstance(n.op, (ast.Add, ast.Sub)):
            ta, tb = tag(n.left), tag(n.right)
            if isinstance(ta, str) and isinstance(tb, str) and (_is_extent(n.left) or _is_extent(n.right)):
                checked += 1
                if ta != tb:
                    out.append((n, f'`{unparse(n, 70)}` adds a {ta}-axis and a {tb}-axis quantity'))
        # slice(y..) pairs / BoundingBox positional order are covered by keywords above
    # min/max/clip of quantities of different axes: an x extent bounded by the y size (`min(ceil(xc + r), shape[0])`)
    for n in ast.walk(func_node):
        if isinstance(n, ast.Call) and unparse(n.func, 0).split('.')[-1] in ('min', 'max', 'minimum', 'maximum') \
                and len(n.args) == 2 and not n.keywords:
            ta, tb = tag(n.args[0]), tag(n.args[1])
            if isinstance(ta, str) and isinstance(tb, str):
                checked += 1
                if ta != tb:
                    out.append((n, f'`{unparse(n.args[0], 40)}` ({ta}) is bounded by the {tb}-axis value `{unparse(n.args[1], 40)}`'))
    return out, checked


def _pure(e):
    """Built only from tagged terms, constants, +/- and wrappers: no product with
    an untagged factor (ysigma = xsigma * ratio is a relation, not a slip)."""
    if isinstance(e, ast.BinOp):
        if isinstance(e.op, (ast.Add, ast.Sub)):
            return _pure(e.left) and _pure(e.right)
        if isinstance(e.op, (ast.Mult, ast.Div, ast.FloorDiv)):
            l, r = e.left, e.right
            return (_pure(l) and isinstance(r, ast.Constant)) or (_pure(r) and isinstance(l, ast.Constant))
        return False
    if isinstance(e, ast.Constant):
        return True
    if isinstance(e, (ast.Name, ast.Attribute, ast.Subscript)):
        return tag(e) is not None
    if isinstance(e, ast.UnaryOp):
        return _pure(e.operand)
    if isinstance(e, ast.Call):
        return all(_pure(a) for a in e.args) and bool(e.args)
    return False


def _is_extent(e):
    """shape[k], slc[k].start/stop, bbox.ixmin-like: an origin/extent term."""
    if isinstance(e, ast.Attribute) and e.attr in ('start', 'stop'):
        return True
    if isinstance(e, ast.Subscript) and _const_index(e.slice) in (0, 1) and order_of(e.value) is not None:
        return True
    if isinstance(e, ast.Attribute) and re.search(r'(min|max|origin|start)$', e.attr):
        return True
    if isinstance(e, ast.Name) and re.search(r'(min|max|origin|start|stop|size|shape)$', e.id):
        return True
    if isinstance(e, ast.BinOp):
        return _is_extent(e.left) or _is_extent(e.right)
    return False


# ---------------------------------------------------------------------------
# T-MIRROR
# ---------------------------------------------------------------------------

def leaves(node, ops=True):
    """(structure signature, [leaf tokens], [leaf kinds]) of a statement/expr."""
    sig = []
    toks = []

    def rec(n, ctx_order=None):
        sig.append(type(n).__name__)
        if isinstance(n, ast.Name):
            toks.append(('id', n.id))
        elif isinstance(n, ast.Attribute):
            rec(n.value)
            toks.append(('attr', n.attr))
        elif isinstance(n, ast.Constant):
            toks.append(('const', repr(n.value)))
        elif isinstance(n, ast.Subscript):
            rec(n.value)
            o = order_of(n.value)
            bt = tag(n.value)
            k = _const_index(n.slice)
            own_axis = isinstance(bt, str) or (isinstance(n.value, ast.Attribute) and n.value.attr in ('shape', 'size')
                                               and (isinstance(tag(n.value.value), str)
                                                    or (isinstance(n.value.value, ast.Attribute)
                                                        and isinstance(name_tag(n.value.value.attr.lstrip('_')), str))))
            if k in (0, 1) and (o is not None or isinstance(bt, tuple)) and not own_axis:
                # (an array that itself belongs to one axis - xgrid.shape[0] / ygrid.shape[0] - is indexed the same way for both)
                sig.append('AxisIndex')
                toks.append(('axidx', k))
                # keep structure of slice for pair[:, k]
            else:
                rec(n.slice)
        elif isinstance(n, ast.keyword):
            toks.append(('kw', n.arg))
            rec(n.value)
        elif isinstance(n, ast.arg):
            toks.append(('id', n.arg))
        else:
            for c in ast.iter_child_nodes(n):
                if isinstance(c, (ast.expr_context, ast.operator, ast.cmpop, ast.unaryop, ast.boolop)):
                    if ops or isinstance(c, ast.expr_context):
                        sig.append(type(c).__name__)
                    else:
                        sig.append('op')
                    continue
                rec(c)
    rec(node)
    return tuple(sig), toks


_LOCAL_TWINS = {}


def _local_twins(func_node):
    """Names of one function that differ only in a leading x/y (`xc`/`yc`, `xlo`/`ylo`) and that the vocabulary does not know:
    both occur in the function, so within it they are the two axes' versions of one quantity."""
    ids = {n.id for n in ast.walk(func_node) if isinstance(n, ast.Name)} | {a.arg for a in ast.walk(func_node) if isinstance(a, ast.arg)}
    out = {}
    for a in ids:
        if len(a) >= 2 and a[0] == 'x' and ('y' + a[1:]) in ids and mirror_name(a) is None:
            out[a] = 'y' + a[1:]
            out['y' + a[1:]] = a
    return out


def flip_tok(tok):
    kind, v = tok
    if kind in ('id', 'attr', 'kw') and isinstance(v, str):
        m = mirror_name(v)
        if m is None and kind == 'id' and v in _LOCAL_TWINS:
            m = _LOCAL_TWINS[v]
        return (kind, m) if m else tok
    if kind == 'axidx':
        return (kind, 1 - v)
    if kind == 'const' and v in ("'x'", "'y'"):
        return (kind, "'y'" if v == "'x'" else "'x'")
    if kind == 'const' and isinstance(v, str) and v.startswith("'"):
        inner = v[1:-1]
        m = mirror_name(inner) if re.match(r'^\w+$', inner) else None
        return (kind, repr(m)) if m else tok
    return tok


def mirror_compare(s1, s2, known_mirror=False, ops=True):
    """Compare statement s2 with the axis-flip of s1.
    Returns ('mirror', 0) for an exact mirror, ('copy-paste', [(i, tok1, tok2)])
    for the copy-paste signature, (None, ...) otherwise."""
    sig1, t1 = leaves(s1, ops)
    sig2, t2 = leaves(s2, ops)
    if sig1 != sig2 or len(t1) != len(t2) or not t1:
        return None, None
    f1 = [flip_tok(t) for t in t1]
    # names the vocabulary does not know but the pair itself shows to be x/y twins
    # (`xmirror`/`ymirror` at the same position of two identically shaped statements)
    for i, (a, b) in enumerate(zip(t1, t2)):
        if f1[i] == a and a[0] == b[0] and a[0] in ('id', 'attr', 'kw') and isinstance(a[1], str) and isinstance(b[1], str) \
                and len(a[1]) > 1 and len(a[1]) == len(b[1]):
            # one character differs and it is x <-> y (`xmirror`/`ymirror`, `nxpts`/`nypts`)
            d_ = [k for k in range(len(a[1])) if a[1][k] != b[1][k]]
            if len(d_) == 1 and {a[1][d_[0]], b[1][d_[0]]} == {'x', 'y'}:
                f1[i] = b
    n_axis = sum(1 for a, b in zip(t1, f1) if a != b)
    if n_axis == 0:
        return None, None
    diffs = [(i, t1[i], t2[i]) for i in range(len(t1)) if f1[i] != t2[i]]
    if not diffs:
        return 'mirror', []
    flipped_ok = sum(1 for i in range(len(t1)) if f1[i] == t2[i] and t1[i] != f1[i])
    if len(diffs) <= 2 and (flipped_ok >= 1 or known_mirror) and all(t2[i] == t1[i] and f1[i] != t1[i] for i, _, _ in diffs):
        return 'copy-paste', diffs
    return None, diffs


def operator_mismatch(s1, s2):
    """For two constructs that are exact axis mirrors: the first position at which their operators differ
    (`xmax <= 0` / `ymax < 0`, `x + 1` / `y - 1`), or None."""
    o1 = [type(o).__name__ for o in ast.walk(s1) if isinstance(o, (ast.cmpop, ast.operator, ast.unaryop, ast.boolop))]
    o2 = [type(o).__name__ for o in ast.walk(s2) if isinstance(o, (ast.cmpop, ast.operator, ast.unaryop, ast.boolop))]
    if len(o1) != len(o2):
        return None
    for a, b in zip(o1, o2):
        if a != b:
            return a, b
    return None


_ARITH_HELPERS = {'max', 'min', 'int', 'round', 'abs', 'float', 'np', 'math', 'floor', 'ceil', 'rint', 'maximum', 'minimum', 'clip'}
_ROTATION = re.compile(r'(^|_)(cos|sin|cost|sint|cosa|sina|cospa|sinpa)($|_)|^(cos|sin)')


def asymmetric_pair(e1, e2):
    """e2 mentions exactly the axis-flipped names of e1 (at least one of them an axis name) but combines them differently:
    `x - max(0, b.ixmin)` / `y - b.iymin`.  Rotations (sin/cos mixes) are asymmetric by nature and skipped."""
    s1, t1 = leaves(e1)
    s2, t2 = leaves(e2)
    if s1 == s2:
        return False
    n1 = [t for t in t1 if t[0] in ('id', 'attr', 'kw', 'axidx') and t[1] not in _ARITH_HELPERS]
    n2 = [t for t in t2 if t[0] in ('id', 'attr', 'kw', 'axidx') and t[1] not in _ARITH_HELPERS]
    if not n1 or not n2 or not any(flip_tok(t) != t for t in n1):
        return False
    if any(t[0] in ('id', 'attr') and _ROTATION.search(str(t[1])) for t in n1 + n2):
        return False
    return sorted(map(str, (flip_tok(t) for t in n1))) == sorted(map(str, n2))


def mirror_scan_block(stmts):
    """Adjacent (and next-but-one) statement pairs of a block."""
    out = []
    n = len(stmts)
    for i in range(n):
        for j in (i + 1, i + 2):
            if j < n:
                kind, diffs = mirror_compare(stmts[i], stmts[j])
                if kind:
                    out.append((kind, stmts[i], stmts[j], diffs))
                elif j == i + 1 and isinstance(stmts[i], (ast.Assign, ast.AugAssign, ast.If)) and type(stmts[i]) is type(stmts[j]):
                    # exact mirrors except for an operator (`x1 = x + 1` / `y1 = y - 1`): reported by the caller
                    kind, diffs = mirror_compare(stmts[i] if not isinstance(stmts[i], ast.If) else stmts[i].test,
                                                 stmts[j] if not isinstance(stmts[j], ast.If) else stmts[j].test, ops=False)
                    if kind == 'mirror':
                        out.append((kind, stmts[i] if not isinstance(stmts[i], ast.If) else stmts[i].test,
                                    stmts[j] if not isinstance(stmts[j], ast.If) else stmts[j].test, diffs))
    return out


def mirror_scan_function(func_node):
    global _LOCAL_TWINS
    _LOCAL_TWINS = _local_twins(func_node)
    try:
        return _mirror_scan_function(func_node)
    finally:
        _LOCAL_TWINS = {}


def _mirror_scan_function(func_node):
    res = []
    for n in ast.walk(func_node):
        for fld in ('body', 'orelse', 'finalbody'):
            blk = getattr(n, fld, None)
            if isinstance(blk, list) and blk and isinstance(blk[0], ast.stmt):
                res.extend(mirror_scan_block(blk))
    # mirrored sub-expressions inside one statement: tuple elements / call args
    for n in ast.walk(func_node):
        if isinstance(n, (ast.Tuple, ast.List)) and len(n.elts) == 2:
            kind, diffs = mirror_compare(n.elts[0], n.elts[1])
            if kind:
                res.append((kind, n.elts[0], n.elts[1], diffs))
            elif asymmetric_pair(n.elts[0], n.elts[1]):
                res.append(('asymmetric', n.elts[0], n.elts[1], []))
        for fld in ('body', 'orelse'):
            blk = getattr(n, fld, None)
            if isinstance(blk, list):
                for a, b in zip(blk, blk[1:]):
                    if isinstance(a, ast.Assign) and isinstance(b, ast.Assign) and len(a.targets) == 1 and len(b.targets) == 1 \
                            and isinstance(a.targets[0], ast.Name) and isinstance(b.targets[0], ast.Name) \
                            and mirror_name(a.targets[0].id) == b.targets[0].id and asymmetric_pair(a.value, b.value):
                        res.append(('asymmetric', a.value, b.value, []))
        if isinstance(n, ast.BoolOp) and isinstance(n.op, ast.Or):
            # x/y twins among the alternatives of one `or`: `xmax <= 0 or ymax <= 0` (a conjunction may legitimately treat
            # the axes differently: quadrant tests)
            for i, a in enumerate(n.values):
                for b in n.values[i + 1:]:
                    if isinstance(a, ast.Compare) and isinstance(b, ast.Compare):
                        kind, diffs = mirror_compare(a, b, ops=False)
                        if kind == 'mirror':
                            res.append((kind, a, b, diffs))
        if isinstance(n, ast.Call):
            kws = [k for k in n.keywords if k.arg]
            for a in kws:
                m = mirror_name(a.arg)
                if m and name_tag(a.arg) == X:
                    for b in kws:
                        if b.arg == m:
                            kind, diffs = mirror_compare(a.value, b.value)
                            if kind:
                                res.append((kind, a.value, b.value, diffs))
    return res


def body_without_doc(func_node):
    b = func_node.body
    if b and isinstance(b[0], ast.Expr) and isinstance(b[0].value, ast.Constant) and isinstance(b[0].value.value, str):
        b = b[1:]
    return b


def mirror_functions(f1, f2):
    """Compare two sibling definitions whose names are x/y mirrors."""
    b1, b2 = body_without_doc(f1), body_without_doc(f2)
    if len(b1) != len(b2):
        return None, None
    m1 = ast.Module(body=b1, type_ignores=[])
    m2 = ast.Module(body=b2, type_ignores=[])
    return mirror_compare(m1, m2, known_mirror=True)
