"""E-LOOP: per-source independence of loop iterations.

LP1  loop-carried container state: a dict/list defined before the loop whose
     key is read in the body before it is (re)written in the same iteration,
     while the body writes that key from a loop-variant value.
LP1b an array defined before the loop (or a view of one) is modified in
     place in the body with a loop-variant value and is not the function's
     declared accumulator.
LP2  first-iteration special case that a skip path can miss.
LP3  parallel result lists receive the same number of appends on every path.
"""
from __future__ import annotations

import ast

from .core import unparse, norm_stmt_text, enclosing_stmt, enclosing_function
from .flow import Flow, _Ctx
from .paths import EventSets


def names_in(node):
    return {n.id for n in ast.walk(node) if isinstance(n, ast.Name)}


def assigned_names(stmts):
    out = set()
    for st in stmts:
        for n in ast.walk(st):
            if isinstance(n, ast.Name) and isinstance(n.ctx, ast.Store):
                out.add(n.id)
            if isinstance(n, ast.NamedExpr) and isinstance(n.target, ast.Name):
                out.add(n.target.id)
    return out


def loops_of(func_node):
    out = []
    for n in ast.walk(func_node):
        if isinstance(n, (ast.For, ast.While)) and enclosing_function(n) is func_node:
            out.append(n)
    return out


def loop_variant(loop):
    v = assigned_names(loop.body)
    if isinstance(loop, ast.For):
        v |= assigned_names([loop.target]) | {n.id for n in ast.walk(loop.target) if isinstance(n, ast.Name)}
    return v


def const_key(node):
    if isinstance(node, ast.Constant) and isinstance(node.value, (str, int)):
        return node.value
    return None


class _KeyFlow(Flow):
    """One iteration of the body: must-written keys of container `c`; reads of
    keys not yet written in this iteration are collected."""

    def __init__(self, c):
        self.c = c
        self.early = []       # (key, node)
        self.writes = []      # (key, value node or None, stmt)

    def copy(self, s):
        return set(s)

    def join(self, a, b):
        return a & b

    def _scan(self, e, s):
        for n in ast.walk(e):
            # c[k] read / c.get(k) / c.pop(k)
            if isinstance(n, ast.Subscript) and isinstance(n.value, ast.Name) and n.value.id == self.c \
                    and isinstance(n.ctx, ast.Load):
                k = const_key(n.slice)
                if k is not None and k not in s:
                    self.early.append((k, n))
            if isinstance(n, ast.Call) and isinstance(n.func, ast.Attribute) and isinstance(n.func.value, ast.Name) \
                    and n.func.value.id == self.c and n.func.attr in ('get', 'pop', 'setdefault') and n.args:
                k = const_key(n.args[0])
                if k is not None and k not in s:
                    self.early.append((k, n))
        return s

    def on_expr(self, e, s, role):
        return self._scan(e, s)

    def on_stmt(self, st, s):
        if isinstance(st, (ast.Assign, ast.AugAssign, ast.AnnAssign)):
            val = st.value
            if val is not None:
                s = self._scan(val, s)
            tg = st.targets if isinstance(st, ast.Assign) else [st.target]
            for t in tg:
                if isinstance(t, ast.Subscript) and isinstance(t.value, ast.Name) and t.value.id == self.c:
                    k = const_key(t.slice)
                    if isinstance(st, ast.AugAssign) and k is not None and k not in s:
                        self.early.append((k, t))
                    if k is not None:
                        self.writes.append((k, val, st))
                        s = set(s) | {k}
            return s
        if isinstance(st, ast.Expr):
            s = self._scan(st.value, s)
            v = st.value
            # c.update({'k': v}) / c.update(k=v)
            if isinstance(v, ast.Call) and isinstance(v.func, ast.Attribute) and isinstance(v.func.value, ast.Name) \
                    and v.func.value.id == self.c and v.func.attr == 'update':
                for a in v.args:
                    if isinstance(a, ast.Dict):
                        for kk, vv in zip(a.keys, a.values):
                            k = const_key(kk)
                            if k is not None:
                                self.writes.append((k, vv, st))
                                s = set(s) | {k}
                for kw in v.keywords:
                    if kw.arg:
                        self.writes.append((kw.arg, kw.value, st))
                        s = set(s) | {kw.arg}
            return s
        for c in ast.iter_child_nodes(st):
            if isinstance(c, ast.expr):
                s = self._scan(c, s)
        return s


def lp1_containers(func_node, loop):
    """Names of containers defined outside `loop` and key-stored in its body."""
    inner = assigned_names(loop.body)
    out = set()
    for n in ast.walk(loop):
        if isinstance(n, ast.Subscript) and isinstance(n.ctx, ast.Store) and isinstance(n.value, ast.Name) \
                and const_key(n.slice) is not None and n.value.id not in inner:
            out.add(n.value.id)
        if isinstance(n, ast.Call) and isinstance(n.func, ast.Attribute) and n.func.attr in ('update', 'pop') \
                and isinstance(n.func.value, ast.Name) and n.func.value.id not in inner:
            out.add(n.func.value.id)
    return out


def check_lp1(func_node, loop):
    """[(container, key, read node, write stmt)] carried dependencies."""
    res = []
    variant = loop_variant(loop)
    for c in sorted(lp1_containers(func_node, loop)):
        kf = _KeyFlow(c)
        kf.returns, kf.raises = [], []
        kf.block(loop.body, set(), _Ctx())
        variant_keys = {}
        for k, val, st in kf.writes:
            if val is not None and (names_in(val) & variant):
                variant_keys.setdefault(k, st)
        # pop(k) followed by a conditional re-store is also a write of k
        for k, node in kf.early:
            if k in variant_keys:
                res.append((c, k, node, variant_keys[k]))
    return res


# ---- LP1b ---------------------------------------------------------------------

def outer_defs(func_node, loop):
    """Names bound before the loop (parameters included) and not rebound in its body."""
    inner = assigned_names(loop.body) | ({n.id for n in ast.walk(loop.target) if isinstance(n, ast.Name)}
                                         if isinstance(loop, ast.For) else set())
    outer = set()
    a = func_node.args
    for arg in a.posonlyargs + a.args + a.kwonlyargs:
        outer.add(arg.arg)
    for n in ast.walk(func_node):
        if isinstance(n, ast.Name) and isinstance(n.ctx, ast.Store) and n.lineno < loop.lineno:
            outer.add(n.id)
    return outer - inner, inner


VIEW_FUNCS = {'asarray', 'asanyarray', 'atleast_1d', 'atleast_2d', 'reshape', 'ravel', 'transpose', 'squeeze'}


def view_source(expr, outer):
    """Name of the outer array `expr` is a view of, or None."""
    e = expr
    while True:
        if isinstance(e, ast.Name):
            return e.id if e.id in outer else None
        if isinstance(e, ast.Subscript):
            # boolean / fancy indexing copies
            sl = e.slice
            if isinstance(sl, (ast.Compare, ast.List)) or (isinstance(sl, ast.UnaryOp) and isinstance(sl.op, ast.Invert)):
                return None
            if isinstance(sl, ast.Name) and 'mask' in sl.id.lower():
                return None
            e = e.value
            continue
        if isinstance(e, ast.Attribute) and e.attr in ('T', 'data', 'mask', 'value', 'real'):
            e = e.value
            continue
        if isinstance(e, ast.Call) and unparse(e.func, 0).split('.')[-1] in VIEW_FUNCS and e.args:
            e = e.args[0]
            continue
        return None


def check_lp1b(func_node, loop, accumulators):
    """In-place modification, inside the loop, of an array defined before it
    (or of a view of one) with a loop-variant value."""
    outer, inner = outer_defs(func_node, loop)
    variant = loop_variant(loop)
    views = {}     # inner name -> outer source
    out = []
    for st in ast.walk(loop):
        if isinstance(st, ast.Assign) and len(st.targets) == 1 and isinstance(st.targets[0], ast.Name):
            src = view_source(st.value, outer | set(views))
            if src is not None:
                views[st.targets[0].id] = views.get(src, src)
    for st in ast.walk(loop):
        tgt = None
        val = None
        if isinstance(st, ast.AugAssign) and not isinstance(st.op, ast.LShift):
            tgt, val = st.target, st.value
            if isinstance(val, ast.JoinedStr) or (isinstance(val, ast.Constant) and isinstance(val.value, str)):
                continue      # string concatenation rebinds the name
        elif isinstance(st, ast.Assign) and len(st.targets) == 1 and isinstance(st.targets[0], ast.Subscript):
            tgt, val = st.targets[0], st.value
        if tgt is None:
            continue
        base = tgt
        while isinstance(base, (ast.Subscript, ast.Attribute)):
            if isinstance(base, ast.Attribute) and isinstance(base.value, ast.Name) and base.value.id == 'self':
                base = None
                break
            base = base.value
        if not isinstance(base, ast.Name):
            continue
        root = views.get(base.id, base.id if base.id in outer else None)
        if root is None or root in accumulators:
            continue
        if _is_builder(func_node, root, loop):
            continue      # a dict/list created empty before the loop and filled by it
        if isinstance(tgt, ast.Name) and tgt.id not in views:
            # plain `name op= v` on an outer name: scalar accumulation (count += 1)
            continue
        # root[<loop variable>]... = v : each iteration owns its own slot
        first = tgt
        while isinstance(first, (ast.Subscript, ast.Attribute)) and not (
                isinstance(first, ast.Subscript) and isinstance(first.value, ast.Name)):
            first = first.value
        if isinstance(loop, ast.For) and isinstance(first, ast.Subscript) and isinstance(first.value, ast.Name) \
                and first.value.id == base.id and base.id not in views:
            tnames = {n.id for n in ast.walk(loop.target) if isinstance(n, ast.Name)}
            if isinstance(first.slice, ast.Name) and first.slice.id in tnames:
                continue
        index_variant = any((names_in(x) & variant) for x in ast.walk(tgt) if isinstance(x, ast.Subscript) for x in [x.slice])
        if (names_in(val) & variant) or index_variant:
            out.append((root, st))
    return out


def _is_builder(func_node, name, loop):
    for n in ast.walk(func_node):
        if isinstance(n, ast.Assign) and n.lineno < loop.lineno and any(
                isinstance(t, ast.Name) and t.id == name for t in n.targets):
            v = n.value
            if isinstance(v, (ast.Dict, ast.List, ast.Set)):
                return True
            if isinstance(v, ast.Call) and unparse(v.func, 0).split('.')[-1] in (
                    'dict', 'list', 'defaultdict', 'OrderedDict', 'set'):
                return True
    return False


def function_accumulators(func_node):
    """Names that are (part of) what the function returns, or that are
    consumed after the loops as results."""
    acc = set()
    for n in ast.walk(func_node):
        if isinstance(n, ast.Return) and n.value is not None:
            acc |= names_in(n.value)
    return acc


# ---- LP2 ----------------------------------------------------------------------------

def check_lp2(func_node, loop):
    """`if <enumerate index> == 0:` inside a body that can skip it for row 0."""
    out = []
    if not (isinstance(loop, ast.For) and isinstance(loop.iter, ast.Call)
            and unparse(loop.iter.func, 0) == 'enumerate' and isinstance(loop.target, ast.Tuple)
            and isinstance(loop.target.elts[0], ast.Name)):
        return out, 0
    idx = loop.target.elts[0].id
    n_sites = 0
    for n in ast.walk(loop):
        if isinstance(n, (ast.If, ast.IfExp)):
            hit = False
            for c in ast.walk(n.test):
                if isinstance(c, ast.Compare) and len(c.ops) == 1 and isinstance(c.ops[0], ast.Eq):
                    sides = [c.left, c.comparators[0]]
                    if any(isinstance(x, ast.Name) and x.id == idx for x in sides) and \
                            any(isinstance(x, ast.Constant) and x.value == 0 and not isinstance(x.value, bool) for x in sides):
                        hit = True
            if not hit:
                continue
            n_sites += 1
            # skip paths: an enclosing try whose handler continues/passes, or an earlier continue
            skip = None
            child = n
            p = getattr(n, '_parent', None)
            while p is not None and p is not loop:
                if isinstance(p, ast.Try) and any(child is b or _contains(b, child) for b in p.body):
                    for h in p.handlers:
                        if any(isinstance(x, (ast.Continue, ast.Pass)) for x in ast.walk(h)) or \
                                not any(isinstance(x, ast.Raise) for x in ast.walk(h)):
                            # some statement before the guarded one can raise into it
                            before = [b for b in p.body if b.lineno < n.lineno]
                            if any(isinstance(x, ast.Call) for b in before for x in ast.walk(b)):
                                skip = f'exception handler at line {h.lineno} skips the rest of the iteration'
                child = p
                p = getattr(p, '_parent', None)
            for st in loop.body:
                if st.lineno >= n.lineno:
                    break
                if any(isinstance(x, ast.Continue) for x in ast.walk(st)):
                    skip = skip or f'`continue` at line {st.lineno} precedes it'
            if skip:
                out.append((n, skip))
    return out, n_sites


def _contains(a, b):
    return any(x is b for x in ast.walk(a))


# ---- LP3 ----------------------------------------------------------------------------------

def check_lp3(func_node, loop, lists):
    """Every path through one iteration appends to all of `lists` equally often (0/1 counted)."""
    def classify(node):
        ev = []
        for c in ast.walk(node) if not isinstance(node, ast.stmt) or isinstance(node, (ast.Expr, ast.Assign)) else []:
            if isinstance(c, ast.Call) and isinstance(c.func, ast.Attribute) and c.func.attr == 'append' \
                    and isinstance(c.func.value, ast.Name) and c.func.value.id in lists:
                ev.append(c.func.value.id)
        return ev
    es = EventSets(classify)
    es.returns, es.raises = [], []
    ctx = _Ctx()
    from .flow import _Loop
    lp = _Loop()
    ctx.loops.append(lp)
    out = es.block(loop.body, {frozenset()}, ctx)
    sets = set(out or set()) | set(lp.continues or set())
    bad = [s for s in sets if s and s != frozenset(lists)]
    return bad, sets


# ---- LP1c: stale loop locals ---------------------------------------------------------

class _AssignedFlow(Flow):
    """One iteration: locals surely assigned so far; uses of loop-only locals that are not surely assigned."""

    def __init__(self, loop_only):
        self.loop_only = loop_only
        self.stale = []

    def copy(self, s):
        return set(s)

    def join(self, a, b):
        return a & b

    def _uses(self, e, s):
        for n in ast.walk(e):
            if isinstance(n, ast.Name) and isinstance(n.ctx, ast.Load) and n.id in self.loop_only and n.id not in s:
                self.stale.append(n)
            if isinstance(n, ast.NamedExpr) and isinstance(n.target, ast.Name):
                s.add(n.target.id)
        return s

    def on_expr(self, e, s, role):
        return self._uses(e, s)

    def on_stmt(self, st, s):
        if isinstance(st, (ast.Assign, ast.AnnAssign)):
            if st.value is not None:
                s = self._uses(st.value, s)
            tg = st.targets if isinstance(st, ast.Assign) else [st.target]
            s = set(s)
            for t in tg:
                for n in ast.walk(t):
                    if isinstance(n, ast.Name) and isinstance(n.ctx, ast.Store):
                        s.add(n.id)
                    elif isinstance(n, ast.Name):
                        self._uses(n, s)
            return s
        if isinstance(st, ast.AugAssign):
            s = self._uses(st.value, s)
            if isinstance(st.target, ast.Name):
                if st.target.id in self.loop_only and st.target.id not in s:
                    self.stale.append(st.target)
                s = set(s) | {st.target.id}
            else:
                s = self._uses(st.target, s)
            return s
        for c in ast.iter_child_nodes(st):
            if isinstance(c, ast.expr):
                s = self._uses(c, s)
        if isinstance(st, (ast.Import, ast.ImportFrom)):
            s = set(s) | {a.asname or a.name.split('.')[0] for a in st.names}
        return s

    def on_for_target(self, node, s):
        s = set(s)
        for n in ast.walk(node.target):
            if isinstance(n, ast.Name):
                s.add(n.id)
        return s

    def on_with_item(self, item, s):
        if item.optional_vars is not None:
            s = set(s)
            for n in ast.walk(item.optional_vars):
                if isinstance(n, ast.Name):
                    s.add(n.id)
        return s

    def on_except(self, handler, s):
        if handler.name:
            s = set(s) | {handler.name}
        return s


def check_lp1c(func_node, loop):
    """Locals that are assigned only inside the loop and used on a path of the same iteration on which
    they were not assigned: the value of the previous iteration (another source) is used."""
    inner = assigned_names(loop.body)
    # names bound by comprehensions live in their own scope
    comp = set()
    for n in ast.walk(loop):
        if isinstance(n, ast.comprehension):
            comp |= {x.id for x in ast.walk(n.target) if isinstance(x, ast.Name)}
    inner -= comp
    # `(v := f(k))` in the filter of a comprehension and v used in its element: bound and used within one pass of that
    # comprehension (the element is evaluated only after the filter passed), never carried between loop iterations
    for n in ast.walk(loop):
        if isinstance(n, (ast.ListComp, ast.SetComp, ast.DictComp, ast.GeneratorExp)):
            wal = {x.target.id for g in n.generators for i_ in g.ifs for x in ast.walk(i_)
                   if isinstance(x, ast.NamedExpr) and isinstance(x.target, ast.Name)}
            for v in wal:
                stores = [x for x in ast.walk(loop) if isinstance(x, ast.Name) and x.id == v and isinstance(x.ctx, ast.Store)]
                uses = [x for x in ast.walk(loop) if isinstance(x, ast.Name) and x.id == v and isinstance(x.ctx, ast.Load)]
                inside = {id(x) for x in ast.walk(n)}
                if all(id(x) in inside for x in stores + uses):
                    inner.discard(v)
    before = set()
    a = func_node.args
    for arg in a.posonlyargs + a.args + a.kwonlyargs:
        before.add(arg.arg)
    if a.vararg:
        before.add(a.vararg.arg)
    if a.kwarg:
        before.add(a.kwarg.arg)
    for n in ast.walk(func_node):
        if isinstance(n, ast.Name) and isinstance(n.ctx, ast.Store) and n.lineno < loop.lineno:
            before.add(n.id)
        if isinstance(n, (ast.FunctionDef, ast.ClassDef)) and n is not func_node:
            before.add(n.name)
    loop_only = inner - before
    swallowed = _swallowed_try_names(loop, loop_only)
    if not loop_only:
        return swallowed
    fl = _AssignedFlow(loop_only)
    fl.returns, fl.raises = [], []
    ctx = _Ctx()
    from .flow import _Loop
    ctx.loops.append(_Loop())
    start = set()
    if isinstance(loop, ast.For):
        start = fl.on_for_target(loop, set())
    fl.block(loop.body, start, ctx)
    out = []
    for n in fl.stale:
        # `if i == 0: v = first else: v += more` : first-iteration initialisation idiom
        st = enclosing_stmt(n)
        p = getattr(st, '_parent', None)
        if isinstance(st, ast.AugAssign) and isinstance(p, ast.If) and any(b is st for b in p.orelse) \
                and isinstance(p.test, ast.Compare) and any(isinstance(x, ast.Constant) and x.value == 0
                                                            for x in [p.test.left] + p.test.comparators):
            continue
        out.append(n)
    return out + swallowed


_TERMINATORS = (ast.Continue, ast.Break, ast.Return, ast.Raise)


def _swallowed_try_names(loop, loop_only):
    """`try: v = per_source(...)  except E: pass` followed by a use of v: also with a pre-loop default
    the value after a swallowed exception is that of the previous iteration."""
    out = []
    for tr in ast.walk(loop):
        if not isinstance(tr, ast.Try):
            continue
        blk = None
        par = getattr(tr, '_parent', None)
        for fld in ('body', 'orelse', 'finalbody'):
            b = getattr(par, fld, None)
            if isinstance(b, list) and any(x is tr for x in b):
                blk = b
        if blk is None:
            continue
        assigned = {}
        for st in tr.body:
            if isinstance(st, ast.Assign) and len(st.targets) == 1:
                t = st.targets[0]
                names = [t] if isinstance(t, ast.Name) else ([e for e in t.elts if isinstance(e, ast.Name)]
                                                            if isinstance(t, (ast.Tuple, ast.List)) else [])
                reads = {n.id for n in ast.walk(st.value) if isinstance(n, ast.Name)}
                for nm in names:
                    if nm.id not in reads and nm.id not in loop_only:
                        assigned[nm.id] = st
        if not assigned:
            continue
        for h in tr.handlers:
            if h.body and isinstance(h.body[-1], _TERMINATORS):
                continue
            h_assigned = assigned_names(h.body)
            for nm in assigned:
                if nm in h_assigned:
                    continue
                after = blk[[i for i, x in enumerate(blk) if x is tr][0] + 1:]
                for st in after:
                    use = next((n for n in ast.walk(st) if isinstance(n, ast.Name) and n.id == nm
                                and isinstance(n.ctx, ast.Load)), None)
                    if use is not None:
                        out.append(use)
                        break
                    if nm in assigned_names([st]):
                        break
    return out
