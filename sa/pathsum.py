"""Path summaries of small loop-free functions, compared by truth table.

`summarise(fn)` interprets a function body for every truth assignment of the atoms occurring in its `if` tests (locals
substituted by their defining expressions first) and returns {assignment: outcome}, where an outcome is the tuple of
side-effect statements seen on the path (normal forms) plus `return <normal form of the value, locals inlined>` or
`raise <exception name>`.  Two functions are equivalent when they have the same atoms and the same outcome for every
assignment.  This is insensitive to early returns vs. if/else, to temporaries, to conditional expressions vs. statements and
to the order and polarity in which the same conditions are tested; it is sensitive to any change of a condition, a value
or an effect.  Inconsistent assignments (x == 1 and x == 2 both true) are evaluated like any other; both sides see the same
ones, so they only matter when the two sides test related atoms in a different order (then the comparison is conservative:
it may report a difference, never hide one).
"""
from __future__ import annotations

import ast
import itertools

from .expr import nf, clone, subst
from . import guards as G


class TooComplex(Exception):
    pass


def _sub(e, env):
    if not env:
        return e
    return subst(clone(e), env, depth=6)


def _atoms_of_formula(f, out):
    if f[0] == 'atom':
        out.add(f[1])
    elif f[0] == 'not':
        _atoms_of_formula(f[1], out)
    elif f[0] in ('and', 'or'):
        for g in f[1]:
            _atoms_of_formula(g, out)


def _formula(test, env):
    """Formula over normal-form atoms for a test expression with locals substituted."""
    t = _sub(test, env)
    f = G.atom_of(t)

    def renf(f_):
        if f_[0] == 'atom':
            try:
                e = ast.parse(f_[1], mode='eval').body
                return ('atom', nf(e))
            except SyntaxError:
                return f_
        if f_[0] == 'not':
            return ('not', renf(f_[1]))
        if f_[0] in ('and', 'or'):
            return (f_[0], [renf(g) for g in f_[1]])
        return f_
    return renf(f)


def collect_atoms(fn):
    """All atoms of all tests (conservatively: with the local definitions visible at the end of straight-line prefixes)."""
    atoms = set()
    env = {}

    def walk(stmts, env):
        env = dict(env)
        for st in stmts:
            if isinstance(st, ast.Assign) and len(st.targets) == 1 and isinstance(st.targets[0], ast.Name):
                env[st.targets[0].id] = _sub(st.value, env)
            elif isinstance(st, ast.If):
                _atoms_of_formula(_formula(st.test, env), atoms)
                walk(st.body, env)
                walk(st.orelse, env)
            elif isinstance(st, ast.Try):
                walk(st.body, env)
                for h in st.handlers:
                    walk(h.body, env)
                walk(st.orelse, env)
                walk(st.finalbody, env)
            for sub_ in ast.walk(st) if not isinstance(st, (ast.If, ast.Try)) else []:
                if isinstance(sub_, ast.IfExp):
                    _atoms_of_formula(_formula(sub_.test, env), atoms)
    walk(_body(fn), env)
    return atoms


def _body(fn):
    b = fn.body
    if b and isinstance(b[0], ast.Expr) and isinstance(b[0].value, ast.Constant) and isinstance(b[0].value.value, str):
        b = b[1:]
    return b


def _resolve_ifexp(e, env, assign):
    """Replace conditional expressions by the branch the assignment selects."""
    class T(ast.NodeTransformer):
        def visit_IfExp(self, node):
            f = _formula(node.test, {})
            try:
                v = G.evaluate(f, assign)
            except KeyError:
                raise TooComplex('atom of a conditional expression not enumerated')
            return self.visit(node.body if v else node.orelse)
    return T().visit(clone(e))


def run_path(fn, assign):
    effects = []

    def ev(e, env):
        return nf(_resolve_ifexp(_sub(e, env), env, assign))

    def block(stmts, env):
        for st in stmts:
            if isinstance(st, ast.Pass):
                continue
            if isinstance(st, ast.Expr) and isinstance(st.value, ast.Constant):
                continue
            if isinstance(st, ast.Assign) and len(st.targets) == 1 and isinstance(st.targets[0], ast.Name):
                env[st.targets[0].id] = _resolve_ifexp(_sub(st.value, env), env, assign)
                continue
            if isinstance(st, ast.If):
                f = _formula(st.test, env)
                try:
                    v = G.evaluate(f, assign)
                except KeyError:
                    raise TooComplex('atom not enumerated')
                r = block(st.body if v else st.orelse, env)
                if r is not None:
                    return r
                continue
            if isinstance(st, ast.Return):
                return 'return ' + (ev(st.value, env) if st.value is not None else 'None')
            if isinstance(st, ast.Raise):
                exc = st.exc
                name = ast.unparse(exc.func) if isinstance(exc, ast.Call) else (ast.unparse(exc) if exc is not None else 're-raise')
                return 'raise ' + name
            if isinstance(st, ast.Try):
                # the protected body decides the path; each handler is recorded by the outcome of "handler body, then the
                # statements after the try" (an alternative ending of the same path)
                rest = stmts[stmts.index(st) + 1:]
                hs = []
                for h in st.handlers:
                    saved = list(effects)
                    hr = block(list(h.body) + list(rest), dict(env))
                    extra = effects[len(saved):]
                    del effects[len(saved):]
                    hs.append((ast.unparse(h.type) if h.type is not None else '*') + ' -> ' + '; '.join(extra + [str(hr if hr is not None else 'return None')]))
                if hs:
                    effects.append('handlers: ' + ' | '.join(hs))
                r = block(st.body, env)
                if r is not None:
                    return r
                continue
            if isinstance(st, (ast.For, ast.While, ast.With)):
                raise TooComplex(type(st).__name__)
            if isinstance(st, (ast.Expr, ast.AugAssign, ast.Assign, ast.AnnAssign, ast.Delete)):
                # an effect (call, attribute/subscript store): recorded with locals substituted
                effects.append(ast.unparse(_sub_stmt(st, env)))
                if isinstance(st, ast.AugAssign) and isinstance(st.target, ast.Name) and st.target.id in env:
                    env[st.target.id] = ast.BinOp(left=env[st.target.id], op=st.op, right=_sub(st.value, env))
                    effects.pop()
                continue
            raise TooComplex(type(st).__name__)
        return None
    r = block(_body(fn), {})
    return (tuple(effects), r if r is not None else 'return None')


def _sub_stmt(st, env):
    from .spec import nf_stmt
    s2 = clone(st)
    for fld, val in ast.iter_fields(s2):
        if isinstance(val, ast.expr) and fld != 'target' and fld != 'targets':
            setattr(s2, fld, _sub(val, env))
    try:
        return ast.parse(nf_stmt(s2).replace(' Add= ', ' += ')).body[0] if False else s2
    except Exception:
        return s2


def summarise(fn, atoms=None, limit=10):
    atoms = sorted(atoms if atoms is not None else collect_atoms(fn))
    if len(atoms) > limit:
        raise TooComplex(f'{len(atoms)} atoms')
    out = {}
    for vals in itertools.product((False, True), repeat=len(atoms)):
        assign = dict(zip(atoms, vals))
        eff, r = run_path(fn, assign)
        out[vals] = (tuple(_nf_effect(e) for e in eff), r)
    return atoms, out


def _nf_effect(text):
    from .spec import nf_stmt
    try:
        return nf_stmt(ast.parse(text).body[0])
    except Exception:
        return text


def compare(fn, ref_fn):
    """None when equivalent, else a description of the first difference."""
    a1, a2 = collect_atoms(fn), collect_atoms(ref_fn)
    atoms = a1 | a2
    at, s1 = summarise(fn, atoms)
    _, s2 = summarise(ref_fn, atoms)
    for k in s1:
        if s1[k] != s2[k]:
            cond = ', '.join(f'{"" if v else "not "}{a}' for a, v in zip(at, k))
            return f'when [{cond}]: the code gives {s1[k]} but the definition gives {s2[k]}'
    return None


def parse_ref(src):
    node = ast.parse(src).body[0]
    from .core import set_parents
    set_parents(node)
    return node
