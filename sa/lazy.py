"""E-LAZY: lazyproperty cache coherence (rules L1, L2) as a three-valued
dataflow over every public mutator of a class, with self-method calls and
property setters inlined.

Per lazyproperty the abstract state is
    A  absent   - surely not cached
    F  fresh    - possibly cached, and if so consistent with the current fields
    S  stale    - possibly cached with a value computed from superseded state
Join order: S > F > A.  At method entry every lazy is F (any history).
Events: write(field) makes every F dependent S; reset/pop makes A; a read of
an A lazy computes it now (-> F, together with the lazies its getter reads).
A lazy that is S at a normal exit is an L1 finding.
"""
from __future__ import annotations

import ast

from .core import ClassInfo, FunctionInfo, dotted, unparse, norm_stmt_text, enclosing_stmt
from .flow import Flow
from .alias import MUTATING_METHODS

A, F, S = 0, 1, 2


def is_self(node):
    return isinstance(node, ast.Name) and node.id == 'self'


def self_attr(node):
    """'a' for `self.a`, else None."""
    if isinstance(node, ast.Attribute) and is_self(node.value):
        return node.attr
    return None


def self_dict_key(node):
    """'k' for `self.__dict__['k']`, else None."""
    if isinstance(node, ast.Subscript) and isinstance(node.value, ast.Attribute) \
            and node.value.attr == '__dict__' and is_self(node.value.value) \
            and isinstance(node.slice, ast.Constant) and isinstance(node.slice.value, str):
        return node.slice.value
    return None


class LazyClass:
    """Lazy-dependency model of one class (incl. inherited members)."""

    def __init__(self, repo, cls):
        self.repo = repo
        self.cls = cls
        self.members = cls.all_methods()          # name -> FunctionInfo (getter for properties)
        self.lazies = {n: f for n, f in self.members.items() if f.is_lazy}
        self.props = {n: f for n, f in self.members.items() if f.is_property and not f.is_lazy}
        self.setters = {}
        for c in cls.mro:
            if isinstance(c, ClassInfo):
                for n, fs in c.methods.items():
                    for f in fs:
                        if f.is_setter and n not in self.setters:
                            self.setters[n] = f
        self._direct = {}
        self._deps = {}
        self._lazyreads = {}
        self._pm = {}
        self.skipped_mutator_calls = set()
        self.reset_all_methods = self._find_reset_methods()

    # -- which methods drop every cache -------------------------------------
    def _find_reset_methods(self):
        """Methods of the form `for key in self._lazyproperties: self.__dict__.pop(key, None)`
        where `_lazyproperties` enumerates the class's lazyproperty members via inspect."""
        out = set()
        for n, f in self.members.items():
            for node in ast.walk(f.node):
                inlined = False
                if isinstance(node, ast.For) and isinstance(node.iter, ast.Name):
                    # the enumeration inlined into the reset method: names = [... inspect.getmembers(cls, predicate=<lazyproperty test>)]
                    inlined = any(isinstance(a_, ast.Assign) and len(a_.targets) == 1 and isinstance(a_.targets[0], ast.Name)
                                  and a_.targets[0].id == node.iter.id and 'getmembers' in unparse(a_.value, 0)
                                  for a_ in ast.walk(f.node)) and self._enumerates_lazies(f)
                elif isinstance(node, ast.For) and not isinstance(node.iter, ast.Attribute) and 'getmembers' in unparse(node.iter, 0):
                    inlined = self._enumerates_lazies(f)
                if isinstance(node, ast.For) and (self_attr(node.iter) is not None or inlined):
                    if not inlined:
                        src = self.members.get(self_attr(node.iter))
                        if src is None or not self._enumerates_lazies(src):
                            continue
                    tgt = node.target.id if isinstance(node.target, ast.Name) else None
                    for b in ast.walk(node):
                        if isinstance(b, ast.Call) and isinstance(b.func, ast.Attribute) \
                                and b.func.attr == 'pop' and isinstance(b.func.value, ast.Attribute) \
                                and b.func.value.attr == '__dict__' and is_self(b.func.value.value) \
                                and b.args and isinstance(b.args[0], ast.Name) and b.args[0].id == tgt:
                            # must not be guarded by a condition inside the loop
                            guarded = False
                            p = enclosing_stmt(b)
                            while p is not node:
                                p = getattr(p, '_parent', None)
                                if isinstance(p, (ast.If, ast.Try)):
                                    guarded = True
                                    break
                                if p is None:
                                    break
                            if not guarded and f.node.body and self._unconditional(f.node, node):
                                out.add(n)
        return out

    def _unconditional(self, func, stmt):
        return any(s is stmt for s in func.body)

    def _enumerates_lazies(self, f):
        """`inspect.getmembers(self.__class__, predicate=<isinstance(obj, lazyproperty)>)`."""
        src = ast.unparse(f.node)
        return 'getmembers' in src and 'lazyproperty' in src and '__class__' in src

    # -- dependencies ------------------------------------------------------------
    def direct(self, f):
        """(fields read, members read/called, lazies read) directly in f."""
        k = id(f)
        if k in self._direct:
            return self._direct[k]
        fields, calls = set(), set()
        for n in ast.walk(f.node):
            a = self_attr(n)
            if a is not None and isinstance(n.ctx, ast.Load):
                if a in self.members:
                    calls.add(a)
                else:
                    fields.add(a)
            k2 = self_dict_key(n)
            if k2 is not None and isinstance(n.ctx, ast.Load):
                fields.add(k2)
            # getattr(self, 'name')
            if isinstance(n, ast.Call) and isinstance(n.func, ast.Name) and n.func.id == 'getattr' \
                    and len(n.args) >= 2 and is_self(n.args[0]):
                if isinstance(n.args[1], ast.Constant) and isinstance(n.args[1].value, str):
                    nm = n.args[1].value
                    (calls if nm in self.members else fields).add(nm)
                else:
                    calls.add('*')
        self._direct[k] = (fields, calls)
        return self._direct[k]

    def deps(self, name, _stack=()):
        """Fields (and pseudo-fields = other lazies' cache slots) that member
        `name`'s value depends on, transitively."""
        if name in self._deps:
            return self._deps[name]
        if name in _stack:
            return set()
        f = self.members.get(name)
        if f is None:
            return set()
        fields, calls = self.direct(f)
        out = set(fields)
        for c in calls:
            if c == '*':
                continue
            if c in self.lazies:
                out.add('@' + c)       # depends on the cached value of lazy c
            if self.is_public_mutator(c):
                # a getter that calls a public mutator (e.g. fluxfrac_radius ->
                # add_extra_property under `name is not None`) does not read
                # the mutator's bookkeeping fields for its value
                self.skipped_mutator_calls.add((name, c))
                continue
            out |= self.deps(c, _stack + (name,))
        if not _stack:
            self._deps[name] = out
        return out

    def is_public_mutator(self, name):
        f = self.members.get(name)
        if f is None or f.is_property or name.startswith('_'):
            return False
        if name not in self._pm:
            w = False
            for n in ast.walk(f.node):
                if isinstance(n, (ast.Assign, ast.AugAssign)):
                    tg = n.targets if isinstance(n, ast.Assign) else [n.target]
                    for t in tg:
                        if self_attr(t) is not None or self_dict_key(t) is not None:
                            w = True
                elif isinstance(n, ast.Call) and isinstance(n.func, ast.Attribute) \
                        and n.func.attr in MUTATING_METHODS and self_attr(n.func.value) is not None:
                    w = True
            self._pm[name] = w
        return self._pm[name]

    def lazyreads(self, name, _stack=()):
        """Lazies that become cached when member `name` is evaluated."""
        if name in self._lazyreads:
            return self._lazyreads[name]
        if name in _stack:
            return set()
        f = self.members.get(name)
        if f is None:
            return set()
        _, calls = self.direct(f)
        out = set()
        for c in calls:
            if c in self.lazies:
                out.add(c)
            if c != '*':
                out |= self.lazyreads(c, _stack + (name,))
        if not _stack:
            self._lazyreads[name] = out
        return out

    def dependents(self, field):
        """Lazies whose value depends on `field` ('@x' = cache slot of lazy x)."""
        return {L for L in self.lazies if field in self.deps(L)}


class Event:
    __slots__ = ('kind', 'name', 'node', 'finfo')

    def __init__(self, kind, name, node, finfo):
        self.kind, self.name, self.node, self.finfo = kind, name, node, finfo


class StaleFlow(Flow):
    """Runs one entry method of a LazyClass."""

    def __init__(self, lc, entry, allowed_seeds=(), max_depth=6):
        self.lc = lc
        self.entry = entry
        self.allowed_seeds = set(allowed_seeds)   # {(method qualname, key)}
        self.seeded_ok = set()
        self.max_depth = max_depth
        self.stale_cause = {}      # lazy -> (field, node, finfo) that made it stale
        self.events = []           # log of (kind, name, loc)
        self.cache_tests = []      # (key, node, finfo)  `'k' in self.__dict__`
        self.bad_seeds = []        # (key, node, finfo)
        self.cur = entry
        self.depth = 0
        self.exit_states = []

    # state: dict lazy -> A/F/S
    def copy(self, s):
        return dict(s)

    def join(self, a, b):
        return {k: max(a.get(k, F), b.get(k, F)) for k in set(a) | set(b)}

    def initial(self):
        return {L: F for L in self.lc.lazies}

    # ---- events ----------------------------------------------------------------
    def ev_write(self, field, node, s):
        for L in self.lc.dependents(field):
            # an allowed seed of this method states the value the getter computes from the method's FINAL state: the
            # order of the seed and of the other state writes inside the method does not matter
            if (self.cur.qualname, L) in self.seeded_ok:
                continue
            if s.get(L, F) == F:
                s[L] = S
                self.stale_cause.setdefault(L, (field, node, self.cur))
        self.events.append(('write', field, getattr(node, 'lineno', 0)))

    def ev_reset_all(self, s):
        for L in s:
            s[L] = A
        self.events.append(('reset_all', '*', 0))

    def ev_pop(self, key, s):
        if key in s:
            s[key] = A

    def ev_read(self, name, s):
        if name in self.lc.lazies:
            if s.get(name, F) == A:
                s[name] = F
                for L2 in self.lc.lazyreads(name):
                    if s.get(L2, F) == A:
                        s[L2] = F
        elif name in self.lc.members:
            for L2 in self.lc.lazyreads(name):
                if s.get(L2, F) == A:
                    s[L2] = F

    def ev_seed(self, key, node, s):
        s[key] = F
        if (self.cur.qualname, key) in self.allowed_seeds or \
                (self.cur.name, key) in self.allowed_seeds:
            self.seeded_ok.add((self.cur.qualname, key))
            return
        # a seed whose value is not what the getter computes is a state change
        self.bad_seeds.append((key, node, self.cur))
        self.ev_write('@' + key, node, s)

    # ---- expression scan: reads, mutating calls, inlined self calls ---------------
    def scan(self, expr, s):
        """Process an expression's events in evaluation order (approximate:
        post-order)."""
        if expr is None:
            return s
        for n in self._postorder(expr):
            s = self.visit_node(n, s)
        return s

    def _postorder(self, e):
        out = []

        def rec(n):
            if isinstance(n, (ast.Lambda, ast.FunctionDef, ast.ClassDef)):
                return
            for c in ast.iter_child_nodes(n):
                rec(c)
            out.append(n)
        rec(e)
        return out

    def visit_node(self, n, s):
        a = self_attr(n)
        if a is not None and isinstance(n.ctx, ast.Load):
            par = getattr(n, '_parent', None)
            # method call self.m(...): handled at the Call node
            if isinstance(par, ast.Call) and par.func is n:
                return s
            if a in self.lc.lazies or a in self.lc.props:
                self.ev_read(a, s)
                if a in self.lc.props:
                    s = self.inline(self.lc.props[a], s)
            return s
        if isinstance(n, ast.Call):
            return self.visit_call(n, s)
        if isinstance(n, ast.Compare) and len(n.ops) == 1 and isinstance(n.ops[0], (ast.In, ast.NotIn)):
            c = n.comparators[0]
            if isinstance(c, ast.Attribute) and c.attr == '__dict__' and is_self(c.value) \
                    and isinstance(n.left, ast.Constant):
                self.cache_tests.append((n.left.value, n, self.cur))
        return s

    def _literal_iter(self, it):
        """A literal tuple/list, also when it is held in a class attribute (`for key in self._names:`)."""
        if isinstance(it, ast.Attribute) and is_self(it.value):
            hit = self.lc.cls.lookup_attr(it.attr)
            if hit is not None and isinstance(hit[1], (ast.Tuple, ast.List)):
                return hit[1]
        return it

    def runs_at_least_once(self, st):
        it = self._literal_iter(getattr(st, 'iter', None))
        return isinstance(it, (ast.Tuple, ast.List)) and len(it.elts) > 0 \
            and not any(isinstance(e, ast.Starred) for e in it.elts)

    def visit_call(self, n, s):
        f = n.func
        if isinstance(f, ast.Attribute):
            # self.__dict__.pop('k', ...)
            if f.attr == 'pop' and isinstance(f.value, ast.Attribute) and f.value.attr == '__dict__' \
                    and is_self(f.value.value) and n.args and isinstance(n.args[0], ast.Constant):
                self.ev_pop(n.args[0].value, s)
                return s
            if f.attr == 'pop' and isinstance(f.value, ast.Attribute) and f.value.attr == '__dict__' \
                    and is_self(f.value.value) and n.args and isinstance(n.args[0], ast.Name):
                # for key in ('a', 'b', ...): self.__dict__.pop(key, None)
                st = enclosing_stmt(n)
                loop = getattr(st, '_parent', None)
                it = self._literal_iter(loop.iter) if isinstance(loop, ast.For) else None
                if isinstance(loop, ast.For) and any(b is st for b in loop.body) \
                        and isinstance(loop.target, ast.Name) and loop.target.id == n.args[0].id \
                        and isinstance(it, (ast.Tuple, ast.List)) \
                        and all(isinstance(e, ast.Constant) and isinstance(e.value, str) for e in it.elts):
                    for e in it.elts:
                        self.ev_pop(e.value, s)
                return s
            if f.attr in ('update', 'setdefault') and isinstance(f.value, ast.Attribute) and f.value.attr == '__dict__' \
                    and is_self(f.value.value):
                # bulk seeding of the instance dict with unknown keys: every
                # cache may now hold a value that was not computed from the current state
                for L in s:
                    if s[L] != S:
                        s[L] = S
                        self.stale_cause.setdefault(L, ('__dict__ (bulk update)', n, self.cur))
                return s
            if f.attr in ('clear',) and isinstance(f.value, ast.Attribute) and f.value.attr == '__dict__' \
                    and is_self(f.value.value):
                self.ev_reset_all(s)
                return s
            if is_self(f.value):
                name = f.attr
                if name in self.lc.reset_all_methods:
                    self.ev_reset_all(s)
                    return s
                g = self.lc.members.get(name)
                if g is not None and not g.is_property:
                    return self.inline(g, s)
                return s
            # super().m(...)
            if isinstance(f.value, ast.Call) and isinstance(f.value.func, ast.Name) and f.value.func.id == 'super':
                cls = self.cur.cls
                if cls is not None:
                    for c in cls.mro[1:]:
                        if isinstance(c, ClassInfo) and f.attr in c.methods:
                            return self.inline(c.methods[f.attr][0], s)
                return s
            # in-place method on a field: self.a.append(...), self.a[k].append(...)
            base = f.value
            while isinstance(base, ast.Subscript):
                base = base.value
            a = self_attr(base)
            if a is not None and f.attr in MUTATING_METHODS and a not in self.lc.members:
                self.ev_write(a, n, s)
            return s
        if isinstance(f, ast.Name) and f.id == 'setattr' and n.args and is_self(n.args[0]):
            if len(n.args) >= 2 and isinstance(n.args[1], ast.Constant):
                self.store_attr(n.args[1].value, n, s)
            else:
                self.ev_write('*', n, s)
        return s

    def inline(self, g, s):
        if self.depth >= self.max_depth or g is None:
            return s
        if any(g is x for x in getattr(self, '_stack', ())):
            return s
        saved = (self.cur, self.depth, self.returns, self.raises, getattr(self, '_stack', ()))
        self.cur = g
        self.depth += 1
        self._stack = saved[4] + (g,)
        sub_returns = []
        self.returns = sub_returns
        self.raises = []
        from .flow import _Ctx
        out = self.block(g.node.body, self.copy(s), _Ctx())
        res = out
        for rnode, st in sub_returns:
            res = self.jn(res, st)
        self.cur, self.depth, self.returns, self.raises, self._stack = saved
        return res if res is not None else s

    # ---- statements -----------------------------------------------------------------
    def store_attr(self, a, node, s):
        if a in self.lc.setters:
            s2 = self.inline(self.lc.setters[a], s)
            s.clear()
            s.update(s2)
            return
        if a in self.lc.lazies:
            self.ev_seed(a, node, s)
        else:
            self.ev_write(a, node, s)

    def store_target(self, t, node, s):
        if isinstance(t, (ast.Tuple, ast.List)):
            for e in t.elts:
                self.store_target(e, node, s)
            return
        if isinstance(t, ast.Starred):
            return self.store_target(t.value, node, s)
        a = self_attr(t)
        if a is not None:
            self.store_attr(a, node, s)
            return
        k = self_dict_key(t)
        if k is not None:
            if k in self.lc.lazies:
                self.ev_seed(k, node, s)
            else:
                self.ev_write(k, node, s)
            return
        # self.a[...] = v  /  self.a.b = v  /  self.a[...].b = v
        base = t
        while isinstance(base, (ast.Subscript, ast.Attribute)) and self_attr(base) is None \
                and self_dict_key(base) is None:
            base = base.value
        a = self_attr(base)
        if a is not None and base is not t:
            if a in self.lc.lazies:
                self.ev_write('@' + a, node, s)
            elif a not in self.lc.members:
                self.ev_write(a, node, s)
            return
        k = self_dict_key(base)
        if k is not None and base is not t:
            self.ev_write(('@' + k) if k in self.lc.lazies else k, node, s)

    def on_stmt(self, st, s):
        if isinstance(st, ast.Assign):
            s = self.scan(st.value, s)
            for t in st.targets:
                s = self._scan_target_reads(t, s)
                self.store_target(t, st, s)
            return s
        if isinstance(st, ast.AnnAssign):
            if st.value is not None:
                s = self.scan(st.value, s)
                self.store_target(st.target, st, s)
            return s
        if isinstance(st, ast.AugAssign):
            s = self.scan(st.value, s)
            t = st.target
            a = self_attr(t)
            if a is not None and (a in self.lc.lazies or a in self.lc.props):
                self.ev_read(a, s)
            k = self_dict_key(t)
            if k is not None and k in self.lc.lazies:
                # self.__dict__['k'] op= v : in-place change of the cached value
                self.ev_seed(k, st, s)
                return s
            s = self._scan_target_reads(t, s)
            self.store_target(t, st, s)
            return s
        if isinstance(st, ast.Delete):
            for t in st.targets:
                a = self_attr(t)
                k = self_dict_key(t)
                if a is not None and a in self.lc.lazies:
                    self.ev_pop(a, s)
                elif k is not None and k in self.lc.lazies:
                    self.ev_pop(k, s)
                elif a is not None:
                    self.ev_write(a, st, s)
                elif k is not None:
                    self.ev_write(k, st, s)
                else:
                    self.store_target(t, st, s)
            return s
        if isinstance(st, ast.Expr):
            return self.scan(st.value, s)
        if isinstance(st, ast.Assert):
            return self.scan(st.test, s)
        return s

    def _scan_target_reads(self, t, s):
        """Index expressions / base objects in a store target are evaluated."""
        if isinstance(t, ast.Subscript):
            s = self.scan(t.slice, s)
            if self_dict_key(t) is None:
                s = self._scan_target_reads(t.value, s) if isinstance(t.value, (ast.Subscript, ast.Attribute)) else s
        elif isinstance(t, ast.Attribute) and not is_self(t.value):
            s = self.scan(t.value, s)
        return s

    def on_expr(self, expr, s, role):
        return self.scan(expr, s)

    def branch(self, test, s):
        t, f = dict(s), dict(s)
        self._refine(test, t, f)
        return t, f

    def _refine(self, test, t, f):
        """`'k' in self.__dict__`: in the false branch key k is absent; when k
        is a plain field, nothing that needs k can have been computed yet."""
        if isinstance(test, ast.Compare) and len(test.ops) == 1 and \
                isinstance(test.left, ast.Constant) and isinstance(test.left.value, str):
            c = test.comparators[0]
            if isinstance(c, ast.Attribute) and c.attr == '__dict__' and is_self(c.value):
                key = test.left.value
                absent = t if isinstance(test.ops[0], ast.NotIn) else f if isinstance(test.ops[0], ast.In) else None
                if absent is not None:
                    if key in self.lc.lazies:
                        absent[key] = A
                    else:
                        # a plain field that is missing from the instance dict:
                        # the constructor has not finished, nothing is cached
                        for L in self.lc.lazies:
                            absent[L] = A
        elif isinstance(test, ast.UnaryOp) and isinstance(test.op, ast.Not):
            self._refine(test.operand, f, t)
        elif isinstance(test, ast.BoolOp) and isinstance(test.op, ast.And):
            for v in test.values:
                self._refine(v, t, {})

    def on_return(self, node, s):
        if self.depth == 0:
            self.exit_states.append((node, dict(s)))

    def analyse(self):
        self._stack = (self.entry,)
        out = self.run(self.entry.node, self.initial())
        if out is not None:
            self.exit_states.append((None, dict(out)))
        return self

    def stale_at_exit(self):
        """lazy -> (cause field, node, finfo) for lazies possibly stale at a normal exit."""
        res = {}
        for node, st in self.exit_states:
            for L, v in st.items():
                if v == S:
                    res.setdefault(L, self.stale_cause.get(L))
        return res


def entry_methods(lc):
    """Public mutator candidates: non-lazy public/dunder methods and property
    setters (getters of plain properties included: they must not write)."""
    out = []
    seen = set()
    for c in lc.cls.mro:
        if not isinstance(c, ClassInfo):
            continue
        for n, fs in c.methods.items():
            for f in fs:
                key = (n, f.is_setter)
                if key in seen:
                    continue
                seen.add(key)
                if f.is_lazy:
                    continue
                if n in ('__init__', '__new__', '__post_init__', '__init_subclass__',
                         '__setstate__', '__getstate__', '__reduce__'):
                    continue
                if n.startswith('_') and not (n.startswith('__') and n.endswith('__')) and not f.is_setter:
                    continue
                out.append(f)
    return out


def writes_state(lc, f):
    """Quick syntactic filter: does f (or anything it may inline) contain a store to self?"""
    for n in ast.walk(f.node):
        if isinstance(n, (ast.Assign, ast.AugAssign, ast.AnnAssign, ast.Delete)):
            return True
        if isinstance(n, ast.Call) and isinstance(n.func, ast.Attribute):
            if is_self(n.func.value) or (isinstance(n.func.value, ast.Attribute) and is_self(n.func.value.value)):
                return True
    return False


# ---------------------------------------------------------------------------
# L3: kill / use typestate with path guards
# ---------------------------------------------------------------------------
import re as _re
from . import guards as G

_BUILTIN_NAMES = {'self', 'tuple', 'len', 'np', 'isinstance', 'list', 'int', 'float', 'bool',
                  'None', 'True', 'False', 'is', 'not', 'and', 'or', 'in', 'cached'}


class KillUse:
    def __init__(self, lc):
        self.lc = lc
        self._reads = {}
        self.config_fields = self._config_fields()

    def _config_fields(self):
        """Fields stored in __init__ and never stored elsewhere."""
        init_w, other_w = set(), set()
        for n, f in self.lc.members.items():
            for node in ast.walk(f.node):
                if isinstance(node, (ast.Assign, ast.AugAssign, ast.AnnAssign)):
                    tg = node.targets if isinstance(node, ast.Assign) else [node.target]
                    for t in tg:
                        for e in (t.elts if isinstance(t, (ast.Tuple, ast.List)) else [t]):
                            a = self_attr(e) or self_dict_key(e)
                            if a:
                                (init_w if n == '__init__' else other_w).add(a)
        for n, f in self.lc.setters.items():
            for node in ast.walk(f.node):
                if isinstance(node, ast.Assign):
                    for t in node.targets:
                        a = self_attr(t)
                        if a:
                            other_w.add(a)
        return init_w - other_w

    def atom_stable(self, text):
        if text.startswith('cached:'):
            return True
        names = set(_re.findall(r'self\.(\w+)', text))
        if not names or not names <= self.config_fields:
            return False
        rest = _re.sub(r'self\.\w+', '', text)
        for ident in _re.findall(r'[A-Za-z_]\w*', rest):
            if ident not in _BUILTIN_NAMES:
                return False
        return True

    def kill_sites(self):
        """(field, stmt, member FunctionInfo)"""
        out = []
        for n, f in self.lc.members.items():
            if n in ('__init__', '__new__', '__setstate__'):
                continue
            for node in ast.walk(f.node):
                if isinstance(node, ast.Assign) and isinstance(node.value, ast.Constant) \
                        and node.value.value is None:
                    for t in node.targets:
                        a = self_attr(t)
                        if a and a not in self.lc.members:
                            out.append((a, node, f))
                elif isinstance(node, ast.Delete):
                    for t in node.targets:
                        a = self_attr(t)
                        if a and a not in self.lc.members:
                            out.append((a, node, f))
        return out

    def _is_none_test_operand(self, node):
        p = getattr(node, '_parent', None)
        if isinstance(p, ast.Compare) and len(p.ops) == 1 and isinstance(p.ops[0], (ast.Is, ast.IsNot)) \
                and isinstance(p.comparators[0], ast.Constant) and p.comparators[0].value is None:
            return True
        return False

    def local_uses(self, f, field):
        """[(node, formula)] direct uses of self.field in f."""
        out = []
        for node in ast.walk(f.node):
            if self_attr(node) == field and isinstance(node.ctx, ast.Load) \
                    and not self._is_none_test_operand(node):
                out.append((node, G.guard_of(node, f.node)))
        return out

    def member_refs(self, f):
        """[(node, member name)] reads/calls of other members in f."""
        out = []
        for node in ast.walk(f.node):
            a = self_attr(node)
            if a is not None and isinstance(node.ctx, ast.Load) and a in self.lc.members:
                out.append((node, a))
        return out

    def reads(self, name, field, stack=()):
        """Formulas under which evaluating member `name` uses self.field."""
        key = (name, field)
        if key in self._reads:
            return self._reads[key]
        if name in stack or len(stack) > 6:
            return []
        f = self.lc.members.get(name)
        if f is None:
            return []
        out = [(fm, (f.qualname,)) for _, fm in self.local_uses(f, field)]
        for node, m in self.member_refs(f):
            if m == name:
                continue
            for fm, ch in self.reads(m, field, stack + (name,)):
                parts = [G.guard_of(node, f.node), fm]
                if m in self.lc.lazies:
                    parts.append(G.neg(('atom', f'cached:{m}')))
                out.append((G.conj(parts), (f.qualname,) + ch))
        if not stack:
            self._reads[key] = out
        return out

    def _rename_kill(self, fm):
        """Atoms of the kill guard: unstable ones are independent of the
        reader's; cached:X at kill time implies cached:X later."""
        extra = []

        def rec(f):
            if f[0] == 'atom':
                t = f[1]
                if t.startswith('cached:'):
                    extra.append(('or', [('not', ('atom', t + '@kill')), ('atom', t)]))
                    return ('atom', t + '@kill')
                if not self.atom_stable(t):
                    return ('atom', t + '@kill')
                return f
            if f[0] == 'not':
                return ('not', rec(f[1]))
            if f[0] in ('and', 'or'):
                return (f[0], [rec(g) for g in f[1]])
            return f
        g = rec(fm)
        return G.conj([g] + extra)

    def _unstable_reader(self, fm):
        def rec(f):
            if f[0] == 'atom':
                return f
            if f[0] == 'not':
                return ('not', rec(f[1]))
            if f[0] in ('and', 'or'):
                return (f[0], [rec(g) for g in f[1]])
            return f
        return rec(fm)

    def check(self):
        """Yield findings: dict(field, kill stmt, killer, reader chain, witness, kind)."""
        res = []
        obligations = []
        for field, stmt, M in self.kill_sites():
            gk = G.guard_of(stmt, M.node)
            # (1) uses after the kill inside the same member (program order)
            after = []
            for node, fm in self.local_uses(M, field):
                if node.lineno > stmt.end_lineno:
                    after.append((fm, (M.qualname,), node))
            for node, m in self.member_refs(M):
                if node.lineno > stmt.end_lineno or (node.lineno == stmt.end_lineno and node.col_offset > stmt.end_col_offset):
                    for fm, ch in self.reads(m, field):
                        parts = [G.guard_of(node, M.node), fm]
                        if m in self.lc.lazies:
                            parts.append(G.neg(('atom', f'cached:{m}')))
                        after.append((G.conj(parts), (M.qualname,) + ch, node))
            for fm, ch, node in after:
                w = G.satisfiable(G.conj([gk, fm]))
                obligations.append((field, M.qualname, 'same-call', ch, w is None))
                if w is not None:
                    res.append(dict(field=field, stmt=stmt, killer=M, chain=ch, witness=w,
                                    kind='use after kill in the same evaluation', guard=G.show(G.conj([gk, fm]))))
            # (2) other entries evaluated later
            gk2 = self._rename_kill(gk)
            for E, fE in self.lc.members.items():
                if fE is M or E in ('__init__', '__new__'):
                    continue
                if E.startswith('_') and not (E.startswith('__') and E.endswith('__')) \
                        and E not in self.lc.lazies:
                    continue      # private helpers are reached through their callers
                for fm, ch in self.reads(E, field):
                    parts = [gk2, fm]
                    if E in self.lc.lazies:
                        parts.append(G.neg(('atom', f'cached:{E}')))
                    if M.name in self.lc.lazies:
                        parts.append(('atom', f'cached:{M.name}'))
                    w = G.satisfiable(G.conj(parts))
                    obligations.append((field, M.qualname, 'later-read', ch, w is None))
                    if w is not None:
                        res.append(dict(field=field, stmt=stmt, killer=M, chain=ch, witness=w,
                                        kind=f'`{E}` evaluated after the kill', guard=G.show(G.conj(parts))))
        return res, obligations
