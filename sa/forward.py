"""FWD: option forwarding completeness.

At a call to an in-repo function/constructor g, every *optional* parameter p
of g for which the caller holds a same-named value (its own parameter p, or
self.p set by __init__) must be passed on.  A dropped keyword silently
replaces the user's choice by g's default (wrong connectivity, method,
relabel flag, bounds ...), which no test with default options can see.
"""
from __future__ import annotations

import ast

from .core import ClassInfo, FunctionInfo, unparse, norm_stmt_text, enclosing_stmt
from .report import Finding

# (caller fullname, callee qualname, param) -> reason the option is deliberately not passed
EXEMPT = {
    ('photutils.aperture.stats.ApertureStats._aperture_masks_center', 'CircularMaskMixin.to_mask', 'subpixels'):
        "method='center' masks: the subpixels option only applies to method='subpixel'",
    ('photutils.utils.depths.ImageDepth.__call__', 'PixelAperture.do_photometry', 'mask'):
        'aperture positions are drawn only from pixels whose dilated neighbourhood is unmasked, so no masked pixel is inside an aperture',
    ('photutils.centroids.gaussian.centroid_1dg', '_gaussian1d_moments', 'mask'):
        'the marginal sums are taken from a MaskedArray; the moments helper sees compressed 1-D data',
    ('photutils.isophote.ellipse.Ellipse.fit_image', 'Ellipse.fit_isophote', '*'):
        'central-pixel extraction (sma = 0): clipping/integration/convergence options do not apply to CentralEllipseSample',
    ('photutils.isophote.ellipse.Ellipse._iterative', 'EllipseSample.__init__', '*'):
        'CentralEllipseSample (sma = 0) inherits EllipseSample.__init__; clipping/integration options do not apply',
    ('photutils.isophote.sample.EllipseSample._get_gradient', 'EllipseSample.__init__', 'geometry'):
        'the gradient sample is built from explicit x0/y0/eps/pa of the current geometry at a larger sma',
    ('photutils.psf.epsf_stars.EPSFStar.register_epsf', '_LegacyEPSFModel.__init__', 'origin'):
        'the ePSF is evaluated in its own frame; the star origin is applied to the coordinates afterwards',
    ('photutils.psf.functional_models.CircularGaussianPSF.fit_deriv', 'GaussianPSF.__init__', '*'):
        'a default GaussianPSF is built only to borrow its static fit_deriv; the parameters are passed to fit_deriv itself',
    ('photutils.psf.image_models._LegacyEPSFModel._initial_norm', '_LegacyEPSFModel._compute_normalization', 'normalize'):
        'called only in the normalize=True branch; the callee default is True',
}


def init_attrs(cls):
    out = set()
    init = cls.lookup('__init__') if cls is not None else None
    if init is None:
        return out
    for n in ast.walk(init.node):
        if isinstance(n, ast.Assign):
            for t in n.targets:
                if isinstance(t, ast.Attribute) and isinstance(t.value, ast.Name) and t.value.id == 'self':
                    out.add(t.attr)
    return out


def _default_nodes(func_node):
    out = set()
    for d in list(func_node.args.defaults) + [d for d in func_node.args.kw_defaults if d is not None]:
        for n in ast.walk(d):
            out.add(id(n))
    return out


_um_cache = {}


def unique_method(repo, name):
    """A method name that is defined by exactly one class hierarchy root in the package
    (so `obj.name(...)` on an object of unknown type can only mean that method)."""
    key = (id(repo), name)
    if key not in _um_cache:
        hits = []
        for c in repo.classes.values():
            if name in c.methods:
                hits.append(c.methods[name][0])
        # overrides of one base method count as one
        sigs = {tuple(h.params) for h in hits}
        _um_cache[key] = hits[0] if hits and len(sigs) == 1 and not name.startswith('__') \
            and name not in ('copy', 'update', 'get', 'append', 'sort', 'items', 'values', 'keys', 'evaluate', 'fit', 'imshow', 'plot') else None
    return _um_cache[key]


def run_forward(repo, res, modules=None, rule='FWD'):
    n_sites = 0
    used = set()
    for f in repo.functions.values():
        if modules is not None and f.module.name not in modules:
            continue
        cls = f.cls or getattr(f, 'owner_cls', None)
        selfattrs = init_attrs(cls) if cls is not None else set()
        fparams = set(f.params) - {'self', 'cls'}
        defaults = _default_nodes(f.node)
        for n in ast.walk(f.node):
            if not isinstance(n, ast.Call) or id(n) in defaults:
                continue
            g = repo.resolve_call(f, n)
            if not isinstance(g, (ClassInfo, FunctionInfo)) and isinstance(n.func, ast.Attribute):
                g = unique_method(repo, n.func.attr)
            if isinstance(g, ClassInfo):
                g = g.lookup('__init__')
                skip = 1
            elif isinstance(g, FunctionInfo):
                bound = g.cls is not None and not g.is_static and isinstance(n.func, ast.Attribute)
                if bound and isinstance(n.func.value, ast.Name) and g.cls is not None and n.func.value.id == g.cls.name:
                    bound = False     # Class.method(self, ...) explicit form
                skip = 1 if bound else 0
            else:
                continue
            if g is None:
                continue
            a = g.node.args
            pos = [x.arg for x in a.posonlyargs + a.args][skip:]
            ndef = len(a.defaults)
            optional = set(pos[len(pos) - ndef:] if ndef else []) | \
                {x.arg for x, d in zip(a.kwonlyargs, a.kw_defaults) if d is not None}
            if any(isinstance(x, ast.Starred) for x in n.args) or any(k.arg is None for k in n.keywords):
                continue
            passed = set(pos[:len(n.args)]) | {k.arg for k in n.keywords}
            for p in sorted(optional):
                have = p in fparams or (p in selfattrs and f.name != '__init__')
                if not have:
                    continue
                n_sites += 1
                ok = p in passed
                why = None
                if not ok:
                    why = EXEMPT.get((f.fullname, g.qualname, p)) or EXEMPT.get((f.fullname, g.qualname, '*'))
                    if why:
                        used.add((f.fullname, g.qualname))
                res.oblige(rule, f'{f.qualname} passes its `{p}` on to {g.qualname}', ok or why is not None,
                           nontrivial=True,
                           sample={'caller': f.fullname, 'callee': g.fullname, 'param': p, 'exempt': why})
                if not ok and why is None:
                    st = enclosing_stmt(n)
                    src = 'parameter' if p in fparams else f'self.{p}'
                    res.add(Finding(rule, f.fullname, f'{g.qualname}(...) without {p}=',
                                    f'{f.module.relpath}:{n.lineno}',
                                    f'{f.qualname} holds the option `{p}` ({src}) but calls {g.qualname} without passing it: '
                                    f'the callee silently uses its default instead of the user\'s choice', {'param': p}))
                elif ok:
                    # passed, but is it the caller's own value? (keyword form only)
                    for k in n.keywords:
                        if k.arg == p:
                            names = {x.id for x in ast.walk(k.value) if isinstance(x, ast.Name)} | \
                                    {x.attr for x in ast.walk(k.value) if isinstance(x, ast.Attribute)}
                            if p not in names and not isinstance(k.value, ast.Constant):
                                pass
    return n_sites
