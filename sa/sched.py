"""E-SCHED: schedule independence of result reassembly over as_completed()."""
from __future__ import annotations

import ast

from .core import unparse, norm_stmt_text
from .report import Finding


def as_completed_loops(func_node):
    return [n for n in ast.walk(func_node) if isinstance(n, ast.For) and isinstance(n.iter, ast.Call)
            and unparse(n.iter.func, 0).split('.')[-1] == 'as_completed']


def check_loop(res, f, loop, rule='SCHED'):
    """The body may only (i) look the future up in the submission-index map,
    (ii) store results[idx] = future.result(), (iii) drive the progress bar."""
    fut = loop.target.id if isinstance(loop.target, ast.Name) else None
    futmap = unparse(loop.iter.args[0], 0) if loop.iter.args else None
    bad = []
    idx_names = set()
    result_lists = set()
    body_defs = set()
    for st in loop.body:
        ok = False
        if isinstance(st, ast.Assign) and len(st.targets) == 1:
            t = st.targets[0]
            v = st.value
            # idx = futures_dict[future]
            if isinstance(t, ast.Name) and isinstance(v, ast.Subscript) and unparse(v.value, 0) == futmap \
                    and isinstance(v.slice, ast.Name) and v.slice.id == fut:
                idx_names.add(t.id)
                body_defs.add(t.id)
                ok = True
            # results[idx] = future.result()
            elif isinstance(t, ast.Subscript) and isinstance(t.value, ast.Name) and isinstance(t.slice, ast.Name) \
                    and t.slice.id in idx_names and isinstance(v, ast.Call) and unparse(v.func, 0) == f'{fut}.result':
                result_lists.add(t.value.id)
                ok = True
        elif isinstance(st, ast.Expr) and isinstance(st.value, ast.Call) and isinstance(st.value.func, ast.Attribute) \
                and isinstance(st.value.func.value, ast.Name) and _is_pbar(st.value.func.value.id, loop):
            ok = True
        if not ok:
            bad.append(st)
    return fut, futmap, idx_names, result_lists, body_defs, bad


def _is_pbar(name, loop):
    p = getattr(loop, '_parent', None)
    while p is not None:
        if isinstance(p, ast.With):
            for item in p.items:
                if isinstance(item.optional_vars, ast.Name) and item.optional_vars.id == name:
                    return True
        p = getattr(p, '_parent', None)
    return False
