"""DTYPE: abstract dtype kind dataflow.  'P' = the array still has the dtype the caller passed
(copy/view of a parameter), 'F' = guaranteed floating point, None = unknown.  An in-place true
division / float-valued augmented assignment on a 'P' array, or a store of NaN/inf/a fractional
constant into one, fails or truncates for integer input."""
from __future__ import annotations

import ast

from .core import unparse, norm_stmt_text
from .flow import Flow

FLOAT_FUNCS = {'sqrt', 'exp', 'log', 'log10', 'sin', 'cos', 'hypot', 'mean', 'nanmean', 'median', 'nanmedian', 'std', 'nanstd',
               'var', 'nanvar', 'zeros', 'ones', 'empty', 'full', 'linspace', 'true_divide', 'divide'}
SAME_FUNCS = {'copy', 'array', 'asarray', 'asanyarray', 'atleast_1d', 'atleast_2d', 'zeros_like', 'ones_like', 'empty_like',
              'masked_array', 'squeeze', 'ravel', 'transpose', 'maximum', 'minimum', 'clip', 'abs', 'absolute', 'where'}


def _is_float_dtype(node):
    s = unparse(node, 0)
    return s in ('float', 'np.float64', 'np.float32', 'np.floating', "'float'", "'f8'", "'float64'", 'np.double', 'np.float_')


def _fractional(node):
    if isinstance(node, ast.Constant) and isinstance(node.value, float):
        return node.value != node.value or node.value in (float('inf'), float('-inf')) or node.value != int(node.value)
    if isinstance(node, ast.Attribute) and node.attr in ('nan', 'inf', 'NaN', 'NINF', 'PINF'):
        return True
    if isinstance(node, ast.UnaryOp):
        return _fractional(node.operand)
    return False


_ATTR_P_CACHE = {}


class DtypeFlow(Flow):
    def __init__(self, finfo):
        self.f = finfo
        self.findings = []
        self.sinks = 0
        self.attr_p = set()

    def copy(self, s):
        return dict(s)

    def join(self, a, b):
        out = {}
        for k in set(a) | set(b):
            va, vb = a.get(k), b.get(k)
            out[k] = va if va == vb else ('P' if 'P' in (va, vb) and None not in (va, vb) and False else None) if va != vb else va
        return out

    def kind(self, e, s):
        if isinstance(e, ast.Name):
            return s.get(e.id)
        if isinstance(e, ast.Attribute) and isinstance(e.value, ast.Name) and e.value.id == 'self' and e.attr in self.attr_p:
            return 'P'
        if isinstance(e, ast.Attribute) and e.attr in ('value', 'data', 'T', 'real'):
            return self.kind(e.value, s)
        if isinstance(e, ast.Subscript):
            return self.kind(e.value, s)
        if isinstance(e, ast.Constant):
            return 'F' if isinstance(e.value, float) else None
        if isinstance(e, ast.BinOp):
            if isinstance(e.op, ast.Div):
                return 'F'
            a, b = self.kind(e.left, s), self.kind(e.right, s)
            if 'F' in (a, b):
                return 'F'
            if a == 'P' and (b == 'P' or isinstance(e.right, ast.Constant) and isinstance(e.right.value, int)):
                return 'P'
            if b == 'P' and isinstance(e.left, ast.Constant) and isinstance(e.left.value, int):
                return 'P'
            return None
        if isinstance(e, ast.Call):
            fn = unparse(e.func, 0).split('.')[-1]
            kw = {k.arg: k.value for k in e.keywords if k.arg}
            if 'dtype' in kw:
                return 'F' if _is_float_dtype(kw['dtype']) else None
            if fn == 'astype':
                if e.args and _is_float_dtype(e.args[0]):
                    return 'F'
                return None
            if fn == 'copy' and isinstance(e.func, ast.Attribute) and not e.args:
                return self.kind(e.func.value, s)
            if fn in ('filled',) and isinstance(e.func, ast.Attribute):
                return self.kind(e.func.value, s)
            if fn in FLOAT_FUNCS:
                return 'F'
            if fn in SAME_FUNCS and e.args:
                if len(e.args) >= 2 and _is_float_dtype(e.args[1]) and fn in ('array', 'asarray', 'asanyarray'):
                    return 'F'
                return self.kind(e.args[0], s)
            if fn in ('float', 'float64'):
                return 'F'
            return None
        if isinstance(e, ast.IfExp):
            a, b = self.kind(e.body, s), self.kind(e.orelse, s)
            return a if a == b else None
        return None

    def _report(self, st, name, why):
        self.findings.append((st, name, why))

    def on_stmt(self, st, s):
        if isinstance(st, ast.Assign):
            k = self.kind(st.value, s)
            for t in st.targets:
                if isinstance(t, ast.Name):
                    s = dict(s)
                    s[t.id] = k
                elif isinstance(t, (ast.Tuple, ast.List)):
                    s = dict(s)
                    if isinstance(st.value, (ast.Tuple, ast.List)) and len(st.value.elts) == len(t.elts):
                        for a, b in zip(t.elts, st.value.elts):
                            if isinstance(a, ast.Name):
                                s[a.id] = self.kind(b, s)
                    else:
                        for a in t.elts:
                            if isinstance(a, ast.Name):
                                s[a.id] = None
                elif isinstance(t, ast.Subscript):
                    base = t.value
                    if isinstance(base, ast.Name):
                        self.sinks += 1
                        if s.get(base.id) == 'P' and _fractional(st.value):
                            self._report(st, base.id, f'stores `{unparse(st.value)}` into')
            return s
        if isinstance(st, ast.AugAssign):
            t = st.target
            base = t
            while isinstance(base, ast.Subscript):
                base = base.value
            if isinstance(base, ast.Name):
                k = s.get(base.id)
                vk = self.kind(st.value, s)
                floaty = isinstance(st.op, ast.Div) or (isinstance(st.op, (ast.Mult, ast.Add, ast.Sub, ast.Pow))
                                                       and (vk == 'F' or _fractional(st.value)))
                if floaty:
                    self.sinks += 1
                    if k == 'P':
                        self._report(st, base.id, f'applies in-place `{type(st.op).__name__}` with a float operand to')
                if isinstance(t, ast.Name) and isinstance(st.op, ast.LShift):
                    pass
                elif isinstance(t, ast.Name) and floaty and k != 'P':
                    s = dict(s)
                    s[t.id] = 'F' if k == 'F' else k
            return s
        return s

    def on_for_target(self, node, s):
        s = dict(s)
        for n in ast.walk(node.target):
            if isinstance(n, ast.Name):
                s[n.id] = None
        return s

    def _stored_params(self):
        """Attributes of the function's class that hold a caller's array as passed (`self.x = x`, `self.x = np.asarray(x)`):
        they still have the caller's dtype."""
        out = set()
        cls = getattr(self.f, 'cls', None)
        if cls is None:
            return out
        key = id(cls)
        if key in _ATTR_P_CACHE and _ATTR_P_CACHE[key][0] is cls:
            return _ATTR_P_CACHE[key][1]
        never = set()
        for m in cls.all_functions():
            params = set(m.params) - {'self', 'cls'}
            floated = {t.id for st in ast.walk(m.node) if isinstance(st, ast.Assign) for t in st.targets
                       if isinstance(t, ast.Name) and self._floaty_rhs(st.value)}
            for st in ast.walk(m.node):
                if not isinstance(st, ast.Assign):
                    continue
                for t in st.targets:
                    if isinstance(t, ast.Attribute) and isinstance(t.value, ast.Name) and t.value.id == 'self':
                        v = st.value
                        if isinstance(v, ast.Call) and unparse(v.func, 0).split('.')[-1] in ('array', 'asarray', 'asanyarray') \
                                and v.args and not any(k.arg == 'dtype' for k in v.keywords) and len(v.args) == 1:
                            v = v.args[0]
                        if isinstance(v, ast.Name) and v.id in params and v.id not in floated:
                            out.add(t.attr)
                        else:
                            never.add(t.attr)
        _ATTR_P_CACHE[key] = (cls, out - never)
        return out - never

    @staticmethod
    def _floaty_rhs(v):
        src = unparse(v, 0)
        return 'astype(float' in src or 'dtype=float' in src or 'dtype=np.float' in src or 'float(' in src

    def analyse(self):
        self.attr_p = self._stored_params()
        init = {}
        doc = ast.get_docstring(self.f.node) or ''
        for p in self.f.params:
            if p in ('self', 'cls'):
                continue
            init[p] = 'P'
        self.run(self.f.node, init)
        return self
