"""Spec helpers: compare what a function computes with accepted normal forms."""
from __future__ import annotations

import ast

from .core import AnalysisError, norm_stmt_text, unparse
from .expr import Inliner, nf, nf_text, rename
from .report import Finding


INLINED_AWAY = {}


def _expand_gone(text, gone):
    """Replace `self._name` (attribute) by the definition of the helper that was inlined away."""
    tree = ast.parse(text, mode='eval')

    class T(ast.NodeTransformer):
        def visit_Attribute(self, node):
            self.generic_visit(node)
            if isinstance(node.value, ast.Name) and node.value.id == 'self' and node.attr in gone:
                return ast.parse(gone[node.attr], mode='eval').body
            return node
    return ast.unparse(T().visit(tree))


def returns_match(repo, res, rule, fullname, accepted, meaning, setter=False, cls=None, strip_with=True):
    """Every value returned by `fullname` has one of the accepted normal forms
    (written as python expressions over the function's own names)."""
    key = fullname + ('.setter' if setter else '')
    f = repo.functions.get(key)
    short = fullname.rsplit('.', 1)[-1]
    if f is None:
        if short.startswith('_') and not short.startswith('__'):
            # a private helper that no longer exists was inlined into its callers: remember its definition and expand it in
            # the accepted forms of the specs that mention it (the callers are then checked against the expanded definition)
            INLINED_AWAY.setdefault(id(repo), {})[short] = accepted[0]
            res.notes.setdefault('private_helpers_inlined_away', []).append(fullname)
            return None
        raise AnalysisError(f'vanished anchor: {fullname}')
    inl = Inliner(f.node)
    if not inl.returns:
        raise AnalysisError(f'{fullname}: no return statement found')
    gone = INLINED_AWAY.get(id(repo), {})
    if gone:
        accepted = list(accepted) + [_expand_gone(a, gone) for a in accepted]
    want = {nf_text(a) for a in accepted}
    for e, rnode in inl.returns:
        got = nf(e)
        raw = nf(rnode.value)
        ok = got in want or raw in want
        if raw in want:
            got = raw
        res.oblige(rule, f'{f.qualname} returns {meaning}', ok, nontrivial=True,
                   sample={'function': fullname, 'returned_nf': got[:200], 'accepted': sorted(want)[:3]})
        if not ok:
            res.add(Finding(rule, fullname, f'return {got[:120]}', f'{f.module.relpath}:{rnode.lineno}',
                            f'{f.qualname} must return {meaning} (accepted forms: {"; ".join(accepted)}), '
                            f'but returns `{unparse(rnode.value, 140)}` = {got[:160]}', {'normal_form': got}))
    return f


def find_calls(func_node, name_suffix):
    """Call nodes in func whose callee dotted name ends with name_suffix."""
    out = []
    for n in ast.walk(func_node):
        if isinstance(n, ast.Call):
            s = unparse(n.func, 0)
            if s == name_suffix or s.endswith('.' + name_suffix):
                out.append(n)
    return out


def kwargs_of(call):
    return {k.arg: k.value for k in call.keywords if k.arg}


def same_kwargs(repo, res, rule, fullname, callee_a, callee_b, keys, meaning):
    """Two sibling calls in one function receive identical expressions for `keys`."""
    f = repo.get_function(fullname)
    ca, cb = find_calls(f.node, callee_a), find_calls(f.node, callee_b)
    if not ca or not cb:
        raise AnalysisError(f'{fullname}: calls to {callee_a}/{callee_b} not found')
    for a in ca:
        for b in cb:
            ka, kb = kwargs_of(a), kwargs_of(b)
            for k in keys:
                va = nf(ka[k]) if k in ka else None
                vb = nf(kb[k]) if k in kb else None
                ok = va == vb and va is not None
                res.oblige(rule, f'{f.qualname}: {callee_a} and {callee_b} get the same `{k}`', ok, nontrivial=True,
                           sample={'function': fullname, 'key': k, 'a': va, 'b': vb})
                if not ok:
                    res.add(Finding(rule, fullname, f'{callee_a}/{callee_b} keyword {k}', f'{f.module.relpath}:{b.lineno}',
                                    f'{f.qualname}: {meaning}: `{callee_a}(... {k}={va})` vs `{callee_b}(... {k}={vb})`', {}))
    return f


def mirror_stmts(res, rule, f, s1, s2, mapping, meaning):
    """s2 must be s1 with identifiers renamed by `mapping`."""
    a = nf_stmt(rename(s1, mapping))
    b = nf_stmt(s2)
    ok = a == b
    res.oblige(rule, f'{f.qualname}: `{norm_stmt_text(s2)}` mirrors `{norm_stmt_text(s1)}`', ok, nontrivial=True,
               sample={'function': f.fullname, 'first': norm_stmt_text(s1), 'second': norm_stmt_text(s2)})
    if not ok:
        res.add(Finding(rule, f.fullname, norm_stmt_text(s2), f'{f.module.relpath}:{s2.lineno}',
                        f'{f.qualname}: {meaning}: `{norm_stmt_text(s2)}` is not the mirror image of `{norm_stmt_text(s1)}` '
                        f'under {mapping}', {}))
    return ok


def nf_stmt(st):
    if isinstance(st, ast.Assign):
        return ' = '.join(nf(t) for t in st.targets) + ' = ' + nf(st.value)
    if isinstance(st, ast.AugAssign):
        return nf(st.target) + ' ' + type(st.op).__name__ + '= ' + nf(st.value)
    if isinstance(st, ast.Expr):
        return nf(st.value)
    if isinstance(st, ast.Return):
        return 'return ' + nf(st.value)
    return ast.dump(st)


def returns_tuple_slots(repo, res, rule, fullname, slot_names, meaning):
    """The function returns a tuple whose i-th element is built from the local
    named slot_names[i] and from none of the other slot locals."""
    f = repo.get_function(fullname)
    inl = Inliner(f.node)
    if not inl.returns:
        raise AnalysisError(f'{fullname}: no return')
    for e, rnode in inl.returns:
        raw = rnode.value
        ok = isinstance(raw, ast.Tuple) and len(raw.elts) == len(slot_names)
        if ok:
            for i, el in enumerate(e.elts if isinstance(e, ast.Tuple) else raw.elts):
                names = {n.id for n in ast.walk(el) if isinstance(n, ast.Name)} | \
                        {n.id for n in ast.walk(raw.elts[i]) if isinstance(n, ast.Name)}
                if slot_names[i] not in names or any(o in names for o in slot_names if o != slot_names[i]):
                    ok = False
        res.oblige(rule, f'{f.qualname} returns {meaning}', ok, nontrivial=True,
                   sample={'function': fullname, 'slots': slot_names, 'returned': unparse(raw)})
        if not ok:
            res.add(Finding(rule, fullname, f'return {unparse(raw, 100)}', f'{f.module.relpath}:{rnode.lineno}',
                            f'{f.qualname} must return {meaning} in that order; found `{unparse(raw, 140)}`', {}))
    return f
