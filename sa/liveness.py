"""Liveness: every property check must catch a set of seeded faults applied to
an in-memory copy of the parsed tree (nothing is written to disk), and the
unmodified tree must stay silent for the rule in question.

A case is (name, relpath, transform(tree) -> bool changed, expected rules).
Transforms are computed on the AST of the *current* file, so they follow
refactors of the code; a transform that no longer finds its construct is an
ANALYSIS-ERROR (vanished anchor), never a silent pass.
"""
from __future__ import annotations

import ast
import os

from .core import AnalysisError, load_repo, REPO, set_parents, unparse


# ---------------------------------------------------------------------------
# generic AST edits
# ---------------------------------------------------------------------------

def _find_func(tree, qualname):
    parts = qualname.split('.')
    scope = tree.body
    node = None
    for p in parts:
        node = None
        for st in scope:
            if isinstance(st, (ast.FunctionDef, ast.ClassDef, ast.AsyncFunctionDef)) and st.name == p:
                node = st
                break
        if node is None:
            raise AnalysisError(f'liveness: {qualname} not found')
        scope = node.body
    return node


def drop_copy(qualname, nth=0, attr='copy'):
    """x.copy() -> x  (n-th occurrence in the function)."""
    def tr(tree):
        f = _find_func(tree, qualname)
        hits = [n for n in ast.walk(f) if isinstance(n, ast.Call) and isinstance(n.func, ast.Attribute)
                and n.func.attr == attr and not n.args]
        hits.sort(key=lambda n: (n.lineno, n.col_offset))
        if len(hits) <= nth:
            return False
        target = hits[nth]

        class T(ast.NodeTransformer):
            def visit_Call(self, node):
                self.generic_visit(node)
                return node.func.value if node is target else node
        T().visit(f)
        return True
    return tr


def replace_call(qualname, old_func, new_func, nth=0):
    """np.copy(x) -> np.asarray(x) etc."""
    def tr(tree):
        f = _find_func(tree, qualname)
        hits = [n for n in ast.walk(f) if isinstance(n, ast.Call) and unparse(n.func, 0) == old_func]
        hits.sort(key=lambda n: (n.lineno, n.col_offset))
        if len(hits) <= nth:
            return False
        hits[nth].func = ast.parse(new_func, mode='eval').body
        return True
    return tr


def drop_stmt(qualname, contains, nth=0):
    """Remove the n-th simple statement whose text contains `contains`."""
    def tr(tree):
        f = _find_func(tree, qualname)
        for parent in ast.walk(f):
            for fld in ('body', 'orelse', 'finalbody'):
                blk = getattr(parent, fld, None)
                if not isinstance(blk, list):
                    continue
                for i, st in enumerate(blk):
                    if isinstance(st, (ast.Expr, ast.Assign, ast.AugAssign)) and contains in unparse(st, 0):
                        nonlocal_n[0] += 1
                        if nonlocal_n[0] - 1 == nth:
                            blk[i] = ast.Pass()
                            return True
        return False
    nonlocal_n = [0]
    return tr


def replace_stmt(qualname, contains, new_src, nth=0):
    def tr(tree):
        f = _find_func(tree, qualname)
        count = 0
        for parent in ast.walk(f):
            for fld in ('body', 'orelse', 'finalbody'):
                blk = getattr(parent, fld, None)
                if not isinstance(blk, list):
                    continue
                for i, st in enumerate(blk):
                    if isinstance(st, (ast.Expr, ast.Assign, ast.AugAssign, ast.Return)) and contains in unparse(st, 0):
                        if count == nth:
                            blk[i:i + 1] = ast.parse(new_src).body
                            return True
                        count += 1
        return False
    return tr


def replace_expr(qualname, old_src, new_src, nth=0):
    """Replace the n-th sub-expression whose unparse equals old_src."""
    def tr(tree):
        f = _find_func(tree, qualname)
        want = unparse(ast.parse(old_src, mode='eval').body, 0)
        hits = [n for n in ast.walk(f) if isinstance(n, ast.expr) and unparse(n, 0) == want]
        hits.sort(key=lambda n: (getattr(n, 'lineno', 0), getattr(n, 'col_offset', 0)))
        if len(hits) <= nth:
            return False
        target = hits[nth]
        new = ast.parse(new_src, mode='eval').body

        class T(ast.NodeTransformer):
            def generic_visit(self, node):
                for field, old in ast.iter_fields(node):
                    if isinstance(old, list):
                        for i, v in enumerate(old):
                            if v is target:
                                old[i] = new
                            elif isinstance(v, ast.AST):
                                self.generic_visit(v)
                    elif old is target:
                        setattr(node, field, new)
                    elif isinstance(old, ast.AST):
                        self.generic_visit(old)
                return node
        T().generic_visit(f)
        return True
    return tr


def drop_keyword(qualname, callee_suffix, kw, nth=0):
    def tr(tree):
        f = _find_func(tree, qualname)
        hits = [n for n in ast.walk(f) if isinstance(n, ast.Call) and unparse(n.func, 0).endswith(callee_suffix)
                and any(k.arg == kw for k in n.keywords)]
        hits.sort(key=lambda n: (n.lineno, n.col_offset))
        if len(hits) <= nth:
            return False
        hits[nth].keywords = [k for k in hits[nth].keywords if k.arg != kw]
        return True
    return tr


def drop_decorator(qualname, deco):
    def tr(tree):
        f = _find_func(tree, qualname)
        before = len(f.decorator_list)
        f.decorator_list = [d for d in f.decorator_list if unparse(d, 0) != deco]
        return len(f.decorator_list) != before
    return tr


def add_decorator(qualname, deco, position=1):
    def tr(tree):
        f = _find_func(tree, qualname)
        f.decorator_list.insert(position, ast.parse(deco, mode='eval').body)
        return True
    return tr


# ---------------------------------------------------------------------------
# driver
# ---------------------------------------------------------------------------

def mutated_repo(relpath, transform):
    path = os.path.join(REPO, relpath)
    with open(path, encoding='utf-8') as fh:
        src = fh.read()
    tree = ast.parse(src)
    if not transform(tree):
        raise AnalysisError(f'liveness: edit for {relpath} found nothing to change (vanished anchor)')
    ast.fix_missing_locations(tree)
    new_src = ast.unparse(tree)
    if new_src == ast.unparse(ast.parse(src)):
        raise AnalysisError(f'liveness: edit for {relpath} changed nothing')
    return load_repo(overrides={relpath: new_src})


def run_liveness(prop, mod, res):
    cases = mod.liveness()
    clean_keys = {f.key for f in res.findings}
    out = []
    for name, relpath, transform, rules in cases:
        repo2 = mutated_repo(relpath, transform)
        res2 = mod.run(repo2, 'quick')
        new = [f for f in res2.findings if f.key not in clean_keys and (not rules or f.rule in rules)]
        ok = bool(new)
        out.append({'fault': name, 'file': relpath, 'expected_rules': sorted(rules), 'caught': ok,
                    'reported': [f'{f.rule} {f.func}' for f in new[:3]]})
        res.oblige('LIVENESS', f'seeded fault `{name}` is reported', ok, nontrivial=True)
        if not ok:
            raise AnalysisError(f'liveness failure: rules {sorted(rules)} of {prop} do not report the seeded fault `{name}` in {relpath}')
    res.liveness = out
    res.floor('LIVENESS', len(cases))
    return out


# ---------------------------------------------------------------------------
# stored seeded changes (seeded/<prop>-*/patch.diff), replayed in memory
# ---------------------------------------------------------------------------

VERIF = os.path.dirname(os.path.dirname(os.path.abspath(__file__)))


def _patched_sources(patch):
    """{relpath: new source} of a stored unified diff applied to copies of the current /repo files, or None when the
    patch no longer applies (the code it was written against has changed)."""
    import shutil
    import subprocess
    import tempfile
    with open(patch, encoding='utf-8') as fh:
        files = [ln[6:].strip() for ln in fh if ln.startswith('+++ b/')]
    tmp = tempfile.mkdtemp(prefix='verif-seed-')
    try:
        for rel in files:
            src = os.path.join(REPO, rel)
            if not os.path.exists(src):
                return None
            os.makedirs(os.path.dirname(os.path.join(tmp, rel)), exist_ok=True)
            shutil.copy(src, os.path.join(tmp, rel))
        r = subprocess.run(['patch', '-p1', '-s', '-f', '--no-backup-if-mismatch', '-d', tmp, '-i', patch],
                           capture_output=True, text=True)
        if r.returncode != 0:
            return None
        out = {}
        for rel in files:
            with open(os.path.join(tmp, rel), encoding='utf-8') as fh:
                out[rel] = fh.read()
        return out
    finally:
        shutil.rmtree(tmp, ignore_errors=True)


def run_seeded(prop, mod, res):
    """Every stored seeded change of this property that the index records as reported must still be reported."""
    import glob
    import json
    clean_keys = {f.key for f in res.findings}
    out = []
    n = 0
    for d in sorted(glob.glob(os.path.join(VERIF, 'seeded', f'{prop}-*'))):
        name = os.path.basename(d)
        try:
            with open(os.path.join(d, 'meta.json'), encoding='utf-8') as fh:
                meta = json.load(fh)
        except (OSError, ValueError):
            continue
        if not any(c.startswith(prop + ':') for c in meta.get('caught_by', [])):
            out.append({'seed': name, 'status': 'recorded as not reported by this property (see seeded/INDEX.md)'})
            continue
        srcs = _patched_sources(os.path.join(d, 'patch.diff'))
        if srcs is None:
            out.append({'seed': name, 'status': 'patch no longer applies to the current tree; skipped'})
            continue
        res2 = mod.run(load_repo(overrides=srcs), 'quick')
        new = [f for f in res2.findings if f.key not in clean_keys]
        ok = bool(new)
        n += 1
        out.append({'seed': name, 'status': 'reported' if ok else 'NOT REPORTED', 'rules': sorted({f.rule for f in new})})
        res.oblige('SEEDED', f'stored seeded change {name} is reported', ok, nontrivial=True)
        if not ok:
            raise AnalysisError(f'seeded-change regression: {prop} no longer reports the stored change seeded/{name}')
    res.seeded = out
    res.notes['seeded_changes_replayed'] = out
    return n


def run_benign(prop, mod, res):
    """Self-test in the other direction: behaviour-preserving variants of the whole package (every local renamed, commutative
    operands swapped, `a == b` turned round, a no-op statement inserted in every function) are built in memory and the
    property's rules must stay silent on them.  Recorded in the evidence; a non-zero count is a defect of the checker
    (reported as a note, never as a verdict about photutils)."""
    import importlib.util
    spec = importlib.util.spec_from_file_location('verif_benign', os.path.join(VERIF, 'tools', 'benign.py'))
    B = importlib.util.module_from_spec(spec)
    spec.loader.exec_module(B)
    clean_rf = {(f.rule, f.func) for f in res.findings}
    out = {}
    for variant in ('rename', 'swap', 'yoda', 'shift', 'polarity', 'rettemp', 'privparam', 'elsify', 'unelse', 'comp2loop', 'kwstyle'):
        try:
            res2 = mod.run(B.build(variant), 'quick')
            new = sorted({(f.rule, f.func) for f in res2.findings} - clean_rf)
            out[variant] = {'false_alarms': len(new), 'first': [f'{r} {fn}' for r, fn in new[:3]]}
        except AnalysisError as exc:
            out[variant] = {'false_alarms': 1, 'first': [f'ANALYSIS-ERROR {str(exc)[:120]}']}
        res.oblige('BENIGN', f'silent on the behaviour-preserving variant `{variant}` of the package', out[variant]['false_alarms'] == 0,
                   nontrivial=True)
    res.notes['benign_variants'] = out
    return out


def run_benign_stored(prop, mod, res):
    """The independently written behaviour-preserving refactorings of this property's code (benign/<prop>-b*/patch.diff) are
    replayed in memory; the rules must report nothing new on them.  Recorded; a non-silent one is a checker defect (note)."""
    import glob
    clean_rf = {(f.rule, f.func) for f in res.findings}
    out = []
    for d in sorted(glob.glob(os.path.join(VERIF, 'benign', f'{prop}-*'))):
        name = os.path.basename(d)
        srcs = _patched_sources(os.path.join(d, 'patch.diff'))
        if srcs is None:
            out.append({'refactoring': name, 'status': 'patch no longer applies; skipped'})
            continue
        try:
            res2 = mod.run(load_repo(overrides=srcs), 'quick')
            new = sorted({(f.rule, f.func) for f in res2.findings} - clean_rf)
            status = 'silent' if not new else 'FALSE ALARM: ' + '; '.join(f'{r} {fn}' for r, fn in new[:3])
        except AnalysisError as exc:
            new = [1]
            status = f'ANALYSIS-ERROR {str(exc)[:120]}'
        out.append({'refactoring': name, 'status': status})
        res.oblige('BENIGN', f'silent on the independent refactoring {name}', not new, nontrivial=True)
    res.notes['benign_refactorings_replayed'] = out
    return out
