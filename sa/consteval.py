"""Finite-domain abstract interpretation of small 'table' functions.

Evaluates a function body over an environment in which some parameters are
bound to concrete constants (the finite domain, e.g. mode in {'center',
'subpixel', 'exact'}) and the others to opaque symbols.  Conditions that
involve a symbol are taken from a caller-supplied oracle or explored both
ways.  No photutils code is executed: this is an interpreter over the AST for
the handful of statement/expression kinds such functions use; anything else is
`Unsupported` (the caller turns it into an ANALYSIS-ERROR).
"""
from __future__ import annotations

import ast


class Unsupported(Exception):
    pass


class NeedAssumption(Exception):
    def __init__(self, key):
        super().__init__(key)
        self.key = key


class Sym:
    """Opaque value (a parameter that is not enumerated)."""
    def __init__(self, name):
        self.name = name

    def __repr__(self):
        return f'<{self.name}>'

    def __eq__(self, other):
        return isinstance(other, Sym) and other.name == self.name

    def __hash__(self):
        return hash(('Sym', self.name))


RAISE = 'RAISE'


class _FrozenMap(tuple):
    """A dict literal with evaluated keys and values."""


class _Raise(Exception):
    """Evaluating the expression raises (a missing key)."""


def _ev(e, env, assume):
    if isinstance(e, ast.Constant):
        return e.value
    if isinstance(e, ast.Name):
        if e.id in env:
            return env[e.id]
        raise Unsupported(f'unbound name {e.id}')
    if isinstance(e, (ast.Tuple, ast.List)):
        return tuple(_ev(x, env, assume) for x in e.elts)
    if isinstance(e, ast.UnaryOp) and isinstance(e.op, ast.Not):
        v = _ev(e.operand, env, assume)
        return _sym_bool(e, v, assume, negate=True)
    if isinstance(e, ast.BoolOp):
        vals = []
        for x in e.values:
            v = _truth(x, env, assume)
            if isinstance(e.op, ast.And) and v is False:
                return False
            if isinstance(e.op, ast.Or) and v is True:
                return True
            vals.append(v)
        return vals[-1]
    if isinstance(e, ast.Compare) and len(e.ops) == 1:
        a, b = _ev(e.left, env, assume), _ev(e.comparators[0], env, assume)
        op = e.ops[0]
        if _has_sym(a) or _has_sym(b):
            return _sym_bool(e, Sym(ast.unparse(e)), assume)
        if isinstance(op, ast.Eq):
            return a == b
        if isinstance(op, ast.NotEq):
            return a != b
        if isinstance(op, ast.In):
            return a in b
        if isinstance(op, ast.NotIn):
            return a not in b
        if isinstance(op, ast.Is):
            return a is b
        if isinstance(op, ast.IsNot):
            return a is not b
        try:
            if isinstance(op, ast.Lt):
                return a < b
            if isinstance(op, ast.LtE):
                return a <= b
            if isinstance(op, ast.Gt):
                return a > b
            if isinstance(op, ast.GtE):
                return a >= b
        except TypeError:
            pass
        raise Unsupported(ast.unparse(e))
    if isinstance(e, ast.Dict) and all(k is not None for k in e.keys):
        return _FrozenMap((_ev(k, env, assume), _ev(v, env, assume)) for k, v in zip(e.keys, e.values))
    if isinstance(e, ast.Subscript):
        base, idx = _ev(e.value, env, assume), _ev(e.slice, env, assume)
        if _has_sym(idx) or isinstance(base, Sym):
            raise Unsupported(ast.unparse(e))
        try:
            if isinstance(base, _FrozenMap):
                return dict(base)[idx]
            if isinstance(base, tuple) and isinstance(idx, int):
                return base[idx]
        except (KeyError, IndexError):
            raise _Raise()
        raise Unsupported(ast.unparse(e))
    if isinstance(e, ast.IfExp):
        return _ev(e.body, env, assume) if _truth(e.test, env, assume) else _ev(e.orelse, env, assume)
    if isinstance(e, ast.Call) and isinstance(e.func, ast.Attribute) and e.func.attr == 'get' \
            and isinstance(e.func.value, (ast.Dict, ast.Name)) and 1 <= len(e.args) <= 2 and not e.keywords:
        base = _ev(e.func.value, env, assume)
        if isinstance(base, _FrozenMap):
            k = _ev(e.args[0], env, assume)
            if _has_sym(k):
                raise Unsupported(ast.unparse(e))
            return dict(base).get(k, _ev(e.args[1], env, assume) if len(e.args) == 2 else None)
    if isinstance(e, ast.Call):
        # a call on symbols only (isinstance(subpixels, int)): opaque condition
        return _sym_bool(e, Sym(ast.unparse(e)), assume)
    if isinstance(e, ast.JoinedStr):
        return '<str>'
    raise Unsupported(ast.unparse(e))


def _has_sym(v):
    return isinstance(v, Sym) or (isinstance(v, tuple) and any(_has_sym(x) for x in v))


def _sym_bool(node, v, assume, negate=False):
    if isinstance(v, Sym):
        key = ast.unparse(node.operand if negate else node)
        if key in assume:
            return (not assume[key]) if negate else assume[key]
        raise NeedAssumption(key)
    return (not v) if negate else v


def _truth(e, env, assume):
    v = _ev(e, env, assume)
    if isinstance(v, Sym):
        return _sym_bool(e, v, assume)
    return bool(v)


def run(func_node, env, assume=None):
    """Returns the returned value (tuple/constant/Sym) or RAISE."""
    assume = assume or {}
    env = dict(env)

    def block(stmts):
        for st in stmts:
            if isinstance(st, ast.Expr) and isinstance(st.value, ast.Constant):
                continue
            if isinstance(st, ast.Pass):
                continue
            if isinstance(st, ast.Assign) and len(st.targets) == 1:
                t = st.targets[0]
                v = _ev(st.value, env, assume)
                if isinstance(t, ast.Name):
                    env[t.id] = v
                    continue
                if isinstance(t, ast.Tuple) and isinstance(v, tuple) and len(v) == len(t.elts) \
                        and all(isinstance(x, ast.Name) for x in t.elts):
                    for x, vv in zip(t.elts, v):
                        env[x.id] = vv
                    continue
                raise Unsupported(ast.unparse(st))
            if isinstance(st, ast.If):
                r = block(st.body) if _truth(st.test, env, assume) else block(st.orelse)
                if r is not None:
                    return r
                continue
            if isinstance(st, ast.Raise):
                return (RAISE,)
            if isinstance(st, ast.Return):
                return ('RET', _ev(st.value, env, assume) if st.value is not None else None)
            raise Unsupported(ast.unparse(st)[:80])
        return None
    try:
        r = block(func_node.body)
    except _Raise:
        return (RAISE,)
    if r is None:
        return ('RET', None)
    return r


def run_all(func_node, env, assume=None, limit=6):
    """All outcomes over the undetermined conditions on symbols (explored both ways, at most `limit` of them)."""
    assume = dict(assume or {})
    try:
        return [(run(func_node, env, assume), dict(assume))]
    except NeedAssumption as exc:
        if limit <= 0:
            raise Unsupported(f'too many undetermined conditions ({exc.key})')
        out = []
        for v in (True, False):
            a2 = dict(assume)
            a2[exc.key] = v
            out.extend(run_all(func_node, env, a2, limit - 1))
        return out
