"""NEGZERO: a slice bound `-n` with n not a literal selects the whole axis
when n == 0.  Every such bound needs a dominating guard that proves n > 0."""
from __future__ import annotations

import ast

from .core import unparse, enclosing_stmt, norm_stmt_text
from . import guards as G


def neg_bounds(func_node):
    """(Subscript node, bound expr n, which) for slice bounds of the form -n."""
    out = []
    for n in ast.walk(func_node):
        if isinstance(n, ast.Slice):
            for which in ('lower', 'upper'):
                b = getattr(n, which)
                if isinstance(b, ast.UnaryOp) and isinstance(b.op, ast.USub) \
                        and not isinstance(b.operand, ast.Constant):
                    out.append((n, b.operand, which))
    return out


def guarded_positive(slice_node, operand, func_node):
    """A dominating guard proves operand > 0: inside `if n > 0`/`if n:`/`if n >= 1`,
    or after `if n <= 0: raise/return` / `if n == 0: return`."""
    text = unparse(operand, 0)
    g = G.guard_of(slice_node, func_node)
    lits = g[1] if g[0] == 'and' else [g]
    for lit in lits:
        pos = True
        f = lit
        if f[0] == 'not':
            pos = False
            f = f[1]
        if f[0] != 'atom':
            continue
        a = f[1]
        if pos and a in (f'0 < {text}', f'{text} > 0', text, f'1 <= {text}', f'{text} >= 1', f'{text} != 0'):
            return True
        # atom_of normalises `x > 0` to not(`x <= 0`), `x >= 1` to not(`x < 1`)
        if not pos and a in (f'{text} <= 0', f'{text} < 1', f'{text} == 0', f'0 >= {text}', f'not {text}'):
            return True
    return False
