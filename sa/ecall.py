"""E-CALL: re-entrancy of configured callable objects.

For a call-like entry (``__call__`` and a frozen list of call-like methods)
every self attribute written while the entry runs must be
  (i)  not a configuration attribute (one that __init__ sets from a
       constructor parameter), and
  (ii) assigned on every path before it is first read in that call
       (must-assigned set, intersection join), so nothing computed by an
       earlier call can leak into this one.
"""
from __future__ import annotations

import ast

from .core import ClassInfo, norm_stmt_text, enclosing_stmt
from .flow import Flow, _Ctx
from .lazy import self_attr, self_dict_key, is_self
from .alias import MUTATING_METHODS


def init_config_fields(cls):
    """Fields that __init__ (incl. inherited) sets from an expression that
    mentions a constructor parameter."""
    out = {}
    for c in cls.mro:
        if not isinstance(c, ClassInfo) or '__init__' not in c.methods:
            continue
        f = c.methods['__init__'][0]
        params = set(f.params) - {'self'}
        for node in ast.walk(f.node):
            if isinstance(node, ast.Assign):
                names = {n.id for n in ast.walk(node.value) if isinstance(n, ast.Name)}
                if names & params:
                    for t in node.targets:
                        for e in (t.elts if isinstance(t, (ast.Tuple, ast.List)) else [t]):
                            a = self_attr(e)
                            if a:
                                out.setdefault(a, node)
        break
    return out


class CallFlow(Flow):
    """Must-assigned analysis of one call-like entry with self calls inlined."""

    def __init__(self, cls, entry, max_depth=6):
        self.cls = cls
        self.entry = entry
        self.members = cls.all_methods()
        self.max_depth = max_depth
        self.depth = 0
        self.cur = entry
        self._stack = (entry,)
        self.writes = {}        # attr -> [(stmt, finfo)]
        self.early_reads = {}   # attr -> [(node, finfo)] read while not must-assigned
        self.reads = {}         # attr -> count

    def copy(self, s):
        return set(s)

    def join(self, a, b):
        return a & b

    def equal(self, a, b):
        return a == b

    # -- events ---------------------------------------------------------------
    def _read(self, a, node, s):
        self.reads[a] = self.reads.get(a, 0) + 1
        if a not in s:
            self.early_reads.setdefault(a, []).append((node, self.cur))

    def _write(self, a, stmt, s, full=True):
        self.writes.setdefault(a, []).append((stmt, self.cur))
        if full:
            s.add(a)

    def scan(self, expr, s):
        if expr is None:
            return s
        order = []

        def rec(n):
            if isinstance(n, (ast.Lambda, ast.FunctionDef, ast.ClassDef)):
                return
            for c in ast.iter_child_nodes(n):
                rec(c)
            order.append(n)
        rec(expr)
        for n in order:
            a = self_attr(n)
            if a is not None and isinstance(n.ctx, ast.Load):
                par = getattr(n, '_parent', None)
                if isinstance(par, ast.Call) and par.func is n:
                    continue
                g = self.members.get(a)
                if g is not None:
                    if g.is_property:
                        s = self.inline(g, s)
                    continue
                self._read(a, n, s)
            elif isinstance(n, ast.Call):
                s = self.call(n, s)
        return s

    def call(self, n, s):
        f = n.func
        if isinstance(f, ast.Attribute):
            if is_self(f.value):
                g = self.members.get(f.attr)
                if g is not None and not g.is_property:
                    if g is self.entry or any(g is x for x in self._stack):
                        return s     # recursion (e.g. NDData unpacking re-entry)
                    return self.inline(g, s)
                return s
            base = f.value
            while isinstance(base, ast.Subscript):
                base = base.value
            a = self_attr(base)
            if a is not None and f.attr in MUTATING_METHODS and a not in self.members:
                # in-place update of a field: a write that does not (re)initialise it
                self._write(a, enclosing_stmt(n), s, full=False)
        return s

    def inline(self, g, s):
        if self.depth >= self.max_depth:
            return s
        saved = (self.cur, self.depth, self.returns, self.raises, self._stack)
        self.cur, self.depth, self._stack = g, self.depth + 1, self._stack + (g,)
        self.returns, self.raises = [], []
        out = self.block(g.node.body, set(s), _Ctx())
        for _, st in self.returns:
            out = self.jn(out, st)
        self.cur, self.depth, self.returns, self.raises, self._stack = saved
        return out if out is not None else s

    # -- statements -----------------------------------------------------------------
    def store(self, t, st, s):
        if isinstance(t, (ast.Tuple, ast.List)):
            for e in t.elts:
                self.store(e, st, s)
            return
        a = self_attr(t)
        if a is not None:
            if a in self.members and self.members[a].is_property:
                return
            self._write(a, st, s)
            return
        base = t
        while isinstance(base, (ast.Subscript, ast.Attribute)) and self_attr(base) is None:
            base = base.value
        a = self_attr(base)
        if a is not None and base is not t and a not in self.members:
            # self.a[...] = v / self.a.b = v: partial update (needs the old object)
            self._read(a, base, s)
            self._write(a, st, s, full=False)

    def on_stmt(self, st, s):
        if isinstance(st, ast.Assign):
            s = self.scan(st.value, s)
            for t in st.targets:
                if isinstance(t, ast.Subscript):
                    s = self.scan(t.slice, s)
                self.store(t, st, s)
            return s
        if isinstance(st, ast.AnnAssign) and st.value is not None:
            s = self.scan(st.value, s)
            self.store(st.target, st, s)
            return s
        if isinstance(st, ast.AugAssign):
            s = self.scan(st.value, s)
            a = self_attr(st.target)
            if a is not None and a not in self.members:
                self._read(a, st.target, s)
                self._write(a, st, s, full=False)
            else:
                self.store(st.target, st, s)
            return s
        if isinstance(st, ast.Expr):
            return self.scan(st.value, s)
        if isinstance(st, ast.Assert):
            return self.scan(st.test, s)
        if isinstance(st, ast.Delete):
            for t in st.targets:
                self.store(t, st, s)
            return s
        return s

    def on_expr(self, expr, s, role):
        return self.scan(expr, s)

    def analyse(self):
        self.run(self.entry.node, set())
        return self


def call_like_entries(repo, extra=()):
    """(ClassInfo, FunctionInfo) for every class defining/inheriting __call__,
    plus the frozen list of call-like methods."""
    out = []
    for c in repo.classes.values():
        f = c.lookup('__call__')
        if f is not None:
            out.append((c, f))
    for cls_full, meth in extra:
        c = repo.get_class(cls_full)
        f = c.lookup(meth)
        if f is None:
            from .core import AnalysisError
            raise AnalysisError(f'vanished anchor: {cls_full}.{meth}')
        out.append((c, f))
    return out
