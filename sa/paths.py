"""Path-collecting event analysis: the set of possible event sets per path
(small finite domain, exact for loop-free code, union over loop unrollings)."""
from __future__ import annotations

import ast

from .flow import Flow


class EventSets(Flow):
    """classify(node) -> iterable of event names for a statement or
    expression node; the state is a set of frozensets of events."""

    def __init__(self, classify, cap=64):
        self.classify = classify
        self.cap = cap

    def copy(self, s):
        return set(s)

    def join(self, a, b):
        u = a | b
        if len(u) > self.cap:
            # collapse: keep the union set and the intersection set (sound for
            # 'exists path lacking X' / 'exists path having X' queries)
            alln = frozenset().union(*u)
            inter = frozenset.intersection(*u)
            return {alln, inter}
        return u

    def _add(self, s, evs):
        evs = list(evs)
        if not evs:
            return s
        return {frozenset(x | set(evs)) for x in s}

    def on_stmt(self, st, s):
        return self._add(s, self.classify(st))

    def on_expr(self, e, s, role):
        return self._add(s, self.classify(e))

    def exits(self, func_node, init=None):
        self.run(func_node, init if init is not None else {frozenset()})
        out = set()
        for rnode, st in self.returns:
            if st is not None:
                out |= st
        return out
