"""Front end and program model for the photutils static checkers.

Parses /repo/photutils/**/*.py (tests/, extern/ and version.py excluded) on
every run, builds per-module import tables, per-class method tables with a
local C3 MRO, and resolves callees.  Nothing from photutils is imported or
executed.
"""
from __future__ import annotations

import ast
import os
import sys
import hashlib

REPO = os.environ.get('VERIF_REPO', '/repo')
PKG = 'photutils'


class AnalysisError(Exception):
    """The checker could not do its job (exit 2), never a verdict."""


# ----------------------------------------------------------------------------
# AST helpers
# ----------------------------------------------------------------------------

def set_parents(tree):
    for node in ast.walk(tree):
        for child in ast.iter_child_nodes(node):
            child._parent = node
    tree._parent = None


def parent(node):
    return getattr(node, '_parent', None)


def ancestors(node):
    p = parent(node)
    while p is not None:
        yield p
        p = parent(p)


def enclosing_function(node):
    for a in ancestors(node):
        if isinstance(a, (ast.FunctionDef, ast.AsyncFunctionDef, ast.Lambda)):
            return a
    return None


def enclosing_stmt(node):
    n = node
    while n is not None and not isinstance(n, ast.stmt):
        n = parent(n)
    return n


def dotted(node):
    """Dotted name of a Name/Attribute chain, else None."""
    parts = []
    while isinstance(node, ast.Attribute):
        parts.append(node.attr)
        node = node.value
    if isinstance(node, ast.Name):
        parts.append(node.id)
        return '.'.join(reversed(parts))
    return None


def unparse(node, limit=160):
    try:
        s = ast.unparse(node)
    except Exception:  # pragma: no cover
        s = '<%s>' % type(node).__name__
    s = ' '.join(s.split())
    if limit and len(s) > limit:
        s = s[:limit - 3] + '...'
    return s


def is_docstring_stmt(stmt):
    return (isinstance(stmt, ast.Expr) and isinstance(stmt.value, ast.Constant)
            and isinstance(stmt.value.value, str))


def walk_no_nested(node, include_self=True):
    """Walk a function body without descending into nested defs/lambdas/
    classes (comprehensions are descended)."""
    stack = [node] if include_self else list(ast.iter_child_nodes(node))
    first = True
    while stack:
        n = stack.pop()
        if not first or not include_self:
            if isinstance(n, (ast.FunctionDef, ast.AsyncFunctionDef,
                              ast.ClassDef, ast.Lambda)):
                yield n  # yield the def itself, but do not descend
                continue
        first = False
        yield n
        stack.extend(reversed(list(ast.iter_child_nodes(n))))


def body_nodes(func):
    """All nodes in the body of func (not nested defs' bodies)."""
    for stmt in func.body:
        yield from walk_no_nested(stmt, include_self=False) if False else _walk_stmt(stmt)


def _walk_stmt(stmt):
    stack = [stmt]
    while stack:
        n = stack.pop()
        yield n
        if isinstance(n, (ast.FunctionDef, ast.AsyncFunctionDef, ast.ClassDef,
                          ast.Lambda)) and n is not stmt:
            continue
        if isinstance(n, (ast.FunctionDef, ast.AsyncFunctionDef, ast.ClassDef,
                          ast.Lambda)) and n is stmt:
            continue
        stack.extend(reversed(list(ast.iter_child_nodes(n))))


# ----------------------------------------------------------------------------
# Model
# ----------------------------------------------------------------------------

class Module:
    def __init__(self, name, path, relpath, source, tree, is_pyx=False):
        self.name = name
        self.path = path
        self.relpath = relpath
        self.source = source
        self.lines = source.splitlines()
        self.tree = tree
        self.is_pyx = is_pyx
        self.imports = {}      # local name -> dotted target ('numpy', 'photutils.x.y.func')
        self.functions = {}    # top-level name -> FunctionInfo
        self.classes = {}      # top-level name -> ClassInfo
        self.all = None        # __all__ list or None
        self.assigns = {}      # top-level simple name -> value node


class FunctionInfo:
    def __init__(self, node, module, cls=None, outer=None):
        self.node = node
        self.module = module
        self.cls = cls
        self.outer = outer
        self.name = node.name
        if cls is not None:
            self.qualname = f'{cls.name}.{node.name}'
        elif outer is not None:
            self.qualname = f'{outer.qualname}.<locals>.{node.name}'
        else:
            self.qualname = node.name
        self.fullname = f'{module.name}.{self.qualname}'
        self.decorators = [decorator_name(d) for d in node.decorator_list]
        node._finfo = self

    @property
    def is_lazy(self):
        return 'lazyproperty' in self.decorators

    @property
    def is_property(self):
        return ('property' in self.decorators or self.is_lazy
                or any(d.endswith('.setter') or d.endswith('.getter')
                       for d in self.decorators if d))

    @property
    def is_setter(self):
        return any(d and d.endswith('.setter') for d in self.decorators)

    @property
    def is_static(self):
        return 'staticmethod' in self.decorators

    @property
    def is_classmethod(self):
        return 'classmethod' in self.decorators

    @property
    def params(self):
        a = self.node.args
        ps = [x.arg for x in a.posonlyargs + a.args]
        if a.vararg:
            ps.append(a.vararg.arg)
        ps += [x.arg for x in a.kwonlyargs]
        if a.kwarg:
            ps.append(a.kwarg.arg)
        return ps

    @property
    def pos_params(self):
        a = self.node.args
        return [x.arg for x in a.posonlyargs + a.args]

    @property
    def loc(self):
        return f'{self.module.relpath}:{self.node.lineno}'

    def __repr__(self):
        return f'<fn {self.fullname}>'


class ClassInfo:
    def __init__(self, node, module):
        self.node = node
        self.module = module
        self.name = node.name
        self.fullname = f'{module.name}.{node.name}'
        self.base_names = [dotted(b) for b in node.bases]
        self.bases = []        # resolved ClassInfo (in-repo) or str
        self.methods = {}      # own: name -> list[FunctionInfo] (getter/setter share name)
        self.class_attrs = {}  # own: name -> value node
        self.mro = None
        node._cinfo = self

    def lookup(self, name, setter=False):
        """Find method `name` through the MRO; returns FunctionInfo or None."""
        for c in self.mro:
            if isinstance(c, ClassInfo) and name in c.methods:
                fs = c.methods[name]
                for f in fs:
                    if f.is_setter == setter:
                        return f
                if not setter:
                    return fs[0]
        return None

    def lookup_attr(self, name):
        for c in self.mro:
            if isinstance(c, ClassInfo) and name in c.class_attrs:
                return c, c.class_attrs[name]
        return None

    def all_methods(self):
        """name -> FunctionInfo (getter) for every method visible on the class."""
        out = {}
        for c in reversed(self.mro):
            if isinstance(c, ClassInfo):
                for name, fs in c.methods.items():
                    for f in fs:
                        if not f.is_setter:
                            out[name] = f
        return out

    def all_functions(self):
        out = []
        seen = set()
        for c in self.mro:
            if isinstance(c, ClassInfo):
                for name, fs in c.methods.items():
                    for f in fs:
                        key = (name, f.is_setter)
                        if key not in seen:
                            seen.add(key)
                            out.append(f)
        return out

    def is_subclass_of(self, fullname_or_name):
        for c in self.mro:
            n = c.fullname if isinstance(c, ClassInfo) else c
            if n == fullname_or_name or n.split('.')[-1] == fullname_or_name:
                return True
        return False

    def __repr__(self):
        return f'<class {self.fullname}>'


def decorator_name(d):
    if isinstance(d, ast.Call):
        d = d.func
    n = dotted(d)
    if n is None:
        return ''
    # lazyproperty may be referenced as astropy.utils.lazyproperty
    if n.split('.')[-1] == 'lazyproperty':
        return 'lazyproperty'
    return n


class Repo:
    def __init__(self, root=None, overrides=None):
        self.root = root or REPO
        self.overrides = overrides or {}
        self.local_renames = []
        self.normalizations = []
        self.modules = {}
        self.classes = {}     # fullname -> ClassInfo
        self.functions = {}   # fullname -> FunctionInfo (all, incl. methods & nested)
        self.files_parsed = 0
        self._load()
        self._link()

    # -- loading --------------------------------------------------------
    def _load(self):
        pkgroot = os.path.join(self.root, PKG)
        if not os.path.isdir(pkgroot):
            raise AnalysisError(f'{pkgroot} not found')
        for dirpath, dirnames, filenames in os.walk(pkgroot):
            dirnames[:] = sorted(d for d in dirnames
                                 if d not in ('tests', '__pycache__'))
            for fn in sorted(filenames):
                if not fn.endswith('.py'):
                    continue
                path = os.path.join(dirpath, fn)
                rel = os.path.relpath(path, self.root)
                if rel in ('photutils/version.py', 'photutils/_dev'):
                    continue
                if fn == 'conftest.py':
                    continue
                if rel in self.overrides:
                    src = self.overrides[rel]
                else:
                    with open(path, encoding='utf-8') as fh:
                        src = fh.read()
                try:
                    tree = ast.parse(src, filename=rel)
                except SyntaxError as exc:
                    raise AnalysisError(f'cannot parse {rel}: {exc}')
                mod = rel[:-3].replace(os.sep, '.')
                if mod.endswith('.__init__'):
                    mod = mod[:-9]
                from . import canon, normalize
                done = normalize.apply(tree, mod)
                self.normalizations.extend(d for d in done if d[0] != 'rename')
                self.local_renames.extend(d for d in done if d[0] == 'rename')
                set_parents(tree)
                m = Module(mod, path, rel, src, tree)
                self.modules[mod] = m
                self.files_parsed += 1
        for m in self.modules.values():
            self._index_module(m)

    def _index_module(self, m):
        pkgparts = m.name.split('.')
        is_pkg = m.path.endswith('__init__.py')
        for node in ast.walk(m.tree):
            if isinstance(node, ast.Import):
                for a in node.names:
                    local = a.asname or a.name.split('.')[0]
                    target = a.name if a.asname else a.name.split('.')[0]
                    if enclosing_function(node) is None or local not in m.imports:
                        m.imports[local] = target
            elif isinstance(node, ast.ImportFrom):
                if node.level:
                    base = pkgparts if is_pkg else pkgparts[:-1]
                    if node.level > 1:
                        base = base[:-(node.level - 1)]
                    modname = '.'.join(base + ([node.module] if node.module else []))
                else:
                    modname = node.module or ''
                for a in node.names:
                    local = a.asname or a.name
                    if enclosing_function(node) is None or local not in m.imports:
                        m.imports[local] = f'{modname}.{a.name}'
        for stmt in m.tree.body:
            self._index_stmt(m, stmt)

    def _index_stmt(self, m, stmt):
        if isinstance(stmt, (ast.FunctionDef, ast.AsyncFunctionDef)):
            f = FunctionInfo(stmt, m)
            m.functions[stmt.name] = f
            self.functions[f.fullname] = f
            self._index_nested(f)
        elif isinstance(stmt, ast.ClassDef):
            c = ClassInfo(stmt, m)
            m.classes[stmt.name] = c
            self.classes[c.fullname] = c
            for s in stmt.body:
                if isinstance(s, (ast.FunctionDef, ast.AsyncFunctionDef)):
                    f = FunctionInfo(s, m, cls=c)
                    c.methods.setdefault(s.name, []).append(f)
                    key = f.fullname + ('.setter' if f.is_setter else '')
                    self.functions[key] = f
                    self._index_nested(f)
                elif isinstance(s, ast.Assign):
                    for t in s.targets:
                        if isinstance(t, ast.Name):
                            c.class_attrs[t.id] = s.value
                elif isinstance(s, ast.AnnAssign) and isinstance(s.target, ast.Name) and s.value is not None:
                    c.class_attrs[s.target.id] = s.value
        elif isinstance(stmt, ast.Assign):
            for t in stmt.targets:
                if isinstance(t, ast.Name):
                    m.assigns[t.id] = stmt.value
                    if t.id == '__all__':
                        try:
                            m.all = list(ast.literal_eval(stmt.value))
                        except Exception:
                            m.all = None
        elif isinstance(stmt, (ast.If, ast.Try)):
            for s in ast.iter_child_nodes(stmt):
                if isinstance(s, ast.stmt):
                    self._index_stmt(m, s)

    def _index_nested(self, f):
        for n in _walk_stmt(f.node):
            if n is f.node:
                continue
            if isinstance(n, (ast.FunctionDef, ast.AsyncFunctionDef)):
                g = FunctionInfo(n, f.module, cls=None, outer=f)
                g.owner_cls = f.cls
                self.functions[g.fullname] = g
                self._index_nested(g)

    # -- linking --------------------------------------------------------
    def _link(self):
        for c in self.classes.values():
            c.bases = [self._resolve_class_name(c.module, b) for b in c.base_names]
        for c in self.classes.values():
            c.mro = self._mro(c, ())

    def _resolve_class_name(self, module, name):
        if name is None:
            return '<expr>'
        tgt = self.resolve_name(module, name)
        if isinstance(tgt, ClassInfo):
            return tgt
        return tgt if isinstance(tgt, str) else name

    def _mro(self, c, stack):
        if c.mro is not None:
            return c.mro
        if c in stack:
            raise AnalysisError(f'cyclic inheritance at {c.fullname}')
        seqs = []
        for b in c.bases:
            if isinstance(b, ClassInfo):
                seqs.append(list(self._mro(b, stack + (c,))))
            else:
                seqs.append([b])
        seqs.append([b for b in c.bases])
        res = [c]
        seqs = [s for s in seqs if s]
        while seqs:
            for s in seqs:
                head = s[0]
                if not any(head in t[1:] for t in seqs):
                    break
            else:
                raise AnalysisError(f'inconsistent MRO for {c.fullname}')
            res.append(head)
            for s in seqs:
                if s and s[0] is head or (s and s[0] == head):
                    del s[0]
            seqs = [s for s in seqs if s]
        return res

    # -- name resolution ---------------------------------------------------
    def resolve_dotted(self, target):
        """Resolve a dotted absolute name to an in-repo object if possible."""
        seen = 0
        while seen < 10:
            seen += 1
            if target in self.modules:
                return self.modules[target]
            if '.' not in target:
                return target
            modname, _, attr = target.rpartition('.')
            if modname in self.modules:
                m = self.modules[modname]
                if attr in m.functions:
                    return m.functions[attr]
                if attr in m.classes:
                    return m.classes[attr]
                if attr in m.imports:
                    target = m.imports[attr]
                    continue
                if attr in m.assigns:
                    return ('const', m, attr)
                return target
            # maybe Class.method
            obj = self.resolve_dotted(modname)
            if isinstance(obj, ClassInfo):
                f = obj.lookup(attr)
                return f if f is not None else target
            if isinstance(obj, Module):
                target = obj.name + '.' + attr
                if obj.name == modname:
                    return target
                continue
            return target
        return target

    def resolve_name(self, module, name):
        """Resolve a (possibly dotted) local name used in `module`.

        Returns FunctionInfo, ClassInfo, Module, ('const', module, name) or
        a dotted external string (e.g. 'numpy.asarray'), or None.
        """
        head, _, rest = name.partition('.')
        if head in module.functions and not rest:
            return module.functions[head]
        if head in module.classes:
            c = module.classes[head]
            if not rest:
                return c
            f = c.lookup(rest)
            return f if f is not None else f'{c.fullname}.{rest}'
        if head in module.imports:
            target = module.imports[head] + ('.' + rest if rest else '')
            return self.resolve_dotted(target)
        if head in module.assigns and not rest:
            return ('const', module, head)
        return None

    def get_function(self, fullname):
        f = self.functions.get(fullname)
        if f is None:
            raise AnalysisError(f'vanished anchor: function {fullname} not found')
        return f

    def get_class(self, fullname):
        c = self.classes.get(fullname)
        if c is None:
            raise AnalysisError(f'vanished anchor: class {fullname} not found')
        return c

    def get_module(self, name):
        m = self.modules.get(name)
        if m is None:
            raise AnalysisError(f'vanished anchor: module {name} not found')
        return m

    def method(self, cls_fullname, name, setter=False):
        c = self.get_class(cls_fullname)
        f = c.lookup(name, setter=setter)
        if f is None:
            raise AnalysisError(f'vanished anchor: {cls_fullname}.{name} not found')
        return f

    # -- callee resolution ---------------------------------------------------
    def resolve_call(self, finfo, call, local_types=None):
        """Resolve the callee of `call` occurring in function `finfo`.

        Returns FunctionInfo | ClassInfo (constructor) | str (external dotted
        name or 'self.<unknown>') | None.
        local_types: optional dict local name -> ClassInfo.
        """
        func = call.func
        return self.resolve_expr_callee(finfo, func, local_types)

    def resolve_expr_callee(self, finfo, func, local_types=None):
        module = finfo.module
        cls = finfo.cls or getattr(finfo, 'owner_cls', None)
        if isinstance(func, ast.Name):
            # nested function?
            f = finfo
            while f is not None:
                key = f'{f.fullname}.<locals>.{func.id}'
                if key in self.functions:
                    return self.functions[key]
                f = f.outer
            if local_types and func.id in local_types:
                c = local_types[func.id]
                if isinstance(c, ClassInfo):
                    g = c.lookup('__call__')
                    if g:
                        return g
            r = self.resolve_name(module, func.id)
            if r is not None:
                return r
            return func.id  # builtin or unknown
        if isinstance(func, ast.Attribute):
            base = func.value
            # self.method(...)
            if isinstance(base, ast.Name) and base.id in ('self', 'cls') and cls is not None:
                f = cls.lookup(func.attr)
                if f is not None:
                    return f
                return f'self.{func.attr}'
            if (isinstance(base, ast.Attribute) and isinstance(base.value, ast.Name)
                    and base.value.id == 'self' and local_types
                    and ('self.' + base.attr) in local_types):
                c = local_types['self.' + base.attr]
                if isinstance(c, ClassInfo):
                    g = c.lookup(func.attr)
                    if g:
                        return g
            if (isinstance(base, ast.Call) and isinstance(base.func, ast.Name)
                    and base.func.id == 'super' and cls is not None):
                for c in cls.mro[1:]:
                    if isinstance(c, ClassInfo) and func.attr in c.methods:
                        return c.methods[func.attr][0]
                return f'super.{func.attr}'
            d = dotted(func)
            if d is not None:
                head = d.split('.')[0]
                if local_types and head in local_types and d.count('.') == 1:
                    c = local_types[head]
                    if isinstance(c, ClassInfo):
                        g = c.lookup(func.attr)
                        if g:
                            return g
                r = self.resolve_name(module, d)
                if r is not None:
                    return r
            return f'?.{func.attr}'
        return None

    def digest(self):
        h = hashlib.sha256()
        for name in sorted(self.modules):
            h.update(name.encode())
            h.update(self.modules[name].source.encode())
        return h.hexdigest()[:16]

    # -- public surface ------------------------------------------------------
    def public_names(self, module):
        """Names exported by a module's __all__ (functions/classes defined there)."""
        return list(module.all or [])

    def iter_functions(self, modules=None):
        for f in self.functions.values():
            if modules is None or f.module.name in modules:
                yield f


_repo_cache = {}


def load_repo(root=None, overrides=None):
    root = root or REPO
    if overrides:
        return Repo(root, overrides)
    if root not in _repo_cache:
        _repo_cache[root] = Repo(root)
    return _repo_cache[root]


def norm_stmt_text(node):
    """Normalised statement text used to key findings (no line numbers)."""
    if isinstance(node, (ast.FunctionDef, ast.AsyncFunctionDef, ast.ClassDef)):
        return f'def {node.name}'
    if isinstance(node, (ast.If, ast.While)):
        return type(node).__name__.lower() + ' ' + unparse(node.test, 120)
    if isinstance(node, ast.For):
        return 'for ' + unparse(node.target, 40) + ' in ' + unparse(node.iter, 100)
    if isinstance(node, ast.With):
        return 'with ' + ', '.join(unparse(i.context_expr, 60) for i in node.items)
    if isinstance(node, ast.Try):
        return 'try'
    return unparse(node, 160)
