"""Entry: python -m sa.main <Cxx> [--tier quick|thorough] [--replay file]"""
from __future__ import annotations

import argparse
import importlib
import json
import os
import sys
import time
import traceback

from .core import AnalysisError, load_repo
from . import report


def run_property(prop, tier, repo=None):
    mod = importlib.import_module(f'sa.rules.{prop}')
    repo = repo or load_repo()
    res = mod.run(repo, tier)
    # floors: a rule that matches fewer instances than confirmed by hand is broken
    res.floor_errors = []
    for rule, n in res.floors.items():
        got = res.rule_instances.get(rule, 0)
        if got < n:
            res.floor_errors.append(f'rule {rule} examined {got} instances, floor is {n} '
                                    f'(anchor vanished or rule no longer matches)')
    return res


def main(argv=None):
    ap = argparse.ArgumentParser()
    ap.add_argument('prop')
    ap.add_argument('--tier', default=os.environ.get('VERIF_TIER', 'quick'))
    ap.add_argument('--replay')
    args = ap.parse_args(argv)
    prop = args.prop
    tier = args.tier if args.tier in ('quick', 'thorough') else 'quick'
    seed = int(os.environ.get('VERIF_SEED', '0') or 0)
    t0 = time.time()
    try:
        res = run_property(prop, tier)
        if tier == 'thorough' and not res.floor_errors:
            mod = importlib.import_module(f'sa.rules.{prop}')
            from .rules.livecases import CASES
            from .liveness import run_liveness
            mod.liveness = lambda: CASES[prop]
            run_liveness(prop, mod, res)
            from .liveness import run_seeded
            run_seeded(prop, mod, res)
            from .liveness import run_benign
            run_benign(prop, mod, res)
            from .liveness import run_benign_stored
            run_benign_stored(prop, mod, res)
    except AnalysisError as exc:
        print(f'ANALYSIS-ERROR property={prop} {exc}')
        return 2
    except Exception:
        tb = traceback.format_exc()
        print(f'ANALYSIS-ERROR property={prop} internal error:\n{tb}')
        return 2
    known, new = report.split_findings(prop, res.findings)
    if res.floor_errors and not new:
        # fewer instances than confirmed by hand and nothing reported: the analysis no longer sees the code
        print(f'ANALYSIS-ERROR property={prop} ' + '; '.join(res.floor_errors))
        return 2
    for msg in res.floor_errors:
        print(f'  note: {msg}')
    if args.replay:
        with open(args.replay) as fh:
            want = json.load(fh).get('key')
        hit = [f for f in res.findings if f.key == want]
        if hit:
            print(f'replay: finding still present: {hit[0].loc} {hit[0].message}')
            print(f'VIOLATION property={prop} replay={args.replay}')
            return 1
        print('replay: finding no longer present')
        return 0
    wall = time.time() - t0
    paths = report.write_replays(prop, new)
    report.write_evidence(res, tier, seed, wall, len(new), known)
    print(f'[{prop}] tier={tier} files={load_repo().files_parsed} obligations={res.obligations} '
          f'discharged={res.discharged} rule_instances={res.rule_instances} wall={wall:.2f}s')
    for f, k in known:
        print(f'KNOWN-FINDING: property={prop} {f.rule} {f.loc} {f.func}: {k.get("what", f.message)}')
    for f, p in zip(new, paths):
        print(f'  {f.rule} {f.loc} in {f.func}: {f.message}')
        print(f'VIOLATION property={prop} replay={p}')
    return 1 if new else 0


if __name__ == '__main__':
    sys.exit(main())
