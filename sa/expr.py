"""Expression tools: def-use inlining of straight-line locals and an
algebraic normal form (compiler-style value numbering; no solver, nothing is
executed).  Used by the N-rules that compare what the code computes with the
formula a property states, and by the sibling / mirror rules.
"""
from __future__ import annotations

import ast
import copy
import re

from .core import unparse

NUMERIC_PREFIXES = ('np.ma.', 'numpy.ma.', 'np.', 'numpy.', 'math.', 'scipy.special.')
SYNONYMS = {
    'absolute': 'abs', 'fabs': 'abs', 'arcsin': 'asin', 'arccos': 'acos', 'arctan': 'atan',
    'arctan2': 'atan2', 'power': 'pow', 'true_divide': 'divide',
    'asanyarray': 'asarray', 'nansum': 'nansum',
}
LOGICAL = {'logical_and': 'and', 'logical_or': 'or', 'bitwise_and': 'and', 'bitwise_or': 'or'}


def clone(node):
    """Structural copy of an AST node that does not follow the _parent back links
    (copy.deepcopy would copy the whole module through them)."""
    if isinstance(node, ast.AST):
        new = type(node)()
        for f in node._fields:
            if hasattr(node, f):
                setattr(new, f, clone(getattr(node, f)))
        for a in ('lineno', 'col_offset', 'end_lineno', 'end_col_offset'):
            if hasattr(node, a):
                setattr(new, a, getattr(node, a))
        return new
    if isinstance(node, list):
        return [clone(x) for x in node]
    return node


class Opaque:
    """Marks a local that must not be inlined (assigned in a loop, or more
    than once on different paths)."""


OPAQUE = Opaque()


def _size(node):
    n = 0
    for _ in ast.walk(node):
        n += 1
    return n


def subst(expr, env, depth=0, cap=400):
    """Replace Names bound in env by their (recursively substituted) defining
    expressions.  Definitions are resolved once each (memo), cycles and
    over-large results stay symbolic."""
    memo = {}
    busy = set()

    def resolve(name):
        if name in memo:
            return memo[name]
        v = env.get(name)
        if v is None or v is OPAQUE or name in busy:
            memo[name] = None
            return None
        busy.add(name)
        r = apply(v)
        busy.discard(name)
        if _size(r) > cap:
            r = None
        memo[name] = r
        return r

    def apply(e):
        class T(ast.NodeTransformer):
            def visit_Name(self, node):
                if isinstance(node.ctx, ast.Load) and node.id in env:
                    r = resolve(node.id)
                    if r is not None:
                        return clone(r)
                return node

            def visit_Lambda(self, node):
                return node

            def visit_ListComp(self, node):
                return node

            visit_GeneratorExp = visit_SetComp = visit_DictComp = visit_ListComp
        return T().visit(clone(e))
    return apply(expr)


def env_without(env, name):
    e = dict(env)
    e.pop(name, None)
    return e


def _assigned_in(stmts):
    out = set()
    for st in stmts:
        for n in ast.walk(st):
            if isinstance(n, ast.Name) and isinstance(n.ctx, ast.Store):
                out.add(n.id)
    return out


def _mutated_in(stmts):
    out = set()
    for st in stmts:
        for n in ast.walk(st):
            if isinstance(n, ast.Call) and isinstance(n.func, ast.Attribute) and isinstance(n.func.value, ast.Name) \
                    and n.func.attr in ('append', 'extend', 'insert', 'sort', 'update', 'fill', 'pop', 'remove'):
                out.add(n.func.value.id)
            if isinstance(n, ast.Subscript) and isinstance(n.ctx, ast.Store) and isinstance(n.value, ast.Name):
                out.add(n.value.id)
    return out


class Inliner:
    """Collects, for a function, the expressions it returns / stores / passes
    with straight-line local definitions substituted."""

    def __init__(self, func_node):
        self.func = func_node
        self.returns = []        # (expr (inlined), Return node)
        self.stores = []         # (target (inlined), value (inlined), stmt)
        self.calls = []          # (Call node (inlined), original Call node)
        self.envs = {}           # id(stmt) -> env in force *before* the statement
        self._walk(func_node.body, {})

    MAX_NODES = 80

    def _bind(self, env, target, value):
        if value is not OPAQUE and isinstance(value, ast.AST):
            cnt = 0
            for _ in ast.walk(value):
                cnt += 1
                if cnt > self.MAX_NODES:
                    break
            if cnt > self.MAX_NODES:
                value = OPAQUE     # too large to inline: keep the name
        if isinstance(target, ast.Name):
            env[target.id] = value
        elif isinstance(target, (ast.Tuple, ast.List)):
            if value is not OPAQUE and isinstance(value, (ast.Tuple, ast.List)) \
                    and len(value.elts) == len(target.elts):
                for t, v in zip(target.elts, value.elts):
                    self._bind(env, t, v)
            else:
                for i, t in enumerate(target.elts):
                    if value is not OPAQUE and not isinstance(t, ast.Starred):
                        self._bind(env, t, ast.Subscript(value=value, slice=ast.Constant(value=i), ctx=ast.Load()))
                    else:
                        self._bind(env, t.value if isinstance(t, ast.Starred) else t, OPAQUE)

    def _walk(self, stmts, env):
        for st in stmts:
            self.envs[id(st)] = dict(env)
            for n in ast.walk(st):
                if isinstance(n, ast.Call):
                    pass
            if isinstance(st, ast.Assign):
                val = subst(st.value, env)
                for t in st.targets:
                    if isinstance(t, (ast.Name, ast.Tuple, ast.List)):
                        self._bind(env, t, val)
                    else:
                        self.stores.append((subst(t, env), val, st))
                        # x[...] = v mutates x: its symbolic value is no longer its definition
                        base = t
                        while isinstance(base, (ast.Subscript, ast.Attribute)):
                            base = base.value
                        if isinstance(base, ast.Name) and isinstance(t, ast.Subscript):
                            env[base.id] = OPAQUE if False else env.get(base.id, OPAQUE)
            elif isinstance(st, ast.AnnAssign):
                if st.value is not None and isinstance(st.target, ast.Name):
                    env[st.target.id] = subst(st.value, env)
            elif isinstance(st, ast.AugAssign):
                if isinstance(st.target, ast.Name):
                    cur = env.get(st.target.id)
                    if cur is None:
                        cur = ast.Name(id=st.target.id, ctx=ast.Load())
                    if cur is OPAQUE:
                        env[st.target.id] = OPAQUE
                    else:
                        env[st.target.id] = ast.BinOp(left=cur, op=st.op, right=subst(st.value, env))
                else:
                    self.stores.append((subst(st.target, env),
                                        ast.BinOp(left=subst(st.target, env), op=st.op, right=subst(st.value, env)), st))
            elif isinstance(st, ast.Expr) and isinstance(st.value, ast.Call) \
                    and isinstance(st.value.func, ast.Attribute) and isinstance(st.value.func.value, ast.Name) \
                    and st.value.func.attr in ('append', 'extend', 'insert', 'sort', 'update', 'fill', 'pop', 'remove'):
                # in-place change: the name no longer equals its defining expression
                env[st.value.func.value.id] = OPAQUE
            elif isinstance(st, ast.Return):
                if st.value is not None:
                    self.returns.append((subst(st.value, env), st))
            elif isinstance(st, ast.If):
                e1, e2 = dict(env), dict(env)
                self._walk(st.body, e1)
                self._walk(st.orelse, e2)
                # names whose definitions differ after the branches become opaque
                for k in set(e1) | set(e2):
                    a, b = e1.get(k), e2.get(k)
                    if a is b or (a is not None and b is not None and a is not OPAQUE and b is not OPAQUE
                                  and ast.dump(a) == ast.dump(b)):
                        env[k] = a
                    else:
                        env[k] = OPAQUE
            elif isinstance(st, (ast.For, ast.While, ast.AsyncFor)):
                for k in _assigned_in([st]) | _mutated_in([st]):
                    env[k] = OPAQUE
                self._walk(st.body, dict(env))
                self._walk(st.orelse, dict(env))
                for k in _assigned_in([st]):
                    env[k] = OPAQUE
            elif isinstance(st, (ast.With, ast.AsyncWith)):
                for item in st.items:
                    if item.optional_vars is not None:
                        for k in _assigned_in([item.optional_vars]):
                            env[k] = OPAQUE
                self._walk(st.body, env)
            elif isinstance(st, ast.Try):
                self._walk(st.body, env)
                for h in st.handlers:
                    self._walk(h.body, dict(env))
                for k in _assigned_in(st.handlers):
                    env[k] = OPAQUE
                self._walk(st.orelse, env)
                self._walk(st.finalbody, env)
            elif isinstance(st, (ast.FunctionDef, ast.ClassDef, ast.AsyncFunctionDef)):
                env[st.name] = OPAQUE

    def env_at(self, stmt):
        return self.envs.get(id(stmt), {})


# ---------------------------------------------------------------------------
# normal form
# ---------------------------------------------------------------------------

def _fname(node):
    # a method of a computed value: normalise the receiver too ((a + b).to(...) == (b + a).to(...))
    if isinstance(node, ast.Attribute):
        base = node
        while isinstance(base, ast.Attribute):
            base = base.value
        if not isinstance(base, ast.Name):
            return nf(node.value) + '.' + node.attr
    s = unparse(node, 0)
    for p in NUMERIC_PREFIXES:
        if s.startswith(p):
            s = s[len(p):]
            break
    return SYNONYMS.get(s, s)


_LEN_NONEMPTY = re.compile(r'^(?:lt\(0,(len\(.*\))\)|ne\(0,(len\(.*\))\)|le\(1,(len\(.*\))\))$')
_LEN_EMPTY = re.compile(r'^(?:eq\(0,(len\(.*\))\)|le\((len\(.*\)),0\)|lt\((len\(.*\)),1\))$')


def _len_test(t):
    """len(x) > 0, len(x) != 0, len(x) >= 1 are one test; so are len(x) == 0, len(x) <= 0, len(x) < 1 (a length is never negative)."""
    if 'len(' not in t:
        return t
    for rx, form in ((_LEN_NONEMPTY, 'lt(0,{})'), (_LEN_EMPTY, 'eq(0,{})')):
        m = rx.match(t)
        if m:
            x = next(g for g in m.groups() if g)
            if len(_split_top(x)) == 1:
                return form.format(x)
    return t


def nf(e):
    """Canonical string of an expression."""
    if e is None:
        return 'None'
    if isinstance(e, ast.Constant):
        v = e.value
        if isinstance(v, bool) or v is None or isinstance(v, str):
            return repr(v)
        if isinstance(v, (int, float)):
            return repr(float(v)) if float(v) != int(v) or isinstance(v, float) and False else repr(int(v)) if float(v) == int(v) else repr(v)
        return repr(v)
    if isinstance(e, ast.Name):
        return e.id
    if isinstance(e, ast.Attribute):
        base = e
        while isinstance(base, ast.Attribute):
            base = base.value
        if isinstance(base, ast.Name):      # a pure dotted name: np.sqrt, math.pi
            s = unparse(e, 0)
            for p in NUMERIC_PREFIXES:
                if s.startswith(p):
                    return SYNONYMS.get(s[len(p):], s[len(p):])
        return nf(e.value) + '.' + e.attr
    if isinstance(e, ast.BinOp):
        if isinstance(e.op, (ast.Add, ast.Sub)):
            terms = []
            _flatten_add(e, 1, terms)
            const = 0
            items = []
            for sign, t in terms:
                if isinstance(t, ast.Constant) and isinstance(t.value, (int, float)) and not isinstance(t.value, bool):
                    const += sign * t.value
                else:
                    items.append(('' if sign > 0 else '-') + nf(t))
            items.sort()
            if const != 0 or not items:
                items.append(nf(ast.Constant(value=const)))
            return 'add(' + ','.join(items) + ')' if len(items) > 1 else items[0]
        if isinstance(e.op, ast.Mult):
            fs = []
            _flatten_mul(e, fs)
            const = 1
            items = []
            for t in fs:
                if isinstance(t, ast.Constant) and isinstance(t.value, (int, float)) and not isinstance(t.value, bool):
                    const *= t.value
                else:
                    items.append(nf(t))
            items.sort()
            if const != 1 or not items:
                items.append(nf(ast.Constant(value=const)))
            return 'mul(' + ','.join(items) + ')' if len(items) > 1 else items[0]
        if isinstance(e.op, (ast.BitAnd, ast.BitOr)):
            name = 'and' if isinstance(e.op, ast.BitAnd) else 'or'
            items = []
            _flatten_bool(e, type(e.op), items)
            return name + '(' + ','.join(sorted(nf(t) for t in items)) + ')'
        opn = {ast.Div: 'div', ast.FloorDiv: 'floordiv', ast.Pow: 'pow', ast.Mod: 'mod',
               ast.LShift: 'lshift', ast.RShift: 'rshift', ast.BitXor: 'xor', ast.MatMult: 'matmul'}[type(e.op)]
        return f'{opn}({nf(e.left)},{nf(e.right)})'
    if isinstance(e, ast.UnaryOp):
        if isinstance(e.op, ast.USub):
            if isinstance(e.operand, ast.Constant) and isinstance(e.operand.value, (int, float)):
                return nf(ast.Constant(value=-e.operand.value))
            return '-' + nf(e.operand)
        if isinstance(e.op, ast.UAdd):
            return nf(e.operand)
        if isinstance(e.op, (ast.Invert, ast.Not)):
            inner = e.operand
            return 'not(' + nf(inner) + ')'
    if isinstance(e, ast.BoolOp):
        name = 'and' if isinstance(e.op, ast.And) else 'or'
        parts = []
        for v in e.values:
            t = nf(v)
            # a chained comparison inside an `and` is itself a conjunction: flatten (0 < i < n and ... == 0 < i and i < n and ...)
            if name == 'and' and isinstance(v, ast.Compare) and len(v.ops) > 1 and t.startswith('and(') and t.endswith(')'):
                parts.extend(_split_top(t[4:-1]))
            else:
                parts.append(t)
        return name + '(' + ','.join(sorted(parts)) + ')'
    if isinstance(e, ast.Compare):
        parts = []
        left = e.left
        for op, right in zip(e.ops, e.comparators):
            a, b = nf(left), nf(right)
            if isinstance(op, ast.Gt):
                parts.append(f'lt({b},{a})')
            elif isinstance(op, ast.GtE):
                parts.append(f'le({b},{a})')
            elif isinstance(op, ast.Lt):
                parts.append(f'lt({a},{b})')
            elif isinstance(op, ast.LtE):
                parts.append(f'le({a},{b})')
            elif isinstance(op, ast.Eq):
                parts.append('eq(' + ','.join(sorted([a, b])) + ')')
            elif isinstance(op, ast.NotEq):
                parts.append('ne(' + ','.join(sorted([a, b])) + ')')
            else:
                parts.append(f'{type(op).__name__.lower()}({a},{b})')
            left = right
        parts = [_len_test(p_) for p_ in parts]
        return parts[0] if len(parts) == 1 else 'and(' + ','.join(sorted(parts)) + ')'
    if isinstance(e, ast.Call):
        fn = _fname(e.func)
        args = [nf(a) for a in e.args]
        if fn in LOGICAL and len(args) >= 2 and not e.keywords:
            return LOGICAL[fn] + '(' + ','.join(sorted(args)) + ')'
        if fn in ('logical_not', 'invert', 'bitwise_not') and len(args) == 1:
            return 'not(' + args[0] + ')'
        if fn in ('greater',) and len(args) == 2:
            return f'lt({args[1]},{args[0]})'
        if fn in ('less',) and len(args) == 2:
            return f'lt({args[0]},{args[1]})'
        if fn in ('greater_equal',) and len(args) == 2:
            return f'le({args[1]},{args[0]})'
        if fn in ('less_equal',) and len(args) == 2:
            return f'le({args[0]},{args[1]})'
        if fn in ('add', 'multiply') and len(args) == 2 and not e.keywords:
            return nf(ast.BinOp(left=e.args[0], op=ast.Add() if fn == 'add' else ast.Mult(), right=e.args[1]))
        if fn in ('subtract',) and len(args) == 2 and not e.keywords:
            return nf(ast.BinOp(left=e.args[0], op=ast.Sub(), right=e.args[1]))
        if fn in ('divide',) and len(args) == 2 and not e.keywords:
            return f'div({args[0]},{args[1]})'
        if fn == 'sqrt' and len(args) == 1 and not e.keywords:
            return f'pow({args[0]},0.5)'
        if fn == 'square' and len(args) == 1:
            return f'pow({args[0]},2)'
        # np.array(X).astype(T) builds the same new array as np.array(X, dtype=T)
        if isinstance(e.func, ast.Attribute) and e.func.attr == 'astype' and len(e.args) == 1 and not e.keywords \
                and isinstance(e.func.value, ast.Call) and _fname(e.func.value.func) in ('array',) \
                and not any(k.arg == 'dtype' for k in e.func.value.keywords) and len(e.func.value.args) == 1:
            inner_ = e.func.value
            kws_ = sorted([(k.arg or '**') + '=' + nf(k.value) for k in inner_.keywords] + ['dtype=' + nf(e.args[0])])
            return 'array(' + ','.join([nf(a) for a in inner_.args] + kws_) + ')'
        kws = sorted((k.arg or '**') + '=' + nf(k.value) for k in e.keywords)
        return fn + '(' + ','.join(args + kws) + ')'
    if isinstance(e, ast.Subscript):
        sl = e.slice
        # a[np.where(mask)] selects the same elements as a[mask]
        if isinstance(sl, ast.Call) and _fname(sl.func) in ('where', 'nonzero') and len(sl.args) == 1 and not sl.keywords:
            sl = sl.args[0]
        return nf(e.value) + '[' + _nf_index(sl) + ']'
    if isinstance(e, (ast.Tuple, ast.List)):
        return ('(' if isinstance(e, ast.Tuple) else '[') + ','.join(nf(x) for x in e.elts) + (')' if isinstance(e, ast.Tuple) else ']')
    if isinstance(e, ast.IfExp):
        t, a, b = nf(e.test), nf(e.body), nf(e.orelse)
        # one polarity: `x if not c else y` == `y if c else x`; an emptiness test is the negation of a non-emptiness test
        if t.startswith('eq(0,len(') and t.endswith('))'):
            t, a, b = 'lt(0,' + t[5:], b, a
        elif t.startswith('not(') and t.endswith(')') and len(_split_top(t[4:-1])) == 1:
            t, a, b = t[4:-1], b, a
        return f'ifexp({t},{a},{b})'
    if isinstance(e, ast.Starred):
        return '*' + nf(e.value)
    if isinstance(e, ast.Lambda):
        return 'lambda ' + unparse(e.args, 0) + ': ' + nf(e.body)
    if isinstance(e, (ast.ListComp, ast.GeneratorExp, ast.SetComp)):
        br = {'ListComp': '[]', 'GeneratorExp': '()', 'SetComp': '{}'}[type(e).__name__]
        return br[0] + nf(e.elt) + ''.join(_nf_comp(g) for g in e.generators) + br[1]
    if isinstance(e, ast.DictComp):
        return '{' + nf(e.key) + ': ' + nf(e.value) + ''.join(_nf_comp(g) for g in e.generators) + '}'
    if isinstance(e, ast.Dict):
        return '{' + ', '.join(('**' if k is None else nf(k) + ': ') + nf(v) for k, v in zip(e.keys, e.values)) + '}'
    if isinstance(e, ast.NamedExpr):
        return '(' + nf(e.target) + ' := ' + nf(e.value) + ')'
    return unparse(e, 0)


def _nf_comp(g):
    return ' for ' + nf(g.target) + ' in ' + nf(g.iter) + ''.join(' if ' + nf(c) for c in g.ifs)


def _split_top(t):
    """Split a normal-form argument list at top-level commas."""
    out, depth, cur = [], 0, ''
    for ch in t:
        if ch in '([{':
            depth += 1
        elif ch in ')]}':
            depth -= 1
        if ch == ',' and depth == 0:
            out.append(cur)
            cur = ''
        else:
            cur += ch
    out.append(cur)
    return out


def _nf_index(s):
    if isinstance(s, ast.Slice):
        return ':'.join('' if x is None else nf(x) for x in (s.lower, s.upper, s.step))
    if isinstance(s, ast.Tuple):
        return ','.join(_nf_index(x) for x in s.elts)
    return nf(s)


def _flatten_add(e, sign, out):
    if isinstance(e, ast.BinOp) and isinstance(e.op, ast.Add):
        _flatten_add(e.left, sign, out)
        _flatten_add(e.right, sign, out)
    elif isinstance(e, ast.BinOp) and isinstance(e.op, ast.Sub):
        _flatten_add(e.left, sign, out)
        _flatten_add(e.right, -sign, out)
    elif isinstance(e, ast.UnaryOp) and isinstance(e.op, ast.USub):
        _flatten_add(e.operand, -sign, out)
    else:
        out.append((sign, e))


def _flatten_mul(e, out):
    if isinstance(e, ast.BinOp) and isinstance(e.op, ast.Mult):
        _flatten_mul(e.left, out)
        _flatten_mul(e.right, out)
    else:
        out.append(e)


def _flatten_bool(e, op, out):
    if isinstance(e, ast.BinOp) and isinstance(e.op, op):
        _flatten_bool(e.left, op, out)
        _flatten_bool(e.right, op, out)
    else:
        out.append(e)


def nf_text(text):
    return nf(ast.parse(text, mode='eval').body)


def returned_nfs(func_node):
    """Normal forms of every returned expression (locals inlined)."""
    inl = Inliner(func_node)
    return [nf(e) for e, _ in inl.returns], inl


def mentions(expr, text):
    """Does normal form of some sub-expression equal nf(text)?"""
    want = nf_text(text)
    for n in ast.walk(expr):
        if isinstance(n, ast.expr):
            try:
                if nf(n) == want:
                    return True
            except Exception:
                continue
    return False


def rename(expr, mapping):
    """Alpha-rename identifiers / attribute names / string constants."""
    class T(ast.NodeTransformer):
        def visit_Name(self, node):
            if node.id in mapping:
                return ast.copy_location(ast.Name(id=mapping[node.id], ctx=node.ctx), node)
            return node

        def visit_Attribute(self, node):
            self.generic_visit(node)
            if node.attr in mapping:
                node.attr = mapping[node.attr]
            return node

        def visit_Constant(self, node):
            if isinstance(node.value, str) and node.value in mapping:
                return ast.copy_location(ast.Constant(value=mapping[node.value]), node)
            return node

        def visit_keyword(self, node):
            self.generic_visit(node)
            if node.arg in mapping:
                node.arg = mapping[node.arg]
            return node
    return T().visit(clone(expr))
