"""C13 - PSF/PRF models: structural clauses (normalisation constants and numerics are not decided)."""
from __future__ import annotations

import ast

from ..core import AnalysisError, norm_stmt_text, unparse
from ..report import Finding, Result
from ..expr import nf, nf_text
from ..axis import mirror_compare, body_without_doc
from .. import spec as SP
from .common import run_axis, expect_stmt, run_deadstore, run_class_mutable
from .C09 import run_L5
from .C10 import collect as a1_collect
from . import lazyrules as LR

PROP = 'C13'
FM = 'photutils.psf.functional_models'
MODS = {FM, 'photutils.psf.image_models', 'photutils.psf.gridded_models', 'photutils.psf.model_helpers'}

# T-MIRROR copy-paste finding that is a listed known finding (deprecated class)
def shared_definitions(repo, res):
    """evaluate and fit_deriv of one model agree on every quantity they both define."""
    m = repo.get_module(FM)
    n = 0
    for cn, c in m.classes.items():
        ev, fd = c.methods.get('evaluate'), c.methods.get('fit_deriv')
        if not ev or not fd:
            continue
        def assigned(f):
            names = {}
            for s_ in ast.walk(f.node):
                if isinstance(s_, ast.Assign) and len(s_.targets) == 1 and isinstance(s_.targets[0], ast.Name):
                    names.setdefault(s_.targets[0].id, []).append(s_.value)
            return names
        ae, ad = assigned(ev[0]), assigned(fd[0])

        def defs(own, other):
            from ..expr import subst
            # helper locals that exist only in this function (single assignment) are inlined;
            # names both functions define stay symbolic (they are compared on their own)
            env = {k: v[0] for k, v in own.items() if len(v) == 1 and k not in other
                   and sum(1 for _ in ast.walk(v[0])) <= 12}
            out = {}
            for k, vals in own.items():
                v = vals[0]
                if sum(1 for _ in ast.walk(v)) <= 40 and env:
                    v = subst(v, {a_: b_ for a_, b_ in env.items() if a_ != k}, depth=9)
                out[k] = nf(v)
            return out
        de, dd = defs(ae, ad), defs(ad, ae)
        for name in sorted(set(de) & set(dd)):
            n += 1
            ok = de[name] == dd[name]
            res.oblige('SIB', f'{cn}: evaluate and fit_deriv define `{name}` identically', ok, nontrivial=True,
                       sample={'model': cn, 'name': name, 'nf': de[name][:100]})
            if not ok:
                res.add(Finding('SIB', fd[0].fullname, f'{name} = ...', fd[0].loc,
                                f'{cn}: `{name}` is `{de[name]}` in evaluate but `{dd[name]}` in fit_deriv: the analytic derivatives no '
                                f'longer belong to the evaluated function', {}))
    return n


def prf_pattern(repo, res):
    """Pixel-integrated models: flux/4 * [erf((X+d)/s) - erf((X-d)/s)] * [same in Y], d = 0.5."""
    m = repo.get_module(FM)
    n = 0
    for cn, c in m.classes.items():
        ev = c.methods.get('evaluate')
        if not ev or 'erf' not in ast.unparse(ev[0].node):
            continue
        f = ev[0]
        n += 1
        rets = [r for r in ast.walk(f.node) if isinstance(r, ast.Return) and r.value is not None]
        ok = len(rets) == 1
        xf = yf = None
        if ok:
            v = rets[0].value
            # flux / 4 * (XF * YF)
            from ..expr import _flatten_mul
            from ..axis import name_tag
            fs = []
            _flatten_mul(v, fs)
            pre = [t for t in fs if nf(t) == nf_text('flux / 4')]
            rest = [t for t in fs if nf(t) != nf_text('flux / 4')]
            ok = len(fs) == 3 and len(pre) == 1 and len(rest) == 2

            def axis_of(t):
                tags = [name_tag(x.id) for x in ast.walk(t) if isinstance(x, ast.Name)]
                return 'X' if tags.count('X') > tags.count('Y') else 'Y' if tags.count('Y') > tags.count('X') else None
            if ok:
                ax = [axis_of(t) for t in rest]
                if ax == ['X', 'Y']:
                    xf, yf = rest
                elif ax == ['Y', 'X']:
                    yf, xf = rest
                else:
                    xf, yf = rest
        res.oblige('PRF', f'{cn}.evaluate = flux/4 * (x erf difference) * (y erf difference)', ok, nontrivial=True)
        if not ok:
            res.add(Finding('PRF', f.fullname, 'pixel-integration pattern', f.loc,
                            f'{cn}.evaluate must be flux/4 times the product of one erf difference per axis', {}))
            continue
        for fac, axis in ((xf, 'x'), (yf, 'y')):
            okf = isinstance(fac, ast.BinOp) and isinstance(fac.op, ast.Sub) and all(
                isinstance(t, ast.Call) and unparse(t.func, 0) == 'erf' for t in (fac.left, fac.right))
            if okf:
                a, b = fac.left.args[0], fac.right.args[0]
                # (X + dpix)/S and (X - dpix)/S with the same X and S
                okf = all(isinstance(t, ast.BinOp) and isinstance(t.op, ast.Div) for t in (a, b)) and nf(a.right) == nf(b.right) \
                    and isinstance(a.left, ast.BinOp) and isinstance(b.left, ast.BinOp) \
                    and nf(ast.BinOp(left=a.left, op=ast.Sub(), right=ast.Name(id='dpix', ctx=ast.Load()))) == \
                    nf(ast.BinOp(left=b.left, op=ast.Add(), right=ast.Name(id='dpix', ctx=ast.Load())))
            res.oblige('PRF', f'{cn}.evaluate {axis}-factor integrates from -dpix to +dpix with one width', okf, nontrivial=True)
            if not okf:
                res.add(Finding('PRF', f.fullname, f'{axis} erf factor', f.loc,
                                f'{cn}.evaluate: the {axis} factor must be erf((u + dpix)/s) - erf((u - dpix)/s) with the same u and s in both terms', {}))
        kind, diffs = mirror_compare(xf, yf)
        okm = kind == 'mirror'
        res.oblige('PRF', f'{cn}.evaluate: the y factor is the x factor with x -> y', okm, nontrivial=True)
        if not okm:
            res.add(Finding('PRF', f.fullname, 'x/y erf factors', f.loc,
                            f'{cn}.evaluate: the y erf factor is not the axis mirror of the x factor (a width or offset of the other axis '
                            f'was used): {diffs}', {}))
        d = [s for s in ast.walk(f.node) if isinstance(s, ast.Assign) and unparse(s.targets[0]) == 'dpix']
        okd = len(d) == 1 and nf(d[0].value) == '0.5'
        res.oblige('PRF', f'{cn}.evaluate integrates over one pixel (dpix = 0.5)', okd, nontrivial=True)
        if not okd:
            res.add(Finding('PRF', f.fullname, 'dpix', f.loc, f'{cn}.evaluate: the pixel half-width dpix must be 0.5', {}))
    g = repo.method(f'{FM}.GaussianPRF', 'evaluate')
    for name, forms in (('x0', ['dx * cost + dy * sint']), ('y0', ['-dx * sint + dy * cost']), ('dx', ['x - x_0']), ('dy', ['y - y_0']),
                        ('cost', ['np.cos(theta)']), ('sint', ['np.sin(theta)'])):
        d = [s for s in ast.walk(g.node) if isinstance(s, ast.Assign) and unparse(s.targets[0]) == name]
        ok = len(d) == 1 and nf(d[0].value) in [nf_text(x) for x in forms]
        res.oblige('SPEC', f'GaussianPRF: {name} = {forms[0]} (counter-clockwise rotation, same convention as GaussianPSF)', ok, nontrivial=True)
        if not ok:
            res.add(Finding('SPEC', g.fullname, f'{name} definition', g.loc,
                            f'GaussianPRF.evaluate: `{name}` must be `{forms[0]}`: the rotated frame must follow the counter-clockwise '
                            f'theta convention of GaussianPSF (b = sin2t/2sx^2 - sin2t/2sy^2)', {}))
    return n


def image_models(repo, res):
    f = repo.method('photutils.psf.image_models.ImagePSF', 'evaluate')
    for w, meaning in (('xi = ' + nf_text('self.oversampling[1] * (np.asarray(x, dtype=float) - x_0) + self._origin[0]'),
                        'x index = x oversampling * (x - x_0) + x origin (oversampling is (y, x), origin is (x, y))'),
                       ('yi = ' + nf_text('self.oversampling[0] * (np.asarray(y, dtype=float) - y_0) + self._origin[1]'),
                        'y index = y oversampling * (y - y_0) + y origin'),
                       ('evaluated_model = ' + nf_text('flux * self.interpolator(xi, yi, grid=False)'), 'spline evaluated at (xi, yi), times flux'),
                       (nf_text('(ny, nx)') + ' = self.data.shape', 'shape unpacked as (ny, nx)'),
                       ('invalid = ' + nf_text('(xi < 0) | (xi > nx - 1) | (yi < 0) | (yi > ny - 1)'), 'outside-the-grid test uses both axes with the matching size'),
                       (nf_text('evaluated_model[invalid]') + ' = self.fill_value', 'fill_value outside the input grid')):
        expect_stmt(res, 'SPEC', f, w, meaning)
    # bounding box = footprint of the valid index range of evaluate(): 0 <= ov*(x - x_0) + origin <= n - 1  <=>
    # x in x_0 + ((n-1)/2 - origin)/ov -+ (n-1)/2/ov  (the box used is half a sample wider: n/2/ov)
    b = repo.method('photutils.psf.image_models.ImagePSF', '_calc_bounding_box')
    for w, meaning in (('xshift = ' + nf_text('(np.array(self.data.shape[1] - 1) / 2 - self.origin[0]) / self.oversampling[1]'), 'x shift = (array centre minus origin) in model pixels (origin is (x, y), oversampling is (y, x))'),
                       ('yshift = ' + nf_text('(np.array(self.data.shape[0] - 1) / 2 - self.origin[1]) / self.oversampling[0]'), 'y shift = (array centre minus origin) in model pixels'),
                       (nf_text('(dy, dx)') + ' = ' + nf_text('np.array(self.data.shape) / 2 / self.oversampling'), 'half sizes in (y, x) order')):
        expect_stmt(res, 'SPEC', b, w, meaning)
    SP.returns_match(repo, res, 'SPEC', 'photutils.psf.image_models.ImagePSF._calc_bounding_box',
                     ['((self.y_0 - dy + yshift, self.y_0 + dy + yshift), (self.x_0 - dx + xshift, self.x_0 + dx + xshift))'],
                     'bounding box ((y_min, y_max), (x_min, x_max)) around (x_0, y_0) plus the origin shift')
    g = repo.method('photutils.psf.gridded_models.GriddedPSFModel', '_find_bounding_points')
    for w, meaning in (('xidx = ' + nf_text('np.searchsorted(self._xgrid, x) - 1'), 'cell index along x'),
                       ('yidx = ' + nf_text('np.searchsorted(self._ygrid, y) - 1'), 'cell index along y'),
                       ('xidx = ' + nf_text('np.clip(xidx, 0, len(self._xgrid) - 2)'), 'clipped to the grid (nearest edge outside)'),
                       ('yidx = ' + nf_text('np.clip(yidx, 0, len(self._ygrid) - 2)'), 'clipped to the grid'),
                       ('grid_idx = ' + nf_text('np.array((lower_left, lower_right, upper_left, upper_right))'), 'corner order ll, lr, ul, ur'),
                       ('grid_xy = ' + nf_text('np.array((x0, x1, y0, y1))'), 'cell bounds (x0, x1, y0, y1)')):
        expect_stmt(res, 'SPEC', g, w, meaning)
    for nm, xs, ys in (('lower_left', 'x0', 'y0'), ('lower_right', 'x1', 'y0'), ('upper_left', 'x0', 'y1'), ('upper_right', 'x1', 'y1')):
        expect_stmt(res, 'SPEC', g, f'{nm} = ' + nf_text(f'np.where((xcoords == {xs}) & (ycoords == {ys}))[0][0]'), f'{nm} corner = ({xs}, {ys})')


def run(repo, tier):
    res = Result(PROP)
    res.explanation = (
        'Structural clauses decided: PRF (every pixel-integrated model is flux/4 times one erf difference per axis over +-0.5 pixel with one '
        'width per axis; the y factor is the exact axis mirror of the x factor), SPEC (GaussianPRF rotation convention; ImagePSF index '
        'transform: oversampling is (y, x), origin is (x, y), fill test over both axes; GriddedPSFModel cell lookup with clipping and corner '
        'order), SIB (evaluate and fit_deriv of a model define shared quantities identically), history clause: L5 (interpolator memo keyed '
        'by the lookup argument; values depend on immutable fields only), CLASS-MUTABLE (no mutable class attribute is modified through '
        'instances), L1 on the lazy model classes; T-AXIS/T-MIRROR, DEADSTORE, A1.')
    res.not_decided = ('NOT decided: normalisation constants (2 pi, 4 ln 2, Moffat/Airy factors), flux = 1 integrals, non-negativity, circular == '
                       'elliptical at equal widths, bilinear blend values: a wrong constant is invisible to these rules.')
    res.assumptions = ['scipy erf / RectBivariateSpline have their documented meaning']
    shared_definitions(repo, res)
    prf_pattern(repo, res)
    image_models(repo, res)
    run_L5(repo, res)
    run_class_mutable(repo, res, MODS)
    lcs = LR.lazy_classes(repo, only={'photutils.psf.gridded_models.GriddedPSFModel', 'photutils.psf.image_models.ImagePSF'})
    LR.run_L1(repo, res, PROP, lcs)
    run_axis(repo, res, MODS)
    run_deadstore(repo, res, MODS)
    a1_collect(repo, res, modules=MODS)
    res.floor('SIB', 10)
    res.floor('PRF', 12)
    res.floor('SPEC', 20)
    res.floor('L5', 1)
    from .common import run_clone_pairs
    run_clone_pairs(repo, res, {m for m in repo.modules if m.startswith('photutils.psf') and '.tests' not in m})
    from .common import apply_specs, guard_only
    apply_specs(repo, res, [
        (FM + '.AiryDiskPSF.evaluate', 'stmt', 'r = r.to_value(u.dimensionless_unscaled)',
         'the scaled radius is reduced to a pure number (unit ratios such as cm/mm folded in) before the Bessel function'),
    ])
    bw = repo.method('photutils.psf.gridded_models.GriddedPSFModel', '_calc_bilinear_weights')
    for axn in ('xi', 'yi'):
        hits = [a_ for a_ in ast.walk(bw.node) if isinstance(a_, ast.Assign) and unparse(a_.targets[0], 0) == axn
                and isinstance(a_.value, ast.Call) and unparse(a_.value.func, 0).endswith('clip')]
        if len(hits) != 1:
            raise AnalysisError(f'vanished anchor: clip of {axn} in _calc_bilinear_weights')
        guard_only(res, 'GUARD', bw, hits[0], set(), f'the clip of `{axn}` to its cell',
                   'outside the grid along one axis the weights are extrapolated (negative weight) instead of taking the nearest edge')
    apply_specs(repo, res, [
        ('photutils.psf.gridded_models.GriddedPSFModel.origin', 'stmt', 'xyorigin = (np.array(self.data.shape) - 1) / 2',
         'ePSF origin = centre of the array, (n - 1) / 2 (half-integer for even sizes)'),
    ])
    from .common import run_generic_pack
    run_generic_pack(repo, res, PROP, MODS)
    return res
