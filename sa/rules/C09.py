"""C09 - results never depend on access order or on earlier calls.

L1  every mutator invalidates every dependent cache          (all lazy classes)
L2  no value-changing branch on cache presence
L3  kill/use typestate with path guards (memory-saving deletions)
L4  descriptor-driven invalidation of aperture caches
L5  memo-key completeness (GriddedPSFModel interpolator cache)
A2  getters do not modify stored state in place
ECALL  re-entrancy of configured callables
"""
from __future__ import annotations

import ast

from ..core import ClassInfo, norm_stmt_text, enclosing_stmt, AnalysisError, unparse
from ..report import Finding, Result
from ..flow import Flow
from ..lazy import LazyClass, self_attr, self_dict_key, is_self, KillUse
from ..ecall import CallFlow, call_like_entries, init_config_fields
from ..alias import MUTATING_METHODS
from . import lazyrules as LR
from .C10 import get_alias

PROP = 'C09'

CALL_LIKE = [
    ('photutils.isophote.ellipse.Ellipse', 'fit_image'),
    ('photutils.isophote.ellipse.Ellipse', 'fit_isophote'),
    ('photutils.psf.epsf.EPSFBuilder', 'build_epsf'),
]

# getter -> (field, sink function) exemptions for A2, one reason each
A2_EXEMPT = {
    ('SourceCatalog.centroid_win', '_extra_properties', 'SourceCatalog.add_extra_property'):
        'fluxfrac_radius registers an extra property only when called with name=...; centroid_win calls it without a name',
    ('SourceCatalog.centroid_win', '_error', 'SourceCatalog.fluxfrac_radius'):
        '`args = fluxfrac_args[:-1]` is a slice copy of a python list (merged container contents)',
    ('SourceCatalog.centroid_win', '_fluxfrac_optimizer_args', 'SourceCatalog.fluxfrac_radius'):
        '`args = fluxfrac_args[:-1]` is a slice copy of a python list',
}


def observable(cls, attr):
    """Read somewhere in the class other than as receiver of an in-place method."""
    if not attr.startswith('_'):
        return True
    for f in cls.all_functions():
        for n in ast.walk(f.node):
            if self_attr(n) == attr and isinstance(n.ctx, ast.Load):
                p = getattr(n, '_parent', None)
                if isinstance(p, ast.Attribute) and p.attr in MUTATING_METHODS:
                    pp = getattr(p, '_parent', None)
                    if isinstance(pp, ast.Call) and pp.func is p:
                        continue
                return True
    return False


def run_ECALL(repo, res, ft):
    entries = call_like_entries(repo, CALL_LIKE)
    res.inst('ECALL-entries', len(entries))
    for c, f in entries:
        cf = CallFlow(c, f).analyse()
        cfg = init_config_fields(c)
        for a, ws in sorted(cf.writes.items()):
            obs = observable(c, a)
            # attribute stores on an object held in a field: config only when
            # the object is the caller's (depth-0 taint)
            for st, fi in ws:
                partial = not any(self_attr(t) == a for t in _targets(st))
                is_cfg = a in cfg
                if partial:
                    is_cfg = bool(ft.sources(c, a, 0)) and _is_attr_store(st, a)
                ok = not is_cfg
                res.oblige('ECALL-config', f'{c.name}.{f.name}: write `{norm_stmt_text(st)}` does not overwrite configuration',
                           ok, nontrivial=True,
                           sample={'class': c.fullname, 'entry': f.qualname, 'attr': a, 'in': fi.qualname})
                if not ok:
                    res.add(Finding(
                        'ECALL', fi.fullname, norm_stmt_text(st), f'{fi.module.relpath}:{st.lineno}',
                        f'{c.name}.{f.name} overwrites configuration `self.{a}` (set by __init__ from a constructor '
                        f'argument) at `{norm_stmt_text(st)}` in {fi.qualname}: later calls see the changed configuration',
                        {'class': c.fullname, 'entry': f.qualname, 'attr': a}))
            if a in cfg or not obs:
                continue
            for node, fi in cf.early_reads.get(a, []):
                st = enclosing_stmt(node)
                # the write itself may be the early read (self.a.append(x))
                res.oblige('ECALL-reset', f'{c.name}.{f.name}: `{a}` assigned before `{norm_stmt_text(st)}`',
                           False, nontrivial=True,
                           sample={'class': c.fullname, 'attr': a, 'read_in': fi.qualname})
                res.add(Finding(
                    'ECALL', fi.fullname, norm_stmt_text(st), f'{fi.module.relpath}:{node.lineno}',
                    f'{c.name}.{f.name} uses per-call attribute `self.{a}` at `{norm_stmt_text(st)}` before assigning '
                    f'it on every path in this call: the value left by an earlier call leaks into this one',
                    {'class': c.fullname, 'entry': f.qualname, 'attr': a}))
            if a not in cf.early_reads:
                res.oblige('ECALL-reset', f'{c.name}.{f.name}: `{a}` is assigned before every read in the call', True,
                           nontrivial=True, sample={'class': c.fullname, 'attr': a})


def _targets(st):
    if isinstance(st, ast.Assign):
        out = []
        for t in st.targets:
            out.extend(t.elts if isinstance(t, (ast.Tuple, ast.List)) else [t])
        return out
    if isinstance(st, (ast.AugAssign, ast.AnnAssign)):
        return [st.target]
    return []


def _is_attr_store(st, a):
    for t in _targets(st):
        if isinstance(t, ast.Attribute) and self_attr(t.value) == a:
            return True
    return False


def run_A2(repo, res, d):
    """Getters (property / lazyproperty) must not modify stored state in place."""
    for c in repo.classes.values():
        for fs in c.methods.values():
            for f in fs:
                if not (f.is_property and not f.is_setter):
                    continue
                sm = d.summary(f)
                bad = []
                for fld, sites in sm.mutf.items():
                    for s in sites.values():
                        why = A2_EXEMPT.get((f.qualname, fld, s.finfo.qualname))
                        if why is None:
                            bad.append((fld, s))
                res.oblige('A2', f'getter {f.qualname} modifies no stored array/container in place',
                           not bad, nontrivial=bool(sm.mutf),
                           sample={'getter': f.fullname, 'fields_mutated': sorted(sm.mutf)} if sm.mutf else None)
                for fld, s in bad:
                    res.add(Finding(
                        'A2', s.finfo.fullname, norm_stmt_text(s.stmt), s.loc,
                        f'evaluating {f.qualname} modifies the object stored in `self.{fld}` in place '
                        f'({s.describe()}): what other attributes return afterwards depends on the access order',
                        {'getter': f.fullname, 'field': fld}))


class _ResetMust(Flow):
    """Must-analysis: reset call seen (or provably unnecessary) before the store."""

    def __init__(self, f):
        self.f = f
        self.bad = []
        self.stores = 0

    def copy(self, s):
        return s

    def join(self, a, b):
        return a and b

    def _is_reset(self, call):
        return (isinstance(call, ast.Call) and isinstance(call.func, ast.Attribute)
                and is_self(call.func.value) and call.func.attr == '_reset_lazyproperties')

    def branch(self, test, s):
        # `self.name in instance.__dict__` false => nothing cached yet, no reset needed
        if isinstance(test, ast.Compare) and len(test.ops) == 1 and isinstance(test.ops[0], ast.In) \
                and unparse(test.left) == 'self.name' and unparse(test.comparators[0]) == 'instance.__dict__':
            return s, True
        return s, s

    def on_stmt(self, st, s):
        for n in ast.walk(st):
            if self._is_reset(n):
                s = True
        if isinstance(st, ast.Assign):
            for t in st.targets:
                if isinstance(t, ast.Subscript) and unparse(t.value) == 'instance.__dict__':
                    self.stores += 1
                    if not s:
                        self.bad.append(st)
        return s


def run_L4(repo, res):
    mod = repo.get_module('photutils.aperture.attributes')
    base = repo.get_class('photutils.aperture.attributes.ApertureAttribute')
    n = 0
    # the array-valued descriptor stores a private copy: an aperture that holds the caller's
    # array changes its positions (and keeps its cached bbox/mask) when the caller edits the array
    from .C10 import get_alias
    d, _ft = get_alias(repo)
    pv = repo.functions.get('photutils.aperture.attributes.PixelPositions._validate')
    if pv is None:
        raise AnalysisError('vanished anchor: PixelPositions._validate')
    shared = sorted(o for o in d.summary(pv).ret if o[0] in ('P', 'Pi') and o[1] not in ('self',))
    res.oblige('L4', 'PixelPositions._validate returns a fresh array (never the caller\'s array or a view of it)', not shared,
               nontrivial=True, sample={'function': pv.fullname, 'returned_origins': [list(o) for o in d.summary(pv).ret]})
    if shared:
        rets = [n_ for n_ in ast.walk(pv.node) if isinstance(n_, ast.Return) and n_.value is not None]
        res.add(Finding('L4', pv.fullname, 'returns caller array', f'{pv.module.relpath}:{rets[-1].lineno if rets else pv.node.lineno}',
                        f'PixelPositions._validate may return the caller\'s `{shared[0][1]}` itself (no copy on every path): the aperture '
                        f'then shares its positions with the caller, so editing that array moves the aperture without resetting its caches', {}))
    for c in mod.classes.values():
        if not c.is_subclass_of(base.fullname) or '__set__' not in c.methods:
            continue
        f = c.methods['__set__'][0]
        rm = _ResetMust(f)
        rm.run(f.node, False)
        n += 1
        ok = not rm.bad and rm.stores >= 1
        res.oblige('L4', f'{c.name}.__set__ resets the instance caches on every path before storing', ok,
                   nontrivial=True, sample={'descriptor': c.fullname, 'stores': rm.stores})
        if rm.stores < 1:
            raise AnalysisError(f'{c.fullname}.__set__: no store into instance.__dict__ found')
        for st in rm.bad:
            res.add(Finding('L4', f.fullname, norm_stmt_text(st), f'{f.module.relpath}:{st.lineno}',
                            f'{c.name}.__set__ stores the new value without first dropping the aperture\'s cached '
                            f'lazyproperties on some path: bbox/area/mask caches survive the re-assignment', {}))
    # the reset helper pops every key of instance._lazyproperties, unguarded
    rf = base.lookup('_reset_lazyproperties')
    if rf is None:
        raise AnalysisError('vanished anchor: ApertureAttribute._reset_lazyproperties')
    # ... and no descriptor subclass replaces it by a narrower reset
    for c in mod.classes.values():
        if c is base or not c.is_subclass_of(base.fullname):
            continue
        ov = c.methods.get('_reset_lazyproperties')
        res.oblige('L4', f'{c.name} uses the complete cache reset of ApertureAttribute', not ov, nontrivial=True)
        if ov:
            res.add(Finding('L4', ov[0].fullname, 'override of _reset_lazyproperties', ov[0].loc,
                            f'{c.name} overrides _reset_lazyproperties: a hand-kept list of caches goes stale as soon as another '
                            f'lazyproperty depends on the attribute (shape/isscalar of an aperture depend on positions)', {}))
    ok = False
    for node in ast.walk(rf.node):
        if isinstance(node, ast.For) and unparse(node.iter) == 'instance._lazyproperties' \
                and isinstance(node.target, ast.Name):
            body_ok = any(isinstance(b, ast.Expr) and isinstance(b.value, ast.Call)
                          and unparse(b.value.func) == 'instance.__dict__.pop'
                          and b.value.args and isinstance(b.value.args[0], ast.Name)
                          and b.value.args[0].id == node.target.id for b in node.body)
            ok = ok or body_ok
    res.oblige('L4', 'ApertureAttribute._reset_lazyproperties pops every key of instance._lazyproperties', ok,
               nontrivial=True)
    if not ok:
        res.add(Finding('L4', rf.fullname, 'reset loop', rf.loc,
                        '_reset_lazyproperties no longer drops every cached lazyproperty of the aperture', {}))
    # every aperture class: each name in _params is bound to a descriptor in the class body
    ap = repo.get_class('photutils.aperture.core.Aperture')
    lp = ap.lookup('_lazyproperties')
    if lp is None or 'getmembers' not in ast.unparse(lp.node) or 'lazyproperty' not in ast.unparse(lp.node):
        res.add(Finding('L4', ap.fullname, '_lazyproperties', ap.module.relpath,
                        'Aperture._lazyproperties no longer enumerates all lazyproperty members', {}))
    for c in repo.classes.values():
        if not c.is_subclass_of(ap.fullname) or '_params' not in c.class_attrs:
            continue
        try:
            params = ast.literal_eval(c.class_attrs['_params'])
        except Exception:
            continue
        for p in params:
            hit = c.lookup_attr(p)
            okp = False
            if hit is not None and isinstance(hit[1], ast.Call):
                r = repo.resolve_name(hit[0].module, (getattr(hit[1].func, 'id', None) or unparse(hit[1].func)))
                okp = isinstance(r, ClassInfo) and r.is_subclass_of(base.fullname)
            n += 1
            res.oblige('L4', f'{c.name}.{p} is an ApertureAttribute descriptor (assignment resets caches)', okp,
                       nontrivial=True, sample={'class': c.fullname, 'param': p})
            if not okp:
                res.add(Finding('L4', c.fullname, f'_params entry {p}', f'{c.module.relpath}:{c.node.lineno}',
                                f'aperture parameter `{p}` of {c.name} is not bound to an ApertureAttribute descriptor: '
                                f're-assigning it would leave stale bbox/area caches', {}))
        # apertures keep no hand-made memo fields: methods write no instance state
        for f in c.all_functions():
            if f.name in ('__init__',) or f.cls is None:
                continue
            for node in ast.walk(f.node):
                if isinstance(node, (ast.Assign, ast.AugAssign)):
                    for t in _targets(node):
                        a = self_attr(t)
                        if a is not None and a not in params and not f.is_setter:
                            res.add(Finding('L4', f.fullname, norm_stmt_text(node), f'{f.module.relpath}:{node.lineno}',
                                            f'aperture method {f.qualname} stores instance state `self.{a}` that the '
                                            f'descriptor reset does not know about', {}))
    return n


def run_L5(repo, res):
    """Dict memos: value depends only on the key source and immutable fields."""
    n = 0
    for c in repo.classes.values():
        lc = None
        for fs in c.methods.values():
            for f in fs:
                memo = _memo_pattern(f)
                if memo is None:
                    continue
                n += 1
                field, keyvar, keyexpr, valnames = memo
                lc = lc or LazyClass(repo, c)
                ku = KillUse(lc)
                cfg = ku.config_fields
                # fields the cached value reads
                used = set()
                for node in ast.walk(f.node):
                    a = self_attr(node)
                    if a is not None and isinstance(node.ctx, ast.Load) and a != field:
                        if a in lc.lazies or a in lc.props:
                            used |= {x for x in lc.deps(a) if not x.startswith('@')}
                        elif a not in lc.members:
                            used.add(a)
                mutable = {a for a in used if a not in cfg}
                ok_fields = not mutable
                # key: the function parameter itself or tuple(<field>[param])
                params = set(f.params) - {'self'}
                ok_key = _key_injective(keyexpr, params)
                res.oblige('L5', f'{f.qualname}: memo `{field}` keyed completely', ok_fields and ok_key,
                           nontrivial=True, sample={'function': f.fullname, 'memo': field,
                                                    'key': unparse(keyexpr), 'value_reads': sorted(used)})
                if not ok_fields:
                    res.add(Finding('L5', f.fullname, f'memo {field}', f.loc,
                                    f'{f.qualname} caches values in self.{field} that read fields {sorted(mutable)} '
                                    f'which are written after construction without clearing the memo', {}))
                if not ok_key:
                    res.add(Finding('L5', f.fullname, f'memo key {unparse(keyexpr)}', f.loc,
                                    f'{f.qualname}: the memo key `{unparse(keyexpr)}` is not the lookup argument itself or an '
                                    f'injective image of it, so two different requests can share one cached value', {}))
    return n


def _memo_pattern(f):
    """if k in self.M: return self.M[k] ... self.M[k] = v"""
    test_field = None
    for node in ast.walk(f.node):
        if isinstance(node, ast.If) and isinstance(node.test, ast.Compare) and len(node.test.ops) == 1 \
                and isinstance(node.test.ops[0], ast.In) and self_attr(node.test.comparators[0]) \
                and isinstance(node.test.left, ast.Name) \
                and any(isinstance(b, ast.Return) for b in node.body):
            test_field = self_attr(node.test.comparators[0])
            keyvar = node.test.left.id
            break
    if test_field is None:
        # if k not in self.M: ...; self.M[k] = v   (then `return self.M[k]`)
        for node in ast.walk(f.node):
            if isinstance(node, ast.If) and isinstance(node.test, ast.Compare) and len(node.test.ops) == 1 \
                    and isinstance(node.test.ops[0], ast.NotIn) and self_attr(node.test.comparators[0]) \
                    and isinstance(node.test.left, ast.Name) \
                    and any(isinstance(b, ast.Assign) and isinstance(b.targets[0], ast.Subscript)
                            and self_attr(b.targets[0].value) == self_attr(node.test.comparators[0]) for b in node.body):
                test_field = self_attr(node.test.comparators[0])
                keyvar = node.test.left.id
                break
    if test_field is None:
        # v = self.M.get(k); if v is not None: return v
        for node in ast.walk(f.node):
            if isinstance(node, ast.Assign) and isinstance(node.value, ast.Call) and isinstance(node.value.func, ast.Attribute) \
                    and node.value.func.attr == 'get' and self_attr(node.value.func.value) and len(node.value.args) == 1 \
                    and isinstance(node.value.args[0], ast.Name):
                test_field = self_attr(node.value.func.value)
                keyvar = node.value.args[0].id
                break
    if test_field is None:
        return None
    keyexpr = None
    for node in ast.walk(f.node):
        if isinstance(node, ast.Assign) and len(node.targets) == 1 and isinstance(node.targets[0], ast.Name) \
                and node.targets[0].id == keyvar:
            keyexpr = node.value
    if keyexpr is None:
        keyexpr = ast.Name(id=keyvar, ctx=ast.Load())
    return test_field, keyvar, keyexpr, None


def _key_injective(e, params):
    if isinstance(e, ast.Name):
        return e.id in params
    if isinstance(e, ast.Call) and isinstance(e.func, ast.Name) and e.func.id == 'tuple' and len(e.args) == 1:
        return _key_injective(e.args[0], params)
    if isinstance(e, ast.Subscript) and self_attr(e.value) is not None:
        return isinstance(e.slice, ast.Name) and e.slice.id in params
    return False


def run(repo, tier):
    res = Result(PROP)
    res.explanation = (
        'History independence decided structurally for all interleavings: L1 (three-valued stale/fresh/absent '
        'dataflow over every public mutator/setter of every class with lazyproperties; every dependent cache is '
        'invalidated on every path after a state write), L2 (no value-changing branch on cache presence), L3 '
        '(memory-saving deletions vs. every later reader under path guards, truth-table decided), L4 (aperture '
        'descriptors reset caches before storing; every _params name is a descriptor), L5 (memo key '
        'completeness), A2 (no getter modifies stored state in place), ECALL (call-like entries of configured '
        'objects write no configuration attribute and assign every per-call attribute before its first read).')
    res.not_decided = ('numerical equality with a fresh object; effects hidden in external libraries; '
                       'attribute stores through objects merely held in a field are covered only where the held '
                       'object is the caller\'s (C10).')
    res.assumptions = [
        'a lazyproperty value depends only on the self attributes its getter (transitively through self methods) reads',
        'configuration atoms in guards (self.<cfg> tests) do not change after __init__ (checked: field never stored elsewhere)',
        'seeding a cache after a reset is allowed only for the (method, key) rows of ALLOWED_SEEDS',
    ]
    d, ft = get_alias(repo)
    lcs = LR.lazy_classes(repo)
    res.inst('lazy-classes', len(lcs))
    LR.run_L1(repo, res, PROP, lcs)
    LR.run_L2(repo, res, PROP, lcs)
    LR.run_L3(repo, res, PROP, lcs)
    run_L4(repo, res)
    run_L5(repo, res)
    run_A2(repo, res, d)
    run_ECALL(repo, res, ft)
    from .C19 import normalization_rules
    normalization_rules(repo, res)   # profile normalisation state (anchored in C09 too)
    res.floor('L1', 3000)
    res.floor('L2', 5)
    res.floor('L3', 8)
    res.floor('L4', 15)
    res.floor('L5', 1)
    res.floor('A2', 300)
    res.floor('ECALL-entries', 30)
    res.floor('lazy-classes', 25)
    res.exhaustive_rules = ['L1 over (public entry x lazyproperty) pairs of every lazy class', 'L4', 'ECALL over all call-like entries']
    from .common import run_class_mutable
    run_class_mutable(repo, res, {m for m in repo.modules if '.tests' not in m})
    from .common import run_no_cached_property, run_no_overwrite_input
    run_no_cached_property(repo, res, {m for m in repo.modules if '.tests' not in m and 'extern' not in m})
    run_no_overwrite_input(repo, res, {m for m in repo.modules if '.tests' not in m and 'extern' not in m})
    from .common import run_cache_pure
    from .C08 import CACHE_PURE_OK
    run_cache_pure(repo, res, modules={m for m in repo.modules if '.tests' not in m}, exempt=CACHE_PURE_OK)
    # make_model_image / make_residual_image must leave the stored fit tables alone (a later call would see the added column)
    from .C18 import mixin_rules as _c18_mixin_rules
    _c18_mixin_rules(repo, res)
    from .common import run_generic_pack
    run_generic_pack(repo, res, PROP, ())
    return res
