"""Small rule drivers shared by several property modules."""
from __future__ import annotations

import ast
import re

from ..core import AnalysisError, norm_stmt_text, unparse, enclosing_stmt, enclosing_function
from ..report import Finding
from .. import loops as LP
from .. import axis as AX
from ..expr import nf, nf_text


LP1C_OK = {
    ('photutils.segmentation.catalog.SourceCatalog.fluxfrac_radius', 'result'):
        '`result` is used only when the `found` flag set next to it is True (otherwise NaN is appended and the iteration continues)',
}


def run_loops(repo, res, modules, rules=('LP1', 'LP1b', 'LP2')):
    """Per-source independence of loop iterations in the given modules."""
    n_loops = 0
    for f in repo.functions.values():
        if f.module.name not in modules:
            continue
        acc = LP.function_accumulators(f.node)
        for loop in LP.loops_of(f.node):
            n_loops += 1
            if 'LP1' in rules:
                carried = LP.check_lp1(f.node, loop)
                conts = LP.lp1_containers(f.node, loop)
                res.oblige('LP1', f'{f.qualname}: loop at line {loop.lineno} carries no container entry from one iteration to the next',
                           not carried, nontrivial=bool(conts),
                           sample={'function': f.fullname, 'loop': norm_stmt_text(loop), 'outer_containers': sorted(conts)} if conts else None)
                seen = set()
                for c, k, node, wst in carried:
                    key = (c, k)
                    if key in seen:
                        continue
                    seen.add(key)
                    st = enclosing_stmt(node)
                    res.add(Finding('LP1', f.fullname, f'{c}[{k!r}] read before rewrite: {norm_stmt_text(st)}',
                                    f'{f.module.relpath}:{node.lineno}',
                                    f'{f.qualname}: `{c}[{k!r}]` is read at `{norm_stmt_text(st)}` before it is rewritten in the same '
                                    f'iteration, and the body stores a per-source value into it (`{norm_stmt_text(wst)}`): what source '
                                    f'n+1 sees depends on source n', {'container': c, 'key': k}))
            if 'LP1b' in rules:
                muts = LP.check_lp1b(f.node, loop, acc)
                res.oblige('LP1b', f'{f.qualname}: loop at line {loop.lineno} modifies no pre-loop array in place with per-iteration values',
                           not muts, nontrivial=True,
                           sample={'function': f.fullname, 'loop': norm_stmt_text(loop), 'accumulators': sorted(acc)[:6]})
                for root, st in muts:
                    res.add(Finding('LP1b', f.fullname, norm_stmt_text(st), f'{f.module.relpath}:{st.lineno}',
                                    f'{f.qualname}: `{norm_stmt_text(st)}` modifies `{root}` (defined before the loop, or a view of it) '
                                    f'in place with a per-iteration value; it is not the function\'s result accumulator, so later '
                                    f'iterations see the leftovers of earlier ones', {'array': root}))
            if 'LP1' in rules:
                stale = [n_ for n_ in LP.check_lp1c(f.node, loop) if (f.fullname, n_.id) not in LP1C_OK]
                res.oblige('LP1c', f'{f.qualname}: loop at line {loop.lineno}: every loop-local is assigned on every path before it is used',
                           not stale, nontrivial=True)
                seen_c = set()
                for n_ in stale:
                    if n_.id in seen_c:
                        continue
                    seen_c.add(n_.id)
                    st_ = enclosing_stmt(n_)
                    res.add(Finding('LP1c', f.fullname, f'{n_.id} used at {norm_stmt_text(st_)}', f'{f.module.relpath}:{n_.lineno}',
                                    f'{f.qualname}: `{n_.id}` is assigned per iteration inside the loop and is used at `{norm_stmt_text(st_)}` on a '
                                    f'path of the iteration that did not assign it (e.g. an exception handler that falls through): the value '
                                    f'computed for the previous source is used for this one', {'name': n_.id}))
            if 'LP2' in rules:
                hits, nsites = LP.check_lp2(f.node, loop)
                if nsites:
                    res.oblige('LP2', f'{f.qualname}: first-iteration action cannot be skipped', not hits, nontrivial=True,
                               sample={'function': f.fullname, 'loop': norm_stmt_text(loop)})
                for node, why in hits:
                    res.add(Finding('LP2', f.fullname, norm_stmt_text(node) if isinstance(node, ast.stmt) else unparse(node, 100),
                                    f'{f.module.relpath}:{node.lineno}',
                                    f'{f.qualname}: an action guarded by `index == 0` can be skipped for row 0 ({why}); it is then '
                                    f'never performed for the rows that follow', {}))
    res.inst('loops-examined', n_loops)
    return n_loops


# T-AXIS conflicts that are known to be outside any listed property (reported in evidence only)
def run_axis(repo, res, modules, mirror=True, exempt=None):
    exempt = exempt or {}
    checked_total = 0
    mirrors = 0
    for f in repo.functions.values():
        if f.module.name not in modules:
            continue
        confs, checked = AX.axis_conflicts(f.node)
        checked_total += checked
        res.inst('T-AXIS', checked)
        res.obligations += checked
        res.discharged += checked - len(confs)
        if checked:
            res.nontrivial.add(('T-AXIS', f.fullname))
        for node, msg in confs:
            st = enclosing_stmt(node) or node
            key = (f.fullname, norm_stmt_text(st))
            if key in exempt:
                res.discharged += 1
                continue
            res.add(Finding('T-AXIS', f.fullname, norm_stmt_text(st), f'{f.module.relpath}:{getattr(node, "lineno", 0)}',
                            f'{f.qualname}: x/y pairing conflict: {msg}', {}))
        if mirror:
            for kind, s1, s2, diffs in AX.mirror_scan_function(f.node):
                mirrors += 1
                res.inst('T-MIRROR')
                res.obligations += 1
                if kind == 'mirror' and AX.operator_mismatch(s1, s2) is not None:
                    oa, ob = AX.operator_mismatch(s1, s2)
                    st = enclosing_stmt(s2) or s2
                    if (f.fullname, norm_stmt_text(st)) in exempt:
                        res.discharged += 1
                        continue
                    res.add(Finding('T-MIRROR', f.fullname, 'operator ' + norm_stmt_text(st), f'{f.module.relpath}:{getattr(s2, "lineno", 0)}',
                                    f'{f.qualname}: `{unparse(s2, 90)}` is the axis mirror of `{unparse(s1, 90)}` but uses `{ob}` where the '
                                    f'twin uses `{oa}`: the two axes are treated differently', {}))
                elif kind == 'asymmetric':
                    st = enclosing_stmt(s2) or s2
                    if (f.fullname, norm_stmt_text(st)) in exempt:
                        res.discharged += 1
                        continue
                    res.add(Finding('T-MIRROR', f.fullname, 'asymmetric ' + norm_stmt_text(st), f'{f.module.relpath}:{getattr(s2, "lineno", 0)}',
                                    f'{f.qualname}: `{unparse(s2, 90)}` uses exactly the axis-flipped names of `{unparse(s1, 90)}` but combines '
                                    f'them differently: one axis gets a treatment (clamp, offset, rounding) the other does not', {}))
                elif kind == 'mirror':
                    res.discharged += 1
                    if len([s for s in res.samples if s.get('rule') == 'T-MIRROR']) < 3:
                        res.samples.append({'rule': 'T-MIRROR', 'function': f.fullname, 'x_side': unparse(s1, 80), 'y_side': unparse(s2, 80)})
                else:
                    st = enclosing_stmt(s2) or s2
                    key = (f.fullname, norm_stmt_text(st))
                    if key in exempt:
                        res.discharged += 1
                        continue
                    bad = ', '.join(f'`{t2[1]}`' for _, _, t2 in diffs)
                    res.add(Finding('T-MIRROR', f.fullname, norm_stmt_text(st), f'{f.module.relpath}:{getattr(s2, "lineno", 0)}',
                                    f'{f.qualname}: `{unparse(s2, 90)}` is the axis mirror of `{unparse(s1, 90)}` except for {bad}, '
                                    f'which was left un-mirrored (copy-paste signature)', {}))
            res.nontrivial.add(('T-MIRROR', f.fullname))
    # sibling definitions whose names are x/y mirrors
    if mirror:
        seen = set()
        for f in repo.functions.values():
            if f.module.name not in modules:
                continue
            m = AX.mirror_name(f.name)
            if not m or AX.name_tag(f.name) != 'X':
                continue
            scope = f.cls.methods if f.cls is not None else None
            g = None
            if f.cls is not None and m in f.cls.methods:
                g = f.cls.methods[m][0]
            elif f.cls is None and m in f.module.functions:
                g = f.module.functions[m]
            if g is None:
                continue
            kind, diffs = AX.mirror_functions(f.node, g.node)
            res.inst('T-MIRROR')
            res.obligations += 1
            mirrors += 1
            if kind == 'copy-paste':
                bad = ', '.join(f'`{t2[1]}`' for _, _, t2 in diffs)
                res.add(Finding('T-MIRROR', g.fullname, f'def {g.name} vs def {f.name}', g.loc,
                                f'{g.qualname} is the axis mirror of {f.qualname} except for {bad}, which was left un-mirrored', {}))
            else:
                res.discharged += 1
    return checked_total, mirrors


def subscripts_using(func_node, base_names):
    """(base name, index nf, node) for every Load subscript of the named bases."""
    out = []
    for n in ast.walk(func_node):
        if isinstance(n, ast.Subscript) and isinstance(n.value, ast.Name) and n.value.id in base_names \
                and isinstance(n.ctx, ast.Load):
            out.append((n.value.id, nf(n.slice) if not isinstance(n.slice, ast.Slice) else unparse(n.slice, 0), n))
    return out


def expect_stmt(res, rule, f, want_nf, meaning, stmts=None):
    """Some statement of the function has the given normal form."""
    from ..spec import nf_stmt
    pool = stmts if stmts is not None else [s for s in ast.walk(f.node) if isinstance(s, (ast.Assign, ast.AugAssign, ast.Return, ast.Expr))]
    ok = any(_safe_nf(s) == want_nf for s in pool)
    if not ok and ' = ' in want_nf:
        # the spec names a local (`t = E`) that the function no longer has: the temporary was inlined into its use.
        # Accept E itself anywhere in the function (assigned to another target, or as a sub-expression).
        tname, rhs = want_nf.split(' = ', 1)
        if re.fullmatch(r'[A-Za-z_]\w*', tname) and not any(isinstance(x, ast.Name) and isinstance(x.ctx, ast.Store) and x.id == tname
                                                            for x in ast.walk(f.node)):
            ok = any(_safe_nf_expr(e) == rhs for e in ast.walk(f.node) if isinstance(e, ast.expr))
    res.oblige(rule, f'{f.qualname}: {meaning}', ok, nontrivial=True, sample={'function': f.fullname, 'want': want_nf})
    if not ok:
        res.add(Finding(rule, f.fullname, meaning, f.loc, f'{f.qualname}: {meaning} - no statement with normal form `{want_nf}`', {}))
    return ok


def _safe_nf(s):
    from ..spec import nf_stmt
    try:
        return nf_stmt(s)
    except Exception:
        return None


DEADSTORE_OK = {
    ('photutils.isophote.sample.EllipseSample._iter_sigma_clip', 'count'): 'loop counter kept for readability; never used',
}


def run_deadstore(repo, res, modules):
    """A local that is assigned by a plain single-name assignment and never read is either dead
    code or - the case that matters - a misspelt target whose intended variable keeps its old value."""
    n = 0
    for f in repo.functions.values():
        if f.module.name not in modules:
            continue
        stores, loads = {}, set()
        for x in ast.walk(f.node):
            if isinstance(x, ast.Name):
                if isinstance(x.ctx, ast.Store):
                    stores.setdefault(x.id, []).append(x)
                else:
                    loads.add(x.id)
        params = set(f.params)
        for name, nodes in stores.items():
            plain = [x for x in nodes if isinstance(getattr(x, '_parent', None), ast.Assign)
                     and len(x._parent.targets) == 1 and x._parent.targets[0] is x]
            if not plain:
                continue
            n += 1
            ok = name in loads or name.startswith('_') or name in params or (f.fullname, name) in DEADSTORE_OK
            res.oblige('DEADSTORE', f'{f.qualname}: local `{name}` is read somewhere', ok, nontrivial=False)
            if not ok:
                st = plain[0]._parent
                res.add(Finding('DEADSTORE', f.fullname, norm_stmt_text(st), f'{f.module.relpath}:{st.lineno}',
                                f'{f.qualname}: `{name}` is assigned at `{norm_stmt_text(st)}` but never read: the value does not reach '
                                f'the result (misspelt target? the intended variable keeps its previous value)', {}))
    return n


def run_class_mutable(repo, res, modules):
    """A class-level attribute bound to a mutable literal that methods modify through `self`
    is shared by all instances: what one object caches/records leaks into every other."""
    n = 0
    for c in repo.classes.values():
        if c.module.name not in modules:
            continue
        for name, val in c.class_attrs.items():
            mutable = isinstance(val, (ast.Dict, ast.List, ast.Set)) or \
                (isinstance(val, ast.Call) and unparse(val.func, 0).split('.')[-1] in ('dict', 'list', 'set', 'defaultdict', 'OrderedDict'))
            if not mutable or name.startswith('__') or name in ('_params', '__slots__'):
                continue
            # rebound per instance in __init__?
            init = c.lookup('__init__')
            rebound = False
            if init is not None:
                for node in ast.walk(init.node):
                    if isinstance(node, ast.Assign) and any(isinstance(t, ast.Attribute) and isinstance(t.value, ast.Name)
                                                            and t.value.id == 'self' and t.attr == name for t in node.targets):
                        rebound = True
            mutated = None
            for f in c.all_functions():
                for node in ast.walk(f.node):
                    tgt = None
                    if isinstance(node, (ast.Assign, ast.AugAssign)):
                        for t in (node.targets if isinstance(node, ast.Assign) else [node.target]):
                            if isinstance(t, ast.Subscript) and isinstance(t.value, ast.Attribute) and isinstance(t.value.value, ast.Name) \
                                    and t.value.value.id == 'self' and t.value.attr == name:
                                mutated = (f, node)
                    if isinstance(node, ast.Call) and isinstance(node.func, ast.Attribute) and isinstance(node.func.value, ast.Attribute) \
                            and isinstance(node.func.value.value, ast.Name) and node.func.value.value.id == 'self' \
                            and node.func.value.attr == name and node.func.attr in ('append', 'extend', 'update', 'add', 'setdefault', 'pop', 'clear'):
                        mutated = (f, node)
            n += 1
            ok = rebound or mutated is None
            res.oblige('CLASS-MUTABLE', f'{c.name}.{name}: mutable class attribute is not modified through instances', ok, nontrivial=True,
                       sample={'class': c.fullname, 'attr': name})
            if not ok:
                f, node = mutated
                res.add(Finding('CLASS-MUTABLE', c.fullname, f'class attribute {name}', f'{c.module.relpath}:{val.lineno}',
                                f'{c.name}.{name} is a mutable object created once in the class body and modified through `self` in '
                                f'{f.qualname} (`{norm_stmt_text(enclosing_stmt(node))}`) without being rebound in __init__: all '
                                f'instances share it, so results depend on what other objects did before', {}))
    res.inst('CLASS-MUTABLE', 0)
    return n


import re as _re
_NONFINITE_MSG = _re.compile(r'non-finite|NaNs? or infs?|invalid values \(NaN', _re.I)


def run_nonfinite(repo, res, modules=None):
    """A function that tells the user it handled/rejects *non-finite* values (NaN or inf) must detect them with
    an isfinite-based test (directly or in the function that hands it the mask); an isnan-only test lets +-inf through."""
    n = 0
    for f in repo.functions.values():
        if modules is not None and f.module.name not in modules:
            continue
        if f.outer is not None:
            continue
        msgs = [c for c in ast.walk(f.node) if isinstance(c, ast.Constant) and isinstance(c.value, str)
                and _NONFINITE_MSG.search(c.value) and not _is_doc(c)]
        if not msgs:
            continue
        src = ast.unparse(f.node)
        has_finite = 'isfinite(' in src or 'masked_invalid(' in src
        if not has_finite:
            # the mask may be handed in by the caller (Background2D._combine_all_masks(mask = ~isfinite(...)))
            callers_ok = False
            for g in repo.functions.values():
                if g is f or g.module is not f.module:
                    continue
                gs = ast.unparse(g.node)
                if f'{f.name}(' in gs and ('isfinite(' in gs):
                    callers_ok = True
            has_finite = callers_ok
        n += 1
        res.oblige('NONFINITE', f'{f.qualname}: the non-finite handling it announces is based on isfinite()', has_finite, nontrivial=True,
                   sample={'function': f.fullname, 'message': msgs[0].value[:60]})
        if not has_finite:
            res.add(Finding('NONFINITE', f.fullname, 'non-finite detection', f.loc,
                            f'{f.qualname} tells the user that non-finite values (NaN or inf) are masked/rejected but contains no '
                            f'isfinite()-based test: +-inf pixels are not caught by an isnan test and enter the computation', {}))
    return n


def _is_doc(const):
    p = getattr(const, '_parent', None)
    pp = getattr(p, '_parent', None)
    return isinstance(p, ast.Expr) and isinstance(pp, (ast.FunctionDef, ast.ClassDef, ast.Module, ast.AsyncFunctionDef))


def enclosing_if_atoms(node, func_node):
    """Atoms of the tests of the `if`s that enclose node (branch-sensitive), ignoring earlier early exits."""
    from ..guards import guard_of, atoms
    out = set()
    ch, par = node, getattr(node, '_parent', None)
    while par is not None and par is not func_node:
        if isinstance(par, ast.If) and any(x is ch for x in par.body + par.orelse):
            blk = par.body if any(x is ch for x in par.body) else par.orelse
            out |= set(atoms(guard_of(blk[0], par)))
        ch, par = par, getattr(par, '_parent', None)
    return out


def guard_only(res, rule, f, node, allowed, what, consequence):
    """The step `node` of f runs under the conditions `allowed` only."""
    got = enclosing_if_atoms(node, f.node)
    ok = got <= set(allowed)
    res.oblige(rule, f'{f.qualname}: {what} is conditioned on {sorted(allowed)} only', ok, nontrivial=True,
               sample={'function': f.fullname, 'conditions': sorted(got)})
    if not ok:
        res.add(Finding(rule, f.fullname, f'guard of {what}', f'{f.module.relpath}:{node.lineno}',
                        f'{f.qualname}: {what} runs under the conditions {sorted(got)} instead of {sorted(allowed)} alone: {consequence}', {}))
    return ok


_TOL_CALLS = ('isclose', 'allclose')


def run_scale_free(repo, res, modules):
    """Scale equivariance (f(k*data) = k*f(data)) has a structural necessary condition: the code compares data-derived
    statistics with no absolute tolerance (np.isclose/allclose default atol=1e-8, tolerance-like float literals)."""
    n = 0
    for f in repo.functions.values():
        if f.module.name not in modules or f.outer is not None:
            continue
        bad = []
        for node in ast.walk(f.node):
            if isinstance(node, ast.Call) and isinstance(node.func, ast.Attribute) and node.func.attr in _TOL_CALLS:
                atol = next((k.value for k in node.keywords if k.arg == 'atol'), None)
                if not (isinstance(atol, ast.Constant) and atol.value == 0):
                    bad.append((node, f'`{unparse(node, 70)}` uses an absolute tolerance'))
            if isinstance(node, ast.Compare):
                for side in [node.left] + list(node.comparators):
                    if isinstance(side, ast.Constant) and isinstance(side.value, float) and 0 < abs(side.value) <= 1e-3:
                        bad.append((node, f'`{unparse(node, 70)}` compares with the absolute tolerance {side.value!r}'))
                    if isinstance(side, ast.Attribute) and side.attr in ('eps', 'tiny', 'resolution') and 'finfo' in unparse(side, 0):
                        bad.append((node, f'`{unparse(node, 70)}` compares with the absolute tolerance {unparse(side, 40)}'))
        n += 1
        res.oblige('SCALE', f'{f.qualname} compares data-derived values with no absolute tolerance', not bad, nontrivial=True)
        for node, why in bad:
            res.add(Finding('SCALE', f.fullname, unparse(node, 80), f'{f.module.relpath}:{node.lineno}',
                            f'{f.qualname}: {why}: the result is no longer equivariant under data -> k*data '
                            f'(values below the tolerance in the current units take a different branch)', {}))
    return n


def run_axis_dispatch(repo, res, modules):
    """A function that selects per-axis quantities in an `if axis == 0: ... elif axis == 1: ...` dispatch must be axis-neutral
    afterwards: a `shape[0]`-like subscript, an x/y attribute of self, or an x/y local defined before the dispatch that is used
    after it serves one axis only."""
    from .. import axis as AX
    n = 0
    for f in repo.functions.values():
        if f.module.name not in modules or 'axis' not in f.params:
            continue
        body = f.node.body
        for i, st in enumerate(body):
            if not (isinstance(st, ast.If) and isinstance(st.test, ast.Compare)
                    and 'axis' in (unparse(st.test.left, 0), unparse(st.test.comparators[0], 0))
                    and st.orelse and len(st.orelse) == 1 and isinstance(st.orelse[0], ast.If)):
                continue
            n += 1
            pre = set()
            for p_ in body[:i]:
                for nd in ast.walk(p_):
                    if isinstance(nd, ast.Name) and isinstance(nd.ctx, ast.Store) and isinstance(AX.name_tag(nd.id), str):
                        pre.add(nd.id)
            bad = []
            for later in body[i + 1:]:
                for nd in ast.walk(later):
                    if isinstance(nd, ast.Subscript) and AX._const_index(nd.slice) in (0, 1) and AX.order_of(nd.value) is not None:
                        bad.append(nd)
                    elif isinstance(nd, ast.Name) and isinstance(nd.ctx, ast.Load) and nd.id in pre:
                        bad.append(nd)
                    elif isinstance(nd, ast.Attribute) and isinstance(AX.name_tag(nd.attr), str) and unparse(nd, 0).startswith('self.'):
                        bad.append(nd)
            res.oblige('AXIS-DISPATCH', f'{f.qualname}: the code after the axis dispatch is axis-neutral', not bad, nontrivial=True,
                       sample={'function': f.fullname, 'pre_dispatch_axis_names': sorted(pre)})
            for nd in bad:
                stx = enclosing_stmt(nd)
                res.add(Finding('AXIS-DISPATCH', f.fullname, norm_stmt_text(stx), f'{f.module.relpath}:{nd.lineno}',
                                f'{f.qualname}: `{unparse(nd, 60)}` in `{norm_stmt_text(stx)}` is a quantity of one fixed axis, used after the '
                                f'`axis` dispatch: the other axis gets the wrong extent/centre', {}))
    return n


def run_late_update(repo, res, modules):
    """A boolean mask B that has been merged into another mask M (`M = M | B`, `M |= B`, `M = B | ...`) must be complete at
    that point: a later `B |= more` does not reach M (or reaches it on the aliasing path `M = B` only)."""
    n = 0
    for f in repo.functions.values():
        if f.module.name not in modules or f.outer is not None:
            continue
        joins = {}      # B -> (first line where B is merged into another name, that name)
        for st in ast.walk(f.node):
            if isinstance(st, ast.Assign) and len(st.targets) == 1 and isinstance(st.targets[0], ast.Name):
                tgt, val = st.targets[0].id, st.value
            elif isinstance(st, ast.AugAssign) and isinstance(st.op, ast.BitOr) and isinstance(st.target, ast.Name):
                tgt, val = st.target.id, st.value
            else:
                continue
            terms = val.values if isinstance(val, ast.BoolOp) else _bitor_terms(val)
            for t in terms:
                if isinstance(t, ast.Name) and t.id != tgt and 'mask' in t.id.lower() and 'mask' in tgt.lower():
                    if t.id not in joins or st.lineno < joins[t.id][0]:
                        joins[t.id] = (st.lineno, tgt)
        if not joins:
            continue
        n += 1
        bad = []
        for st in ast.walk(f.node):
            if isinstance(st, ast.AugAssign) and isinstance(st.op, ast.BitOr) and isinstance(st.target, ast.Name) \
                    and st.target.id in joins and st.lineno > joins[st.target.id][0] and not _in_loop(st, f.node):
                bad.append((st, joins[st.target.id]))
        res.oblige('LATE-UPDATE', f'{f.qualname}: masks are complete before they are merged', not bad, nontrivial=True,
                   sample={'function': f.fullname, 'merged': {k: v[1] for k, v in joins.items()}})
        for st, (ln, tgt) in bad:
            res.add(Finding('LATE-UPDATE', f.fullname, norm_stmt_text(st), f'{f.module.relpath}:{st.lineno}',
                            f'{f.qualname}: `{norm_stmt_text(st)}` extends `{st.target.id}` after it was merged into `{tgt}` (line {ln}): '
                            f'the added pixels do not reach `{tgt}` on the path where the merge made a new array', {}))
    return n


def _bitor_terms(e):
    if isinstance(e, ast.BinOp) and isinstance(e.op, ast.BitOr):
        return _bitor_terms(e.left) + _bitor_terms(e.right)
    return [e]


def _in_loop(node, func_node):
    p = getattr(node, '_parent', None)
    while p is not None and p is not func_node:
        if isinstance(p, (ast.For, ast.While)):
            return True
        p = getattr(p, '_parent', None)
    return False


def run_unit_last(repo, res, modules=None):
    """Units are attached last: once a local has been made a Quantity (`x <<= unit`, `x = self._apply_units(...)`), the function
    stores no bare numbers into it (`x[mask] = fill` raises UnitConversionError for a dimensional unit and a non-zero finite number,
    while the same call on a plain array succeeds)."""
    n = 0
    for f in repo.functions.values():
        if modules is not None and f.module.name not in modules:
            continue
        q = {}
        for st in ast.walk(f.node):
            if isinstance(st, ast.AugAssign) and isinstance(st.op, ast.LShift) and isinstance(st.target, ast.Name):
                q[st.target.id] = min(q.get(st.target.id, 10**9), st.lineno)
            if isinstance(st, ast.Assign) and len(st.targets) == 1 and isinstance(st.targets[0], ast.Name) \
                    and isinstance(st.value, ast.Call) and unparse(st.value.func, 0).endswith('_apply_units'):
                q[st.targets[0].id] = min(q.get(st.targets[0].id, 10**9), st.lineno)
        if not q:
            continue
        n += 1
        bad = [st for st in ast.walk(f.node)
               if isinstance(st, ast.Assign) and isinstance(st.targets[0], ast.Subscript) and isinstance(st.targets[0].value, ast.Name)
               and st.targets[0].value.id in q and st.lineno > q[st.targets[0].value.id]
               and not any(isinstance(x, ast.Name) and x.id in q for x in ast.walk(st.value))]
        res.oblige('UNIT-LAST', f'{f.qualname}: no bare number is stored into a local after units were attached to it', not bad,
                   nontrivial=True, sample={'function': f.fullname, 'quantity_locals': sorted(q)})
        for st in bad:
            res.add(Finding('UNIT-LAST', f.fullname, norm_stmt_text(st), f'{f.module.relpath}:{st.lineno}',
                            f'{f.qualname}: `{norm_stmt_text(st)}` stores a bare value into `{st.targets[0].value.id}` after units were '
                            f'attached to it (line {q[st.targets[0].value.id]}): for Quantity/NDData input this raises or mixes units, '
                            f'while the same call on the plain array works', {}))
    return n


def apply_specs(repo, res, rows, rule='SPEC'):
    """Declarative specs.  rows: (function fullname, kind, python text, meaning) with kind
    'stmt'  - some statement of the function has the normal form of the given statement text
    'ret'   - every returned value has the normal form of the text (locals inlined or raw); several accepted texts separated by ' ||| '
    'test'  - some `if`/`while`/ternary test of the function has the normal form of the text
    'call'  - some call in the function has the normal form of the text"""
    from ..spec import nf_stmt, returns_match
    from ..expr import nf, nf_text
    for fullname, kind, text, meaning in rows:
        f = repo.functions.get(fullname)
        if f is None:
            raise AnalysisError(f'vanished anchor: {fullname}')
        if kind == 'stmt':
            want = nf_stmt(ast.parse(text).body[0])
            expect_stmt(res, rule, f, want, meaning)
        elif kind == 'ret':
            returns_match(repo, res, rule, fullname, [t.strip() for t in text.split('|||')], meaning)
        elif kind in ('test', 'call'):
            want = nf_text(text)
            if kind == 'test':
                pool = [n.test for n in ast.walk(f.node) if isinstance(n, (ast.If, ast.While, ast.IfExp, ast.Assert))]
            else:
                pool = [n for n in ast.walk(f.node) if isinstance(n, ast.Call)]
            if kind == 'test':
                # a test and its negation (with the branches swapped) are the same decision
                ok = any(_unsigned_test(_safe_nf_expr(t)) == _unsigned_test(want) for t in pool)
            else:
                ok = any(_safe_nf_expr(t) == want for t in pool)
            res.oblige(rule, f'{f.qualname}: {meaning}', ok, nontrivial=True, sample={'function': fullname, 'want': want})
            if not ok:
                res.add(Finding(rule, fullname, meaning, f.loc,
                                f'{f.qualname}: {meaning} - no {"condition" if kind == "test" else "call"} with normal form `{want}` '
                                f'(found: {[_safe_nf_expr(t) for t in pool][:6]})', {}))
        elif kind == 'rawstmt':
            # exact (unparse-normalised) statement: for distinctions the normal form deliberately erases (asarray vs asanyarray)
            want = ast.unparse(ast.parse(text).body[0])
            ok = any(ast.unparse(s_) == want for s_ in ast.walk(f.node) if isinstance(s_, ast.stmt) and not isinstance(s_, (ast.FunctionDef, ast.ClassDef)))
            res.oblige(rule, f'{f.qualname}: {meaning}', ok, nontrivial=True, sample={'function': fullname, 'want': want})
            if not ok:
                res.add(Finding(rule, fullname, meaning, f.loc, f'{f.qualname}: {meaning} - statement `{want}` not found', {}))
        elif kind == 'nret':
            rets = [n for n in ast.walk(f.node) if isinstance(n, ast.Return)]
            ok = len(rets) == int(text)
            res.oblige(rule, f'{f.qualname}: {meaning}', ok, nontrivial=True, sample={'function': fullname, 'returns': len(rets)})
            if not ok:
                res.add(Finding(rule, fullname, meaning, f.loc,
                                f'{f.qualname}: {meaning} - found {len(rets)} return statements: '
                                f'{[unparse(r, 60) for r in rets][:4]}', {}))
        elif kind == 'default':
            pname, _, val = text.partition('=')
            a = f.node.args
            pos = a.posonlyargs + a.args
            dmap = dict(zip([x.arg for x in pos[len(pos) - len(a.defaults):]], a.defaults))
            dmap.update({x.arg: d for x, d in zip(a.kwonlyargs, a.kw_defaults) if d is not None})
            got = dmap.get(pname.strip())
            ok = got is not None and _safe_nf_expr(got) == nf_text(val.strip())
            res.oblige(rule, f'{f.qualname}: {meaning}', ok, nontrivial=True, sample={'function': fullname, 'default': text})
            if not ok:
                res.add(Finding(rule, fullname, meaning, f.loc,
                                f'{f.qualname}: {meaning} - the default of `{pname.strip()}` is `{unparse(got, 40) if got is not None else "<none>"}`, '
                                f'documented `{val.strip()}`', {}))
        elif kind == 'expr':
            # some expression of the function (after the refactor-reversal pass, locals inlined too) has this normal form
            from ..expr import Inliner
            wants = [nf_text(t.strip()) for t in text.split('|||')]
            pool = [n for n in ast.walk(f.node) if isinstance(n, ast.expr)]
            try:
                inl = Inliner(f.node)
                pool += [e for e, _ in inl.returns] + [v for _t, v, _s in inl.stores] + [c for c, _o in inl.calls]
            except Exception:
                pass
            ok = any(_safe_nf_expr(e) in wants for e in pool)
            res.oblige(rule, f'{f.qualname}: {meaning}', ok, nontrivial=True, sample={'function': fullname, 'want': wants[0]})
            if not ok:
                res.add(Finding(rule, fullname, meaning, f.loc, f'{f.qualname}: {meaning} - no expression with normal form `{wants[0]}`', {}))
        elif kind == 'guard':
            # 'STATEMENT ||| atom; atom': the statement runs under exactly these enclosing conditions (none: unconditionally)
            st_text, _, atoms_text = text.partition('|||')
            want = nf_stmt(ast.parse(st_text.strip()).body[0])
            allowed = {a_.strip() for a_ in atoms_text.split(';') if a_.strip()}
            sts = [s_ for s_ in ast.walk(f.node) if isinstance(s_, (ast.Assign, ast.AugAssign, ast.Expr, ast.Return)) and _safe_nf(s_) == want]
            got = sorted({a_ for s_ in sts for a_ in enclosing_if_atoms(s_, f.node)})
            ok = bool(sts) and all(enclosing_if_atoms(s_, f.node) == allowed for s_ in sts)
            res.oblige(rule, f'{f.qualname}: {meaning}', ok, nontrivial=True, sample={'function': fullname, 'conditions': got})
            if not ok:
                res.add(Finding(rule, fullname, meaning, f.loc,
                                f'{f.qualname}: {meaning} - `{st_text.strip()}` ' + ('not found' if not sts else
                                f'runs under {got}, must run under {sorted(allowed) or "no condition"}'), {}))
        elif kind == 'order':
            # 'A ||| B': the first call of A is evaluated before the first call of B (source order inside the function)
            a_txt, _, b_txt = text.partition('|||')
            order = {}
            k_ = 0
            for n_ in _preorder(f.node):
                k_ += 1
                if isinstance(n_, ast.Call):
                    order.setdefault(unparse(n_.func, 0), k_)
            ia, ib = order.get(a_txt.strip()), order.get(b_txt.strip())
            ok = ia is not None and ib is not None and ia < ib
            res.oblige(rule, f'{f.qualname}: {meaning}', ok, nontrivial=True, sample={'function': fullname, 'first': a_txt.strip(), 'then': b_txt.strip()})
            if not ok:
                res.add(Finding(rule, fullname, meaning, f.loc,
                                f'{f.qualname}: {meaning} - `{a_txt.strip()}` must be called before `{b_txt.strip()}`'
                                + ('' if ia is not None and ib is not None else ' (one of them is no longer called here)'), {}))
        else:
            raise AnalysisError(f'unknown spec kind {kind}')


def _preorder(node):
    """Nodes in evaluation-like source order (statements in order; within a statement, children in field order, the value
    of an assignment before its targets is not needed here)."""
    yield node
    for c in ast.iter_child_nodes(node):
        yield from _preorder(c)


def _unsigned_test(t):
    if not isinstance(t, str):
        return t
    for neg_, pos_ in (('isnot(', 'is('), ('ne(', 'eq('), ('notin(', 'in(')):
        if t.startswith(neg_):
            return pos_ + t[len(neg_):]
    if t.startswith('not(') and t.endswith(')'):
        return t[4:-1]
    return t


def _safe_nf_expr(e):
    from ..expr import nf
    try:
        return nf(e)
    except Exception:
        return None


_SEGM_ARRAYS = ('self._data', 'self._segment_img', 'self._segment_data', 'self.data', 'segment_img.data', 'self._segment_img.data')


def run_label_eq(repo, res, modules):
    """A bounding-box cutout of a label array holds pixels of other labels: inside a loop over (label, slices) pairs every
    use of `<label array>[slices]` (or of the cutout variable paired with `label` by zip) is an operand of a comparison with `label`."""
    n = 0
    for f in repo.functions.values():
        if f.module.name not in modules:
            continue
        loops = [l_ for l_ in ast.walk(f.node) if isinstance(l_, (ast.For, ast.comprehension))
                 and isinstance(l_.target, ast.Tuple) and any(isinstance(e, ast.Name) and e.id == 'label' for e in l_.target.elts)]
        for lp in loops:
            names = [e.id for e in lp.target.elts if isinstance(e, ast.Name)]
            slc_names = {x for x in names if x in ('slices', 'slc', 'slice_')}
            cut_names = {x for x in names if x in ('segm', 'segm_cutout', 'segment_cutout')}
            if not slc_names and not cut_names:
                continue
            scope = lp if isinstance(lp, ast.For) else getattr(lp, '_parent', None)
            uses = []
            for nd in ast.walk(scope):
                if isinstance(nd, ast.Subscript) and isinstance(nd.slice, ast.Name) and nd.slice.id in slc_names \
                        and unparse(nd.value, 0) in _SEGM_ARRAYS:
                    uses.append(nd)
                if isinstance(nd, ast.Name) and nd.id in cut_names and isinstance(nd.ctx, ast.Load):
                    uses.append(nd)
            for u_ in uses:
                par = getattr(u_, '_parent', None)
                ok = isinstance(par, ast.Compare) and len(par.ops) == 1 and isinstance(par.ops[0], (ast.Eq, ast.NotEq)) \
                    and any(isinstance(x, ast.Name) and x.id == 'label' for x in [par.left] + par.comparators)
                n += 1
                res.oblige('LABEL-EQ', f'{f.qualname}: `{unparse(u_, 50)}` is compared with `label` before it is counted or masked', ok,
                           nontrivial=True, sample={'function': f.fullname, 'use': unparse(getattr(u_, "_parent", u_), 80)})
                if not ok:
                    st = enclosing_stmt(u_)
                    res.add(Finding('LABEL-EQ', f.fullname, norm_stmt_text(st), f'{f.module.relpath}:{u_.lineno}',
                                    f'{f.qualname}: `{unparse(u_, 50)}` (the label array inside this label\'s bounding box) is used without '
                                    f'comparing it with `label` in `{norm_stmt_text(st)}`: pixels of other labels inside the box are taken '
                                    f'for this label', {}))
    return n


_ROUND_CALLS = {'round', 'np.round', 'np.rint', 'np.around', 'np.round_', 'numpy.round'}


def run_round(repo, res, modules):
    """Pixel indices are rounded half-up (`py2intround`, floor(x + 0.5)): round()/np.round/np.rint round half to even, which makes
    the chosen pixel depend on the parity of the coordinate and breaks covariance under integer shifts."""
    n = 0
    for m in sorted(modules):
        repo.get_module(m)
        bad = []
        for f in repo.functions.values():
            if f.module.name != m:
                continue
            for nd in ast.walk(f.node):
                if isinstance(nd, ast.Call) and unparse(nd.func, 0) in _ROUND_CALLS:
                    bad.append((f, nd))
        n += 1
        res.oblige('ROUND', f'{m}: no round-half-to-even call', not bad, nontrivial=True)
        for f, nd in bad:
            st = enclosing_stmt(nd)
            res.add(Finding('ROUND', f.fullname, norm_stmt_text(st), f'{f.module.relpath}:{nd.lineno}',
                            f'{f.qualname}: `{unparse(nd, 60)}` rounds half to even; pixel indices are rounded half-up in this package '
                            f'(py2intround / floor(x + 0.5)) so that results shift exactly with integer translations', {}))
    return n


def run_loop_twin(repo, res, modules):
    """`v = E; while test(v): ...; v = E'`: the re-evaluation inside the loop must be the expression that initialised v
    (otherwise the loop is entered under one criterion and left under another)."""
    n = 0
    for f in repo.functions.values():
        if f.module.name not in modules:
            continue
        for w in ast.walk(f.node):
            if not isinstance(w, ast.While):
                continue
            tnames = {x.id for x in ast.walk(w.test) if isinstance(x, ast.Name)}
            par = getattr(w, '_parent', None)
            blk = None
            for fld in ('body', 'orelse', 'finalbody'):
                b = getattr(par, fld, None)
                if isinstance(b, list) and any(x is w for x in b):
                    blk = b
            if blk is None:
                continue
            i = [k for k, x in enumerate(blk) if x is w][0]
            for v in sorted(tnames):
                init = [s for s in blk[:i] if isinstance(s, ast.Assign) and len(s.targets) == 1
                        and isinstance(s.targets[0], ast.Name) and s.targets[0].id == v]
                again = [s for s in ast.walk(w) if isinstance(s, ast.Assign) and len(s.targets) == 1
                         and isinstance(s.targets[0], ast.Name) and s.targets[0].id == v]
                if not init or not again:
                    continue
                e0 = init[-1].value
                for s in again:
                    if not (isinstance(e0, (ast.Call, ast.Subscript, ast.Compare, ast.BinOp)) and type(s.value) is type(e0)):
                        continue
                    # same shape (ignoring leaves) => meant to be the same test
                    if _shape(e0) != _shape(s.value):
                        continue
                    n += 1
                    ok = _safe_nf_expr(e0) == _safe_nf_expr(s.value)
                    res.oblige('LOOP-TWIN', f'{f.qualname}: `{v}` is re-evaluated inside the while loop as it was initialised', ok,
                               nontrivial=True, sample={'function': f.fullname, 'init': unparse(e0, 80), 'again': unparse(s.value, 80)})
                    if not ok:
                        res.add(Finding('LOOP-TWIN', f.fullname, f'{v}: {norm_stmt_text(init[-1])} / {norm_stmt_text(s)}',
                                        f'{f.module.relpath}:{init[-1].lineno}',
                                        f'{f.qualname}: `{v}` is initialised as `{unparse(e0, 70)}` but re-evaluated in the loop as '
                                        f'`{unparse(s.value, 70)}`: elements are selected for the loop by one criterion and released by another', {}))
    return n


def _shape(e):
    return tuple(type(x).__name__ for x in ast.walk(e) if not isinstance(x, (ast.Name, ast.Constant, ast.expr_context)))


# SourceCatalog and ApertureStats carry copies of the same shape/moment code.  Vocabulary that legitimately differs:
CLONE_RENAME = {'nlabels': 'n_apertures', '_moment_data_cutouts': '_moment_data_cutout'}
CLONE_ACCEPTED = {
    ('orientation', 'return mul(div(mul(orient_radians,180),pi),u.deg)', 'return mul(rad2deg(orient_radians),u.deg)'):
        'degrees either way',
    ('_validate_array', 'test eq(2,array.ndim)', 'test eq(array.ndim,ndim)'): 'ApertureStats takes ndim as a parameter (default 2)',
    ('_all_masked', 'return array([all(mask) for mask in self._cutout_total_masks])',
     'return array([all(mask) for mask in self._mask_cutout_center])'): 'each class names its own total mask',
}
CLONE_SKIP = {'__str__': 'presentation only', '__repr__': 'presentation only',
              'to_table': 'presentation only: the table columns are decided by the SPEC rows of C08; the two builders need not be textual copies'}


_THIN = {}


def _thin_wrappers(repo):
    """{name: FunctionDef} of private module-level functions that only forward to another call (`return g(...)`): a copy that
    calls the wrapper and a copy that calls `g` directly are the same code."""
    key = id(repo)
    if key not in _THIN:
        from ..axis import body_without_doc
        found, dup = {}, set()
        for f in repo.functions.values():
            if f.cls is not None or '<locals>' in f.fullname or not f.name.startswith('_') or f.name.startswith('__'):
                continue
            body = body_without_doc(f.node)
            if len(body) == 1 and isinstance(body[0], ast.Return) and isinstance(body[0].value, ast.Call):
                if f.name in found:
                    dup.add(f.name)
                found[f.name] = f.node
        _THIN.clear()
        _THIN[key] = {k: v for k, v in found.items() if k not in dup}
    return _THIN[key]


def _expand_thin(st, thin):
    from ..normalize import _single_expr
    from ..expr import clone
    if not any(isinstance(c, ast.Call) and isinstance(c.func, ast.Name) and c.func.id in thin for c in ast.walk(st)):
        return st
    st = clone(st)

    class T(ast.NodeTransformer):
        def visit_Call(self, c):
            self.generic_visit(c)
            if isinstance(c.func, ast.Name) and c.func.id in thin:
                e = _single_expr(thin[c.func.id], c, False, True)
                if e is not None:
                    return e
            return c
    return ast.fix_missing_locations(T().visit(st))


def _slip_shape(node):
    """Shape of a statement with names, constants and operators abstracted: two copies that differ only in a name, a constant,
    an index or an operator have the same slip shape (the signature of a copy-paste slip); a re-written statement does not."""
    if node is None:
        return None
    test = node.test if isinstance(node, (ast.If, ast.While)) else node
    return tuple(type(x).__name__ for x in ast.walk(test)
                 if not isinstance(x, (ast.Name, ast.Constant, ast.expr_context, ast.operator, ast.cmpop, ast.unaryop, ast.boolop)))


def _clone_stmts(f, ren=None, repo=None):
    from ..spec import nf_stmt
    from ..expr import nf, rename
    from ..axis import body_without_doc
    out = []
    thin = _thin_wrappers(repo) if repo is not None else {}
    for st0 in ast.walk(ast.Module(body=body_without_doc(f.node), type_ignores=[])):
        st = st0
        if thin and isinstance(st0, (ast.Assign, ast.AugAssign, ast.Return, ast.Expr)):
            st = _expand_thin(st0, thin)
        node = rename(st, ren) if ren and isinstance(st, (ast.stmt,)) and isinstance(st, (ast.Assign, ast.AugAssign, ast.Return, ast.Expr, ast.If, ast.While)) else st
        try:
            if isinstance(node, (ast.Assign, ast.AugAssign, ast.Return, ast.Expr)):
                out.append((nf_stmt(node), st0))
            elif isinstance(node, (ast.If, ast.While)):
                # one polarity: `if x is None: A else: B` and `if x is not None: B else: A` are the same code
                t_ = nf(node.test)
                for neg_, pos_ in (('isnot(', 'is('), ('ne(', 'eq('), ('notin(', 'in(')):
                    if t_.startswith(neg_):
                        t_ = pos_ + t_[len(neg_):]
                        break
                else:
                    if t_.startswith('not(') and t_.endswith(')'):
                        t_ = t_[4:-1]
                out.append(('test ' + t_, st0))
        except Exception:
            out.append((ast.dump(node)[:200], st0))
    return out


def run_clones(repo, res, cls_a='photutils.segmentation.catalog.SourceCatalog', cls_b='photutils.aperture.stats.ApertureStats',
               collect_only=False):
    """Copy-paste consistency (sibling cross-check): same-named methods of the two catalog classes that are near-clones must be
    exact clones up to the vocabulary map; a fix or slip applied to one copy only is reported."""
    import difflib
    A, B = repo.get_class(cls_a), repo.get_class(cls_b)
    ma = {f.name: f for f in A.all_functions() if f.cls is A or True}
    mb = {f.name: f for f in B.all_functions()}
    n = 0
    from .. import canon as _canon
    ref_clones = set((_canon.table().get('__clones__') or {}).get(f'{cls_a}|{cls_b}', ())) if not collect_only else set()
    near = []
    for name in sorted(set(ma) & set(mb)):
        fa, fb = ma[name], mb[name]
        if fa.is_setter != fb.is_setter or fa.fullname == fb.fullname or name in CLONE_SKIP:
            continue
        sa_, sb = _clone_stmts(fa, CLONE_RENAME, repo), _clone_stmts(fb, None, repo)
        ta, tb = [s for s, _ in sa_], [s for s, _ in sb]
        if not ta or not tb:
            continue
        if max(len(ta), len(tb)) >= 3:
            sim = len([s for s in ta if s in tb]) / max(len(ta), len(tb))
        else:
            sim = difflib.SequenceMatcher(None, ' ; '.join(ta), ' ; '.join(tb)).ratio()
        # pairs that are near-clones on the reference tree (canon table) stay pairs however far a change moved them apart
        if sim < 0.6 and name not in ref_clones:
            continue
        near.append(name)
        if collect_only:
            continue
        only_a = [(s, st) for s, st in sa_ if s not in tb]
        only_b = [(s, st) for s, st in sb if s not in ta]
        diffs = []
        rewritten = 0
        for (s1, st1) in only_a:
            # pair with the most similar B-only statement
            best = max(only_b, key=lambda x: difflib.SequenceMatcher(None, s1, x[0]).ratio(), default=None)
            s2, st2 = best if best else ('<nothing>', None)
            if (name, s1, s2) in CLONE_ACCEPTED:
                continue
            # Only the copy-paste-slip signature is a finding: the two copies have the same statement but for a name, constant,
            # index or operator.  A statement that was re-written in one copy (another idiom, a temporary, an extra step) is a
            # refactoring of that copy; whether it preserves behaviour is not something the sibling can tell.
            if st2 is None or _slip_shape(st1) != _slip_shape(st2):
                rewritten += 1
                continue
            diffs.append((s1, s2, st1, st2))
        n += 1
        res.oblige('CLONE', f'{A.name}.{name} and {B.name}.{name} (copies of the same code) agree', not diffs, nontrivial=True,
                   sample={'method': name, 'similarity': round(sim, 2), 'statements': len(ta)})
        for s1, s2, st1, st2 in diffs:
            st = st2 or st1
            owner = fb if st is st2 else fa
            res.add(Finding('CLONE', owner.fullname, f'{name}: {s1[:80]} / {s2[:80]}', f'{owner.module.relpath}:{st.lineno}',
                            f'{A.name}.{name} and {B.name}.{name} are copies of the same code but disagree: `{s1[:110]}` vs `{s2[:110]}`; '
                            f'one of the two catalogs computes this quantity differently', {}))
    if collect_only:
        return near
    return n


def run_cast_to_data_dtype(repo, res, modules):
    """A value that is not the image itself is never forced into the image's dtype (`x.astype(data.dtype)`, `dtype=data.dtype`):
    for integer images that truncates backgrounds, thresholds and weights."""
    img = re.compile(r'(^|\.)(_?data|image|img|_?convolved_data)$')
    n = 0
    for f in repo.functions.values():
        if f.module.name not in modules:
            continue
        bad = []
        for nd in ast.walk(f.node):
            if not isinstance(nd, ast.Call):
                continue
            dt = None
            if isinstance(nd.func, ast.Attribute) and nd.func.attr == 'astype' and nd.args:
                dt, subject = nd.args[0], unparse(nd.func.value, 0)
            else:
                kw = next((k.value for k in nd.keywords if k.arg == 'dtype'), None)
                if kw is not None:
                    dt, subject = kw, ', '.join(unparse(a, 0) for a in nd.args)
            if isinstance(dt, ast.Attribute) and dt.attr == 'dtype' and img.search(unparse(dt.value, 0)):
                base = unparse(dt.value, 0)
                if base not in subject:
                    bad.append((nd, base, subject))
        n += 1
        res.oblige('CASTDT', f'{f.qualname} forces no foreign value into the image dtype', not bad, nontrivial=bool(bad) or 'dtype' in ast.unparse(f.node))
        for nd, base, subject in bad:
            st = enclosing_stmt(nd)
            res.add(Finding('CASTDT', f.fullname, norm_stmt_text(st), f'{f.module.relpath}:{nd.lineno}',
                            f'{f.qualname}: `{unparse(nd, 70)}` casts `{subject[:40]}` to the dtype of `{base}`: with an integer image the '
                            f'fractional part is lost, so integer and float images give different results', {}))
    return n


def run_keypair(repo, res, modules):
    """`A['k'] op= f(B['k'])` next to a sibling statement of the same shape: a statement that mixes two column keys while its
    sibling uses one key throughout carries the copy-paste signature (the offset of one column computed from another column)."""
    n = 0

    def keys(st):
        return [s.slice.value for s in ast.walk(st) if isinstance(s, ast.Subscript) and isinstance(s.slice, ast.Constant)
                and isinstance(s.slice.value, str)]

    for f in repo.functions.values():
        if f.module.name not in modules:
            continue
        for par in ast.walk(f.node):
            for fld in ('body', 'orelse', 'finalbody'):
                blk = getattr(par, fld, None)
                if not isinstance(blk, list):
                    continue
                for i, st in enumerate(blk):
                    if not isinstance(st, (ast.Assign, ast.AugAssign)):
                        continue
                    k1 = keys(st)
                    if len(k1) < 2:
                        continue
                    for j in (i - 1, i + 1):
                        if not (0 <= j < len(blk)) or not isinstance(blk[j], type(st)):
                            continue
                        k2 = keys(blk[j])
                        if len(k2) != len(k1) or _shape(st) != _shape(blk[j]) or len(set(k2)) != 1:
                            continue
                        n += 1
                        ok = len(set(k1)) == 1
                        res.oblige('KEYPAIR', f'{f.qualname}: `{norm_stmt_text(st)}` uses one column key throughout like its sibling', ok,
                                   nontrivial=True)
                        if not ok and k2[0] in k1:
                            res.add(Finding('KEYPAIR', f.fullname, norm_stmt_text(st), f'{f.module.relpath}:{st.lineno}',
                                            f'{f.qualname}: `{norm_stmt_text(st)}` mixes the columns {sorted(set(k1))} while the sibling '
                                            f'statement `{norm_stmt_text(blk[j])}` uses `{k2[0]}` throughout: copy-paste signature', {}))
                        break
    return n


# differences between near-clone methods that are the point of having two classes: (method, regex on the differing statement)
CLONE_PAIR_ACCEPTED = [
    ('calc_background', r'^result = '), ('calc_background_rms', r'^result = '),
    ('__getitem__', r'^init_attr = '),
    ('__init__', r'^self\._norm_radius = norm_radius$'),
    ('compute_interpolator', r'^[xy] = (div\()?arange\(self\._n[xy],dtype=float\)'),
    ('_validate_array', r'^test '),
    ('covariance_eigvals', r'^eigvals = empty\(\(self\.(nlabels|n_apertures),2\)\)$'),
    ('moments_central', r'_moment_data_cutouts?,'),
    ('_to_patch', r'^patches = '),
    ('mag', r"^warnings\.simplefilter\('ignore',category=RuntimeWarning\)$"),
]


def run_clone_pairs(repo, res, modules, threshold=0.8):
    """Sibling cross-check inside a module set: two classes' same-named methods whose statements agree to >= threshold are
    copies of one routine; whatever differs must be in the accepted table (the one statement the classes exist to vary)."""
    import itertools
    classes = [c for c in repo.classes.values() if c.module.name in modules]
    own = {c.fullname: {n: fs[0] for n, fs in c.methods.items() if not fs[0].is_setter} for c in classes}
    cache = {}

    def st(f):
        if f.fullname not in cache:
            cache[f.fullname] = _clone_stmts(f)
        return cache[f.fullname]
    n = 0
    for a, b in itertools.combinations(classes, 2):
        for name in sorted(set(own[a.fullname]) & set(own[b.fullname])):
            fa, fb = own[a.fullname][name], own[b.fullname][name]
            sa_, sb = st(fa), st(fb)
            ta, tb = [s for s, _ in sa_], [s for s, _ in sb]
            if max(len(ta), len(tb)) < 4:
                continue
            sim = len([s for s in ta if s in tb]) / max(len(ta), len(tb))
            if sim < (max(threshold, 0.9) if name == '__init__' else threshold):     # constructors differ by design
                continue
            pats = [re.compile(p) for m_, p in CLONE_PAIR_ACCEPTED if m_ == name]
            diffs = [(s, node, fa) for s, node in sa_ if s not in tb and not any(p.search(s) for p in pats)] + \
                    [(s, node, fb) for s, node in sb if s not in ta and not any(p.search(s) for p in pats)]
            n += 1
            res.oblige('CLONE', f'{a.name}.{name} and {b.name}.{name} (copies of one routine) agree', not diffs, nontrivial=True,
                       sample={'method': name, 'classes': [a.name, b.name], 'similarity': round(sim, 2)})
            for s, node, owner in diffs:
                other = b.name if owner is fa else a.name
                res.add(Finding('CLONE', owner.fullname, f'{name}: {s[:100]}', f'{owner.module.relpath}:{node.lineno}',
                                f'{owner.qualname} is a copy of {other}.{name} ({int(sim * 100)}% of the statements agree) but has '
                                f'`{s[:120]}` which the sibling lacks: the two classes no longer treat their input alike', {}))
    return n


def run_truthy_none(repo, res, modules):
    """An optional numeric parameter (default None) is tested with `is None` / `is not None`: a truthiness test (`if p:`) treats a
    valid 0 like 'not given'."""
    n = 0
    for f in repo.functions.values():
        if f.module.name not in modules:
            continue
        a = f.node.args
        pos = a.posonlyargs + a.args
        defaults = dict(zip([x.arg for x in pos[len(pos) - len(a.defaults):]], a.defaults))
        defaults.update({x.arg: d for x, d in zip(a.kwonlyargs, a.kw_defaults) if d is not None})
        optional = {p for p, d in defaults.items() if isinstance(d, ast.Constant) and d.value is None}
        # locals taken from a keyword dict with a None default: x = kwargs.pop('x', None) / .get('x', None) / .get('x')
        for nd in ast.walk(f.node):
            if isinstance(nd, ast.Assign) and len(nd.targets) == 1 and isinstance(nd.targets[0], ast.Name) \
                    and isinstance(nd.value, ast.Call) and isinstance(nd.value.func, ast.Attribute) and nd.value.func.attr in ('pop', 'get') \
                    and (len(nd.value.args) == 1 and nd.value.func.attr == 'get'
                         or len(nd.value.args) == 2 and isinstance(nd.value.args[1], ast.Constant) and nd.value.args[1].value is None):
                optional.add(nd.targets[0].id)
        if not optional:
            continue
        numeric = set()
        for nd in ast.walk(f.node):
            # arithmetic on the value also shows that it is a number
            if isinstance(nd, (ast.BinOp, ast.AugAssign)):
                for side in ([nd.left, nd.right] if isinstance(nd, ast.BinOp) else [nd.target, nd.value]):
                    if isinstance(side, ast.Name) and side.id in optional and isinstance(getattr(nd, 'op', None), (ast.Add, ast.Sub, ast.Mult, ast.Div)):
                        numeric.add(side.id)
        for nd in ast.walk(f.node):
            if isinstance(nd, ast.Compare) and any(isinstance(o, (ast.Lt, ast.LtE, ast.Gt, ast.GtE)) for o in nd.ops):
                for side in [nd.left] + nd.comparators:
                    if isinstance(side, ast.Name) and side.id in optional:
                        numeric.add(side.id)
        for p in sorted(numeric):
            bad = []
            for nd in ast.walk(f.node):
                tests = []
                if isinstance(nd, (ast.If, ast.While, ast.IfExp)):
                    tests = [nd.test]
                for t in tests:
                    parts = t.values if isinstance(t, ast.BoolOp) else [t]
                    for x in parts:
                        if isinstance(x, ast.UnaryOp) and isinstance(x.op, ast.Not):
                            x = x.operand
                        if isinstance(x, ast.Name) and x.id == p:
                            bad.append(nd)
            n += 1
            res.oblige('TRUTHY', f'{f.qualname}: optional numeric `{p}` is tested against None, not by truthiness', not bad, nontrivial=True)
            for nd in bad:
                res.add(Finding('TRUTHY', f.fullname, f'truthiness test of {p}', f'{f.module.relpath}:{nd.lineno}',
                                f'{f.qualname}: `{unparse(nd.test, 60)}` tests the optional numeric parameter `{p}` by truthiness: an '
                                f'explicit 0 is treated as "not given" and silently replaced by the default', {}))
    return n


def _inline_method_calls(fn, methods):
    """Copy of fn in which `T = R.m()`, `R.m()` and `return R.m()` (m in methods: name -> FunctionDef, no arguments) are replaced
    by m's body with self -> R."""
    from .. import normalize as NZ
    from ..expr import clone
    fn = clone(fn)
    for _round in range(3):
        changed = False
        for parent in ast.walk(fn):
            for fld in ('body', 'orelse', 'finalbody'):
                blk = getattr(parent, fld, None)
                if not isinstance(blk, list):
                    continue
                for i, st in enumerate(blk):
                    call = st.value if isinstance(st, (ast.Assign, ast.Expr, ast.Return)) and isinstance(getattr(st, 'value', None), ast.Call) else None
                    if call is None or not isinstance(call.func, ast.Attribute) or call.func.attr not in methods or call.args or call.keywords:
                        continue
                    h = methods[call.func.attr]
                    body = NZ._prepared_body(h, {h.args.args[0].arg: call.func.value}, None)
                    if isinstance(st, ast.Assign):
                        tg = st.targets
                        new = NZ._returns_to(body, lambda e, tg=tg: [ast.Assign(targets=[clone(t) for t in tg], value=e)])
                    elif isinstance(st, ast.Return):
                        new = NZ._returns_to(body, lambda e: [ast.Return(value=e)])
                    else:
                        new = NZ._returns_to(body, lambda e: [])
                    if new is None:
                        continue
                    blk[i:i + 1] = new or [ast.Pass()]
                    changed = True
                    break
        if not changed:
            break
    ast.fix_missing_locations(fn)
    return fn


def pathsum_spec(res, rule, f, ref_src, meaning, node=None, inline=None):
    """The function (or the given inner node) is path-summary equivalent to the reference definition `ref_src` (sa/pathsum.py).
    inline: {method name: FunctionDef} - argument-less calls of these methods are expanded on both sides first."""
    from .. import pathsum as PS
    fn = node if node is not None else f.node
    if inline:
        fn = _inline_method_calls(fn, inline)
    ref = PS.parse_ref(ref_src)
    if inline:
        ref = _inline_method_calls(ref, inline)
    try:
        diff = PS.compare(fn, ref)
    except PS.TooComplex as exc:
        raise AnalysisError(f'{f.fullname}: path summary not computable ({exc})')
    ok = diff is None
    res.oblige(rule, f'{f.qualname}: {meaning}', ok, nontrivial=True, sample={'function': f.fullname, 'definition': ref_src.strip()[:200]})
    if not ok:
        res.add(Finding(rule, f.fullname, meaning, f.loc, f'{f.qualname}: {meaning} - {diff}', {}))
    return ok


def run_no_cached_property(repo, res, modules):
    """Caches must be astropy lazyproperties: the reset machinery (`_lazyproperties`, `_reset_lazyproperties`, `__getitem__` slicing)
    enumerates lazyproperty members only; a functools.cached_property survives every reset."""
    n = 0
    for f in repo.functions.values():
        if f.module.name not in modules:
            continue
        bad = [d for d in f.decorators if d and d.split('.')[-1] == 'cached_property']
        n += 1
        res.oblige('DECOR', f'{f.qualname} is not a functools.cached_property', not bad, nontrivial=bool(f.decorators))
        if bad:
            res.add(Finding('DECOR', f.fullname, 'cached_property', f.loc,
                            f'{f.qualname} is cached with functools.cached_property: the class\'s cache reset enumerates astropy '
                            f'lazyproperties only, so this value survives parameter re-assignment and resets', {}))
    return n


def run_no_overwrite_input(repo, res, modules):
    """`overwrite_input=True` (np.median/nanmedian/percentile...) lets numpy reorder the argument in place: a stored mesh or the
    caller's image is scrambled although the returned statistic is right."""
    n = 0
    for m in sorted(modules):
        mod = repo.modules.get(m)
        if mod is None:
            continue
        # fine on a value computed in the call itself (np.median(np.abs(a - m), overwrite_input=True)); not on a name,
        # attribute or subscript (may be a stored or caller array) and not in a partial()/table entry
        bad = [k for c in ast.walk(mod.tree) if isinstance(c, ast.Call) for k in c.keywords
               if k.arg == 'overwrite_input' and not (isinstance(k.value, ast.Constant) and k.value.value is False)
               and not (c.args and isinstance(c.args[0], (ast.BinOp, ast.Call)) and unparse(c.func, 0).split('.')[-1] != 'partial')]
        n += 1
        res.oblige('NO-OVERWRITE', f'{m}: no statistic is computed with overwrite_input', not bad, nontrivial=True)
        for k in bad:
            res.add(Finding('NO-OVERWRITE', m, f'overwrite_input at line {k.value.lineno}', f'{mod.relpath}:{k.value.lineno}',
                            f'{m}: `overwrite_input={unparse(k.value, 20)}` lets numpy partially sort its argument in place: cached '
                            f'meshes / caller arrays are reordered', {}))
    return n


_IMG_BASES = re.compile(r'^(self\._(data|mask|error|background|convolved_data|segment_img)|data|error|mask|image|variance)(\.data)?$')


def run_slice_kind(repo, res, modules):
    """Image-sized arrays are cut with the LARGE slices of an overlap computation, aperture-mask sized arrays with the SMALL ones."""
    n = 0
    for f in repo.functions.values():
        if f.module.name not in modules:
            continue
        for nd in ast.walk(f.node):
            if isinstance(nd, ast.Subscript) and isinstance(nd.slice, ast.Name) and re.search(r'(^|_)(slc|slices?)_(sm|small|lg|large)$|^slices?_(small|large)$', nd.slice.id):
                base = unparse(nd.value, 0)
                small = nd.slice.id.endswith(('_sm', '_small'))
                if _IMG_BASES.match(base):
                    n += 1
                    res.oblige('SLICE-KIND', f'{f.qualname}: image-sized `{base}` is cut with the large slices', not small, nontrivial=True)
                    if small:
                        st = enclosing_stmt(nd)
                        res.add(Finding('SLICE-KIND', f.fullname, norm_stmt_text(st), f'{f.module.relpath}:{nd.lineno}',
                                        f'{f.qualname}: `{unparse(nd, 50)}` cuts the image-sized array `{base}` with the slices of the '
                                        f'small (aperture-mask) array: pixels of the image corner are used instead of the pixels under '
                                        f'the aperture', {}))
    return n


def run_loopvar_used(repo, res, modules):
    """`for v in (a, b): a.x = ...`: the body of a loop over a literal tuple of names uses the loop variable, not one of the names."""
    n = 0
    for f in repo.functions.values():
        if f.module.name not in modules:
            continue
        for lp in ast.walk(f.node):
            if isinstance(lp, ast.For) and isinstance(lp.target, ast.Name) and isinstance(lp.iter, (ast.Tuple, ast.List)) \
                    and lp.iter.elts and all(isinstance(e, ast.Name) for e in lp.iter.elts):
                names = {e.id for e in lp.iter.elts}
                used = {x.id for b in lp.body for x in ast.walk(b) if isinstance(x, ast.Name)}
                bad = lp.target.id not in used and (names & used)
                n += 1
                res.oblige('LOOPVAR', f'{f.qualname}: the loop over {sorted(names)} works on its loop variable', not bad, nontrivial=True)
                if bad:
                    res.add(Finding('LOOPVAR', f.fullname, norm_stmt_text(lp), f'{f.module.relpath}:{lp.lineno}',
                                    f'{f.qualname}: the body of `for {lp.target.id} in {unparse(lp.iter, 50)}` never uses `{lp.target.id}` '
                                    f'but uses {sorted(names & used)}: only one of the objects is treated, several times', {}))
    return n


def run_unravel(repo, res, modules):
    """np.unravel_index(np.argmax(arr), S): S is the shape of the array the flat index was taken from."""
    n = 0
    for f in repo.functions.values():
        if f.module.name not in modules:
            continue
        for c in ast.walk(f.node):
            if isinstance(c, ast.Call) and unparse(c.func, 0).split('.')[-1] == 'unravel_index' and len(c.args) == 2 \
                    and isinstance(c.args[0], ast.Call) and unparse(c.args[0].func, 0).split('.')[-1] in (
                        'argmax', 'nanargmax', 'argmin', 'nanargmin') and c.args[0].args:
                arr = c.args[0].args[0]
                n += 1
                ok = _safe_nf_expr(c.args[1]) == _safe_nf_expr(ast.Attribute(value=arr, attr='shape', ctx=ast.Load()))
                res.oblige('UNRAVEL', f'{f.qualname}: `{unparse(c, 70)}` unravels with the shape of the searched array', ok, nontrivial=True)
                if not ok:
                    res.add(Finding('UNRAVEL', f.fullname, unparse(c, 90), f'{f.module.relpath}:{c.lineno}',
                                    f'{f.qualname}: `{unparse(c, 90)}` unravels a flat index of `{unparse(arr, 30)}` with '
                                    f'`{unparse(c.args[1], 30)}` instead of `{unparse(arr, 30)}.shape`: wrong (y, x) whenever the searched '
                                    f'array was trimmed (e.g. at the image edge)', {}))
    return n


def run_cache_pure(repo, res, classes=None, modules=None, exempt=()):
    """No method modifies in place the cached value of a (lazy)property of its class (alias summaries: a field-mutation site
    whose field is a property name).  Slicing, resets and later reads all assume cached values stay what the getter returned."""
    from .C10 import get_alias
    d, _ft = get_alias(repo)
    n = 0
    for c in repo.classes.values():
        if classes is not None and c.fullname not in classes:
            continue
        if modules is not None and c.module.name not in modules:
            continue
        lazies = {f.name for f in c.all_functions() if f.is_property and not f.is_setter}
        if not lazies:
            continue
        for f in c.all_functions():
            sm = d.summary(f)
            bad = [(fld, s_) for fld, sites in sm.mutf.items() if fld in lazies for s_ in sites.values()
                   if (s_.finfo.fullname, fld, norm_stmt_text(s_.stmt)) not in exempt]
            n += 1
            res.oblige('CACHE-PURE', f'{f.qualname} modifies no cached property value in place', not bad, nontrivial=bool(sm.mutf))
            for fld, s_ in bad:
                res.add(Finding('CACHE-PURE', s_.finfo.fullname, f'{fld}: {norm_stmt_text(s_.stmt)}', s_.loc,
                                f'{f.qualname} modifies the cached value of `{c.name}.{fld}` in place ({s_.describe()}): the property then '
                                f'reports something else than its getter returned, depending on the call history', {}))
    return n


def run_mutable_default(repo, res, modules):
    """A parameter default bound to a mutable display (`[]`, `{}`, `set()`, `dict()`, `list()`) that the function then modifies
    or stores is created once and shared by every call that omits the argument: results depend on earlier calls."""
    n = 0
    for f in repo.functions.values():
        if f.module.name not in modules:
            continue
        a = f.node.args
        pos = a.posonlyargs + a.args
        pairs = list(zip(pos[len(pos) - len(a.defaults):], a.defaults)) + [(p, d) for p, d in zip(a.kwonlyargs, a.kw_defaults) if d is not None]
        for p, d in pairs:
            mutable = isinstance(d, (ast.List, ast.Dict, ast.Set)) or \
                (isinstance(d, ast.Call) and unparse(d.func, 0).split('.')[-1] in ('dict', 'list', 'set', 'defaultdict', 'OrderedDict')
                 and not d.args and not d.keywords)
            if not mutable:
                continue
            name = p.arg
            touched = None
            for node in ast.walk(f.node):
                if isinstance(node, ast.Call) and isinstance(node.func, ast.Attribute) and isinstance(node.func.value, ast.Name) \
                        and node.func.value.id == name and node.func.attr in ('append', 'extend', 'update', 'add', 'setdefault', 'pop',
                                                                              'clear', 'insert', 'remove', 'sort', 'popitem'):
                    touched = node
                elif isinstance(node, (ast.Assign, ast.AugAssign)):
                    tg = node.targets if isinstance(node, ast.Assign) else [node.target]
                    for t in tg:
                        if isinstance(t, ast.Subscript) and isinstance(t.value, ast.Name) and t.value.id == name:
                            touched = node
                        # stored on the object / passed on: the shared object escapes
                        if isinstance(t, ast.Attribute) and isinstance(node, ast.Assign) and isinstance(node.value, ast.Name) \
                                and node.value.id == name:
                            touched = node
                    if isinstance(node, ast.AugAssign) and isinstance(node.target, ast.Name) and node.target.id == name:
                        touched = node
                elif isinstance(node, ast.Call) and any(isinstance(x, ast.Name) and x.id == name for x in node.args) \
                        and not (isinstance(node.func, ast.Name) and node.func.id in ('len', 'isinstance', 'list', 'tuple', 'dict', 'set',
                                                                                     'sorted', 'enumerate', 'zip', 'any', 'all')):
                    touched = touched or node
                elif isinstance(node, ast.Call) and any(isinstance(k.value, ast.Name) and k.value.id == name for k in node.keywords):
                    touched = touched or node
                elif isinstance(node, ast.Return) and isinstance(node.value, ast.Name) and node.value.id == name:
                    touched = touched or node
            n += 1
            ok = touched is None
            res.oblige('MUTABLE-DEFAULT', f'{f.qualname}({name}=<mutable>): the shared default is never modified, stored or passed on', ok,
                       nontrivial=True, sample={'function': f.fullname, 'parameter': name})
            if not ok:
                res.add(Finding('MUTABLE-DEFAULT', f.fullname, f'default of {name}', f'{f.module.relpath}:{d.lineno}',
                                f'{f.qualname}: parameter `{name}` defaults to a mutable object (`{unparse(d, 30)}`) created once at '
                                f'definition time and the function modifies/stores/passes it (`{norm_stmt_text(enclosing_stmt(touched))}`): '
                                f'every call that omits `{name}` shares it, so a call depends on the calls before it', {}))
    res.inst('MUTABLE-DEFAULT', 0)
    return n


def run_loop_break(repo, res, modules):
    """Per-element loops (over sources, rows, apertures ...) that handle a failing element with `continue` in an exception handler
    must not `break` there: the remaining elements would be silently dropped.  Sibling handlers in the same loop agree."""
    n = 0
    for f in repo.functions.values():
        if f.module.name not in modules:
            continue
        for loop in ast.walk(f.node):
            if not isinstance(loop, ast.For):
                continue
            for h in ast.walk(loop):
                if not isinstance(h, ast.ExceptHandler):
                    continue
                # innermost enclosing loop of the handler must be this loop
                p = getattr(h, '_parent', None)
                inner = None
                while p is not None and p is not f.node:
                    if isinstance(p, (ast.For, ast.While)):
                        inner = p
                        break
                    p = getattr(p, '_parent', None)
                if inner is not loop:
                    continue
                brk = [s for s in h.body if isinstance(s, ast.Break)]
                n += 1
                ok = not brk
                res.oblige('LOOP-BREAK', f'{f.qualname}: an element that raises is skipped, the loop goes on', ok, nontrivial=True,
                           sample={'function': f.fullname, 'handler': unparse(h.type, 40) if h.type is not None else 'bare'})
                if not ok:
                    res.add(Finding('LOOP-BREAK', f.fullname, f'break in except {unparse(h.type, 40) if h.type is not None else ""}',
                                    f'{f.module.relpath}:{brk[0].lineno}',
                                    f'{f.qualname}: the handler of `{unparse(h.type, 40) if h.type is not None else "except"}` inside the '
                                    f'loop over `{unparse(loop.iter, 40)}` leaves the loop (`break`): every element after the first failing '
                                    f'one is silently dropped, so the result depends on the order of the elements', {}))
    res.inst('LOOP-BREAK', 0)
    return n


_PACK = [('T-AXIS', 'run_axis'), ('QUADFORM', 'run_quadform'), ('DEADSTORE', 'run_deadstore'), ('CLASS-MUTABLE', 'run_class_mutable'),
         ('MUTABLE-DEFAULT', 'run_mutable_default'), ('GUARD-FAMILY', 'run_guard_family'), ('MEMO-STALE', 'run_memo_stale'), ('A2-PROP', 'run_pure_getters'), ('CACHE-PURE', 'run_cache_pure_pack'), ('LOOP-BREAK', 'run_loop_break'), ('NAN-TWIN', 'run_nan_twin'), ('APPEND-TWIN', 'run_append_twin'), ('PARAM-UNUSED', 'run_param_unused'), ('CASTDT', 'run_castdt_pack'), ('LOOP-COUNTER', 'run_loop_counter'), ('NONFINITE', 'run_nonfinite'),
         ('LABEL-EQ', 'run_label_eq'), ('ROUND', 'run_round'), ('LOOP-TWIN', 'run_loop_twin'),
         ('GENERIC-DECOR', 'run_no_cached_property'), ('NO-OVERWRITE', 'run_no_overwrite_input'), ('SLICE-KIND', 'run_slice_kind'),
         ('LOOPVAR', 'run_loopvar_used'), ('UNRAVEL', 'run_unravel'), ('FWD', 'run_forward'), ('UNIT-LAST', 'run_unit_last'),
         ('LATE-UPDATE', 'run_late_update'), ('AXIS-DISPATCH', 'run_axis_dispatch'), ('KEYPAIR', 'run_keypair')]
_PROPERTY_MODULES = None


def property_modules(prop):
    """Modules named by the property's code anchors in properties.jsonl (the scope of the generic pack for that property)."""
    global _PROPERTY_MODULES
    if _PROPERTY_MODULES is None:
        import json
        import os
        _PROPERTY_MODULES = {}
        path = os.path.join(os.path.dirname(os.path.dirname(os.path.dirname(os.path.abspath(__file__)))), 'properties.jsonl')
        with open(path, encoding='utf-8') as fh:
            for line in fh:
                line = line.strip()
                if not line:
                    continue
                p = json.loads(line)
                mods = set()
                for fn in (p.get('anchors') or {}).get('files', []):
                    if fn.endswith('.py'):
                        m = fn[:-3].replace('/', '.')
                        if m.endswith('.__init__'):
                            m = m[:-9]
                        mods.add(m)
                _PROPERTY_MODULES[p['id']] = mods
    return _PROPERTY_MODULES.get(prop, set())


def run_generic_pack(repo, res, prop, extra_modules=()):
    """Rules that hold package-wide on the pinned tree and need no per-property instance table.  Every property runs them over
    the modules of its code anchors (plus the modules its own rules name), so that a slip of a generic kind is reported by every
    property that depends on the touched module, not only by the property in whose round the rule was first written."""
    from ..forward import run_forward
    mods = {m for m in set(property_modules(prop)) | set(extra_modules) if m in repo.modules}
    if not mods:
        return 0
    before = dict(res.rule_instances)
    rest = {m for m in mods if m not in set(extra_modules)} if extra_modules else set()
    n = 0
    for rule, fname in _PACK:
        fn = globals().get(fname) or run_forward
        # always over the whole scope: a property may have run the rule over a narrower hand-picked module set before
        # (findings are keyed, so nothing is reported twice; obligations of the overlap are counted twice)
        scope = mods
        r_ = fn(repo, res, scope)
        n += r_ if isinstance(r_, int) else 0
    res.notes['generic_pack_modules'] = sorted(mods)
    res.notes['generic_pack_selftest'] = pack_selftest()
    from .spectable import EXTRA_SPECS, EXTRA_PATHSUMS
    apply_specs(repo, res, EXTRA_SPECS.get(prop, []))
    for fullname, ref_src, meaning in EXTRA_PATHSUMS.get(prop, []):
        f = repo.functions.get(fullname)
        if f is None:
            raise AnalysisError(f'vanished anchor: {fullname}')
        pathsum_spec(res, 'SPEC', f, ref_src, meaning)
    return n


def run_guard_family(repo, res, modules):
    """`if flag_a or flag_b:` guarding a block that also consumes `flag_c` of the same parameter family (`fix_center`, `fix_pa`,
    `fix_eps`): a request made through `flag_c` alone is silently ignored."""
    n = 0
    for f in repo.functions.values():
        if f.module.name not in modules:
            continue
        params = [p for p in f.params if p not in ('self', 'cls')]
        for node in ast.walk(f.node):
            if not (isinstance(node, ast.If) and isinstance(node.test, ast.BoolOp) and isinstance(node.test.op, ast.Or)
                    and len(node.test.values) >= 2 and all(isinstance(v, ast.Name) for v in node.test.values)):
                continue
            names = [v.id for v in node.test.values]
            if '_' not in names[0]:
                continue
            pre = names[0].split('_')[0] + '_'
            if not all(x.startswith(pre) and x in params for x in names):
                continue
            used = {x.id for b in node.body for x in ast.walk(b) if isinstance(x, ast.Name)}
            missing = [p for p in params if p.startswith(pre) and p not in names and p in used]
            n += 1
            res.oblige('GUARD-FAMILY', f'{f.qualname}: the guard `{unparse(node.test, 60)}` names every `{pre}*` flag its block consumes',
                       not missing, nontrivial=True, sample={'function': f.fullname, 'guard': unparse(node.test, 60)})
            if missing:
                res.add(Finding('GUARD-FAMILY', f.fullname, 'guard ' + ' '.join(sorted(names)), f'{f.module.relpath}:{node.lineno}',
                                f'{f.qualname}: the block guarded by `{unparse(node.test, 60)}` also consumes {missing}, which the guard '
                                f'does not test: a request made through {missing} alone is silently ignored', {}))
    res.inst('GUARD-FAMILY', 0)
    return n


def run_memo_stale(repo, res, modules):
    """A hand-rolled memo (`if self._m is None: self._m = f(self.a, self.b)`) must be reset wherever `a`/`b` are written: in the
    class's own methods and, for attributes that other code assigns (`obj.a = ...` anywhere in the package), not be used at all."""
    n = 0
    ext_writes = {}
    for m in repo.modules.values():
        if '/tests/' in m.relpath:
            continue
        for node in ast.walk(m.tree):
            if isinstance(node, (ast.Assign, ast.AugAssign)):
                for t in (node.targets if isinstance(node, ast.Assign) else [node.target]):
                    if isinstance(t, ast.Attribute) and not (isinstance(t.value, ast.Name) and t.value.id == 'self'):
                        ext_writes.setdefault(t.attr, []).append((m, node))
    for c in repo.classes.values():
        if c.module.name not in modules:
            continue
        own = [f for f in c.all_functions() if f.cls is c]
        for f in own:
            for node in ast.walk(f.node):
                if not (isinstance(node, ast.If) and isinstance(node.test, ast.Compare) and len(node.test.ops) == 1
                        and isinstance(node.test.ops[0], ast.Is) and isinstance(node.test.left, ast.Attribute)
                        and isinstance(node.test.left.value, ast.Name) and node.test.left.value.id == 'self'
                        and isinstance(node.test.comparators[0], ast.Constant) and node.test.comparators[0].value is None):
                    continue
                A = node.test.left.attr
                if not any(isinstance(s_, ast.Assign) and any(isinstance(t, ast.Attribute) and isinstance(t.value, ast.Name)
                                                               and t.value.id == 'self' and t.attr == A for t in s_.targets)
                           for b in node.body for s_ in ast.walk(b)):
                    continue
                deps = {x.attr for b in node.body for x in ast.walk(b)
                        if isinstance(x, ast.Attribute) and isinstance(x.value, ast.Name) and x.value.id == 'self' and x.attr != A
                        and isinstance(x.ctx, ast.Load) and c.lookup(x.attr) is None}
                stale = []
                for g in own:
                    if g.name == '__init__':
                        continue
                    for st in ast.walk(g.node):
                        if isinstance(st, (ast.Assign, ast.AugAssign)):
                            tg = st.targets if isinstance(st, ast.Assign) else [st.target]
                            for t in tg:
                                base = t
                                while isinstance(base, ast.Subscript):
                                    base = base.value
                                if isinstance(base, ast.Attribute) and isinstance(base.value, ast.Name) and base.value.id == 'self' \
                                        and base.attr in deps:
                                    resets = any(isinstance(s2, ast.Assign) and any(isinstance(t2, ast.Attribute) and t2.attr == A
                                                                                    for t2 in s2.targets) for s2 in ast.walk(g.node))
                                    if not resets:
                                        stale.append(f'{g.qualname} writes self.{base.attr}')
                for d in sorted(deps):
                    if d.startswith('_'):
                        continue          # private: only the class's own methods write it
                    for m, wnode in ext_writes.get(d, []):
                        stale.append(f'{m.relpath}:{wnode.lineno} assigns .{d} from outside')
                n += 1
                res.oblige('MEMO-STALE', f'{c.name}.{f.name}: the memo `self.{A}` is reset wherever its inputs are written', not stale,
                           nontrivial=True, sample={'class': c.fullname, 'memo': A, 'inputs': sorted(deps)})
                if stale:
                    res.add(Finding('MEMO-STALE', f.fullname, f'memo {A}', f'{f.module.relpath}:{node.lineno}',
                                    f'{f.qualname} memoises `self.{A}` (computed from {sorted(deps)}) behind `if self.{A} is None`, but '
                                    f'{"; ".join(stale[:3])} without resetting it: later reads return the value of the old inputs', {}))
    res.inst('MEMO-STALE', 0)
    return n


def run_loop_counter(repo, res, modules):
    """A counter/flag that limits work *per element* (`iter_ = 0` ... `while iter_ < max_iters: iter_ += 1`) must be reset inside the
    per-element loop: bound once before the loop, advanced inside it, tested inside it and never read after it, it is a budget
    shared by all elements, so later elements are cut short depending on earlier ones."""
    n = 0
    for f in repo.functions.values():
        if f.module.name not in modules:
            continue
        for loop in ast.walk(f.node):
            if not isinstance(loop, ast.For):
                continue
            body_nodes = [x for b in loop.body for x in ast.walk(b)]
            advanced = {}
            for x in body_nodes:
                if isinstance(x, ast.AugAssign) and isinstance(x.target, ast.Name) and isinstance(x.op, (ast.Add, ast.Sub)) \
                        and isinstance(x.value, ast.Constant):
                    advanced.setdefault(x.target.id, x)
            for v, aug in advanced.items():
                # plain (re)binding inside the loop body = reset per element
                if any(isinstance(x, ast.Assign) and any(isinstance(t, ast.Name) and t.id == v for t in x.targets) for x in body_nodes):
                    n += 1
                    res.oblige('LOOP-COUNTER', f'{f.qualname}: `{v}` is reset for every element of the loop', True, nontrivial=True,
                               sample={'function': f.fullname, 'counter': v})
                    continue
                tested = any(isinstance(x, (ast.While, ast.If)) and any(isinstance(y, ast.Name) and y.id == v for y in ast.walk(x.test))
                             for x in body_nodes)
                if not tested:
                    continue
                end = getattr(loop, 'end_lineno', loop.lineno)
                read_after = any(isinstance(x, ast.Name) and x.id == v and isinstance(x.ctx, ast.Load) and x.lineno > end
                                 for x in ast.walk(f.node))
                bound_before = any(isinstance(x, ast.Assign) and any(isinstance(t, ast.Name) and t.id == v for t in x.targets)
                                   and x.lineno < loop.lineno for x in ast.walk(f.node))
                if read_after or not bound_before:
                    continue
                n += 1
                res.oblige('LOOP-COUNTER', f'{f.qualname}: `{v}` is reset for every element of the loop', False, nontrivial=True,
                           sample={'function': f.fullname, 'counter': v})
                res.add(Finding('LOOP-COUNTER', f.fullname, f'counter {v}', f'{f.module.relpath}:{aug.lineno}',
                                f'{f.qualname}: `{v}` is initialised once before the loop over `{unparse(loop.iter, 40)}`, advanced and '
                                f'tested inside it and never read afterwards: it is not reset per element, so the iteration budget of '
                                f'one element depends on how many iterations the earlier elements used', {}))
    res.inst('LOOP-COUNTER', 0)
    return n


A2_PROP_EXEMPT = {
    'photutils.segmentation.catalog.SourceCatalog.centroid_win':
        'the call summary merges the optimizer-argument list built per call (`args[3] *= fluxfrac`) with stored fields; decided by '
        'CACHE-PURE at that site',
}


def run_cache_pure_pack(repo, res, modules):
    """CACHE-PURE over a module set with the standard (named, reasoned) exemptions."""
    from .C08 import CACHE_PURE_OK
    return run_cache_pure(repo, res, modules=modules, exempt=CACHE_PURE_OK)


def run_pure_getters(repo, res, modules):
    """A property (plain or lazy) only reads: it never modifies an array stored on its object in place (E-ALIAS field-mutation
    summary of the getter, callees included).  A getter that does so changes what every other reader of the object sees,
    merely by being looked at."""
    from .C10 import get_alias
    d, _ft = get_alias(repo)
    n = 0
    for c in repo.classes.values():
        if c.module.name not in modules:
            continue
        for fs in c.methods.values():
            for f in fs:
                if not f.is_property or f.is_setter or f.fullname in A2_PROP_EXEMPT:
                    continue
                try:
                    sm = d.summary(f)
                except Exception:
                    continue
                n += 1
                res.oblige('A2-PROP', f'{f.qualname} (property) modifies no stored array of its object in place', not sm.mutf,
                           nontrivial=True, sample={'property': f.fullname} if n % 40 == 0 else None)
                for fld, sites in sm.mutf.items():
                    for s in sites.values():
                        res.add(Finding('A2-PROP', s.finfo.fullname, norm_stmt_text(s.stmt), s.loc,
                                        f'reading the property {f.qualname} modifies `self.{fld}` in place ({s.describe()}): the object '
                                        f'(and whatever shares that array) is changed by a mere read', {}))
    res.inst('A2-PROP', 0)
    return n


_SELFTEST_SRC = '''
def collect(item, bucket=[]):
    bucket.append(item)
    return bucket


def render(rows):
    out = []
    for row in rows:
        try:
            out.append(draw(row))
        except ValueError:
            break
    return out


def refine(sources):
    n = 0
    for src in sources:
        while n < 16 and not done(src):
            step(src)
            n += 1


def configure(fix_center=False, fix_pa=False, fix_eps=False):
    if fix_center or fix_eps:
        return [fix_center, fix_center, fix_pa, fix_eps]
    return None
'''
_SELFTEST_OK = None


def pack_selftest():
    """Positive examples for the function-level pack rules whose instance count on the pinned tree is zero or one: a rule that
    stopped matching its own textbook example is broken, and says so instead of passing vacuously."""
    global _SELFTEST_OK
    if _SELFTEST_OK is not None:
        return _SELFTEST_OK
    from types import SimpleNamespace
    from ..report import Result
    from ..core import set_parents
    tree = ast.parse(_SELFTEST_SRC)
    set_parents(tree)
    mod = SimpleNamespace(name='selftest', relpath='<selftest>', tree=tree)
    funcs = {}
    for n in tree.body:
        a = n.args
        funcs[n.name] = SimpleNamespace(module=mod, node=n, name=n.name, qualname=n.name, fullname='selftest.' + n.name,
                                        params=[x.arg for x in a.posonlyargs + a.args + a.kwonlyargs], loc='<selftest>', cls=None)
    fake = SimpleNamespace(functions=funcs, modules={'selftest': mod}, classes={})
    want = {'MUTABLE-DEFAULT': run_mutable_default, 'LOOP-BREAK': run_loop_break, 'LOOP-COUNTER': run_loop_counter,
            'GUARD-FAMILY': run_guard_family}
    got = {}
    for rule, fn in want.items():
        r = Result('SELFTEST')
        fn(fake, r, {'selftest'})
        got[rule] = len([f for f in r.findings if f.rule == rule])
    bad = [r for r, k in got.items() if k != 1]
    if bad:
        raise AnalysisError(f'generic pack self-test: {bad} no longer report their positive example ({got})')
    _SELFTEST_OK = got
    return got


_QF_XX = re.compile(r'(?<![a-z])[a-z]{0,4}_?xx$|x2$')
_QF_YY = re.compile(r'(?<![a-z])[a-z]{0,4}_?yy$|y2$')


def run_quadform(repo, res, modules):
    """Terms of a quadratic form: a coefficient named for one axis pair (`cxx`, `cyy`, `sigx2`) multiplies displacements of that
    axis only (`cxx * dx**2`, `cyy * dy**2`); `cyy * dx**2` mixes the axes."""
    n = 0

    def factors(e):
        if isinstance(e, ast.BinOp) and isinstance(e.op, ast.Mult):
            return factors(e.left) + factors(e.right)
        if isinstance(e, ast.BinOp) and isinstance(e.op, ast.Pow):
            return factors(e.left)
        return [e]
    for f in repo.functions.values():
        if f.module.name not in modules:
            continue
        seen = set()
        for node in ast.walk(f.node):
            if not (isinstance(node, ast.BinOp) and isinstance(node.op, ast.Mult)) or id(node) in seen:
                continue
            for sub in ast.walk(node):
                if isinstance(sub, ast.BinOp) and isinstance(sub.op, ast.Mult):
                    seen.add(id(sub))
            fs = factors(node)
            names = [x.id if isinstance(x, ast.Name) else x.attr if isinstance(x, ast.Attribute) else None for x in fs]
            coef = [(nm, 'X') for nm in names if nm and _QF_XX.search(nm)] + [(nm, 'Y') for nm in names if nm and _QF_YY.search(nm)]
            if len(coef) != 1:
                continue
            cname, want = coef[0]
            others = [AX.tag(x) for x, nm in zip(fs, names) if nm != cname]
            tagged = [t for t in others if isinstance(t, str)]
            if not tagged:
                continue
            n += 1
            ok = all(t == ('x' if want == 'X' else 'y') or t == want for t in tagged)
            res.oblige('T-AXIS', f'{f.qualname}: `{cname}` multiplies displacements of its own axis', ok, nontrivial=True,
                       sample={'function': f.fullname, 'term': unparse(node, 60)})
            if not ok:
                st = enclosing_stmt(node) or node
                res.add(Finding('T-AXIS', f.fullname, 'quadratic term ' + unparse(node, 60), f'{f.module.relpath}:{getattr(node, "lineno", 0)}',
                                f'{f.qualname}: in `{unparse(node, 70)}` the {want}-axis coefficient `{cname}` multiplies a displacement '
                                f'of the other axis: the quadratic form mixes x and y', {}))
    return n


_NAN_TWINS = ('argmax', 'argmin', 'max', 'min', 'sum', 'mean', 'median', 'std', 'var')


def run_nan_twin(repo, res, modules):
    """A function that reduces with the NaN-aware form of a numpy reduction (`np.nanargmax`) does not use the NaN-blind form of the
    same reduction elsewhere (`np.argmax`): one of its branches would then pick or propagate the masked (NaN) pixels the other
    ignores.  (No function of the pinned package mixes the two.)"""
    n = 0
    for f in repo.functions.values():
        if f.module.name not in modules:
            continue
        calls = {}
        for c in ast.walk(f.node):
            if isinstance(c, ast.Call) and isinstance(c.func, ast.Attribute) and isinstance(c.func.value, ast.Name) \
                    and c.func.value.id in ('np', 'numpy'):
                calls.setdefault(c.func.attr, c)
        used = [x for x in _NAN_TWINS if 'nan' + x in calls]
        if not used:
            continue
        n += 1
        both = [x for x in used if x in calls]
        res.oblige('NAN-TWIN', f'{f.qualname}: NaN-aware reductions are not mixed with their NaN-blind forms', not both, nontrivial=True,
                   sample={'function': f.fullname, 'reductions': ['nan' + x for x in used]})
        for x in both:
            c = calls[x]
            res.add(Finding('NAN-TWIN', f.fullname, f'np.{x} next to np.nan{x}', f'{f.module.relpath}:{c.lineno}',
                            f'{f.qualname} uses np.nan{x} on one path and np.{x} (`{unparse(c, 60)}`) on another: masked pixels are '
                            f'stored as NaN here, so the NaN-blind form selects or propagates them', {}))
    res.inst('NAN-TWIN', 0)
    return n


def run_param_unused(repo, res, modules):
    """A parameter that the reference definition reads is still read: replacing a parameter by a stored attribute of the same
    meaning (`geometry` -> `self._geometry`) silently ignores what the caller passed.  Parameters that were already unread in
    the reference (API compatibility) are listed in the canon table and skipped."""
    from .. import canon as _canon
    ref = _canon.table().get('__unread_params__')
    if ref is None:
        return 0
    n = 0
    for f in repo.functions.values():
        if f.module.name not in modules or f.fullname not in (_canon.table().get('__functions__') or ()):
            continue
        reads = {x.id for x in ast.walk(f.node) if isinstance(x, ast.Name) and isinstance(x.ctx, ast.Load)}
        # a body that is only `raise NotImplementedError` / docstring / pass reads nothing by design
        body = [s_ for s_ in f.node.body if not (isinstance(s_, ast.Expr) and isinstance(s_.value, ast.Constant))]
        if not body or all(isinstance(s_, (ast.Raise, ast.Pass)) for s_ in body):
            continue
        known = set(ref.get(f.fullname, ()))
        unread = [p for p in f.params if p not in ('self', 'cls') and p not in reads and p not in known]
        n += 1
        res.oblige('PARAM-UNUSED', f'{f.qualname} reads every parameter its reference definition reads', not unread, nontrivial=bool(f.params),
                   sample=None)
        for p in unread:
            res.add(Finding('PARAM-UNUSED', f.fullname, f'parameter {p}', f.loc,
                            f'{f.qualname} no longer reads its parameter `{p}` (the pinned definition does): what the caller passes is '
                            f'ignored and something else (a stored attribute, a default) is used in its place', {}))
    res.inst('PARAM-UNUSED', 0)
    return n


def run_castdt_pack(repo, res, modules):
    """CASTDT outside the label-array module (segmentation labels are integer by contract and keep the array's dtype)."""
    return run_cast_to_data_dtype(repo, res, set(modules) - {'photutils.segmentation.core'})


def run_append_twin(repo, res, modules):
    """Within one function, every `L.append(<name>)` on the same list appends the same name: sibling branches that record an
    element into one result list record the same thing (`indices.append(index)` / `indices.append(ierr)` is a slip)."""
    n = 0
    for f in repo.functions.values():
        if f.module.name not in modules:
            continue
        apps = {}
        for c in ast.walk(f.node):
            if isinstance(c, ast.Call) and isinstance(c.func, ast.Attribute) and c.func.attr == 'append' \
                    and isinstance(c.func.value, ast.Name) and len(c.args) == 1 and isinstance(c.args[0], ast.Name):
                apps.setdefault(c.func.value.id, []).append(c)
        for lst, calls in apps.items():
            if len(calls) < 2:
                continue
            n += 1
            names = sorted({c.args[0].id for c in calls})
            ok = len(names) == 1
            res.oblige('APPEND-TWIN', f'{f.qualname}: every append to `{lst}` records the same variable', ok, nontrivial=True,
                       sample={'function': f.fullname, 'list': lst, 'appended': names})
            if not ok:
                c = calls[-1]
                res.add(Finding('APPEND-TWIN', f.fullname, f'{lst}.append of {names}', f'{f.module.relpath}:{c.lineno}',
                                f'{f.qualname} appends different variables {names} to the same list `{lst}` on sibling paths: one of '
                                f'the branches records the wrong quantity', {}))
    res.inst('APPEND-TWIN', 0)
    return n
