"""Small rule drivers shared by several property modules."""
from __future__ import annotations

import ast

from ..core import AnalysisError, norm_stmt_text, unparse, enclosing_stmt, enclosing_function
from ..report import Finding
from .. import loops as LP
from .. import axis as AX
from ..expr import nf, nf_text


LP1C_OK = {
    ('photutils.segmentation.catalog.SourceCatalog.fluxfrac_radius', 'result'):
        '`result` is used only when the `found` flag set next to it is True (otherwise NaN is appended and the iteration continues)',
}


def run_loops(repo, res, modules, rules=('LP1', 'LP1b', 'LP2')):
    """Per-source independence of loop iterations in the given modules."""
    n_loops = 0
    for f in repo.functions.values():
        if f.module.name not in modules:
            continue
        acc = LP.function_accumulators(f.node)
        for loop in LP.loops_of(f.node):
            n_loops += 1
            if 'LP1' in rules:
                carried = LP.check_lp1(f.node, loop)
                conts = LP.lp1_containers(f.node, loop)
                res.oblige('LP1', f'{f.qualname}: loop at line {loop.lineno} carries no container entry from one iteration to the next',
                           not carried, nontrivial=bool(conts),
                           sample={'function': f.fullname, 'loop': norm_stmt_text(loop), 'outer_containers': sorted(conts)} if conts else None)
                seen = set()
                for c, k, node, wst in carried:
                    key = (c, k)
                    if key in seen:
                        continue
                    seen.add(key)
                    st = enclosing_stmt(node)
                    res.add(Finding('LP1', f.fullname, f'{c}[{k!r}] read before rewrite: {norm_stmt_text(st)}',
                                    f'{f.module.relpath}:{node.lineno}',
                                    f'{f.qualname}: `{c}[{k!r}]` is read at `{norm_stmt_text(st)}` before it is rewritten in the same '
                                    f'iteration, and the body stores a per-source value into it (`{norm_stmt_text(wst)}`): what source '
                                    f'n+1 sees depends on source n', {'container': c, 'key': k}))
            if 'LP1b' in rules:
                muts = LP.check_lp1b(f.node, loop, acc)
                res.oblige('LP1b', f'{f.qualname}: loop at line {loop.lineno} modifies no pre-loop array in place with per-iteration values',
                           not muts, nontrivial=True,
                           sample={'function': f.fullname, 'loop': norm_stmt_text(loop), 'accumulators': sorted(acc)[:6]})
                for root, st in muts:
                    res.add(Finding('LP1b', f.fullname, norm_stmt_text(st), f'{f.module.relpath}:{st.lineno}',
                                    f'{f.qualname}: `{norm_stmt_text(st)}` modifies `{root}` (defined before the loop, or a view of it) '
                                    f'in place with a per-iteration value; it is not the function\'s result accumulator, so later '
                                    f'iterations see the leftovers of earlier ones', {'array': root}))
            if 'LP1' in rules:
                stale = [n_ for n_ in LP.check_lp1c(f.node, loop) if (f.fullname, n_.id) not in LP1C_OK]
                res.oblige('LP1c', f'{f.qualname}: loop at line {loop.lineno}: every loop-local is assigned on every path before it is used',
                           not stale, nontrivial=True)
                seen_c = set()
                for n_ in stale:
                    if n_.id in seen_c:
                        continue
                    seen_c.add(n_.id)
                    st_ = enclosing_stmt(n_)
                    res.add(Finding('LP1c', f.fullname, f'{n_.id} used at {norm_stmt_text(st_)}', f'{f.module.relpath}:{n_.lineno}',
                                    f'{f.qualname}: `{n_.id}` is assigned per iteration inside the loop and is used at `{norm_stmt_text(st_)}` on a '
                                    f'path of the iteration that did not assign it (e.g. an exception handler that falls through): the value '
                                    f'computed for the previous source is used for this one', {'name': n_.id}))
            if 'LP2' in rules:
                hits, nsites = LP.check_lp2(f.node, loop)
                if nsites:
                    res.oblige('LP2', f'{f.qualname}: first-iteration action cannot be skipped', not hits, nontrivial=True,
                               sample={'function': f.fullname, 'loop': norm_stmt_text(loop)})
                for node, why in hits:
                    res.add(Finding('LP2', f.fullname, norm_stmt_text(node) if isinstance(node, ast.stmt) else unparse(node, 100),
                                    f'{f.module.relpath}:{node.lineno}',
                                    f'{f.qualname}: an action guarded by `index == 0` can be skipped for row 0 ({why}); it is then '
                                    f'never performed for the rows that follow', {}))
    res.inst('loops-examined', n_loops)
    return n_loops


# T-AXIS conflicts that are known to be outside any listed property (reported in evidence only)
def run_axis(repo, res, modules, mirror=True, exempt=None):
    exempt = exempt or {}
    checked_total = 0
    mirrors = 0
    for f in repo.functions.values():
        if f.module.name not in modules:
            continue
        confs, checked = AX.axis_conflicts(f.node)
        checked_total += checked
        res.inst('T-AXIS', checked)
        res.obligations += checked
        res.discharged += checked - len(confs)
        if checked:
            res.nontrivial.add(('T-AXIS', f.fullname))
        for node, msg in confs:
            st = enclosing_stmt(node) or node
            key = (f.fullname, norm_stmt_text(st))
            if key in exempt:
                res.discharged += 1
                continue
            res.add(Finding('T-AXIS', f.fullname, norm_stmt_text(st), f'{f.module.relpath}:{getattr(node, "lineno", 0)}',
                            f'{f.qualname}: x/y pairing conflict: {msg}', {}))
        if mirror:
            for kind, s1, s2, diffs in AX.mirror_scan_function(f.node):
                mirrors += 1
                res.inst('T-MIRROR')
                res.obligations += 1
                if kind == 'mirror':
                    res.discharged += 1
                    if len([s for s in res.samples if s.get('rule') == 'T-MIRROR']) < 3:
                        res.samples.append({'rule': 'T-MIRROR', 'function': f.fullname, 'x_side': unparse(s1, 80), 'y_side': unparse(s2, 80)})
                else:
                    st = enclosing_stmt(s2) or s2
                    key = (f.fullname, norm_stmt_text(st))
                    if key in exempt:
                        res.discharged += 1
                        continue
                    bad = ', '.join(f'`{t2[1]}`' for _, _, t2 in diffs)
                    res.add(Finding('T-MIRROR', f.fullname, norm_stmt_text(st), f'{f.module.relpath}:{getattr(s2, "lineno", 0)}',
                                    f'{f.qualname}: `{unparse(s2, 90)}` is the axis mirror of `{unparse(s1, 90)}` except for {bad}, '
                                    f'which was left un-mirrored (copy-paste signature)', {}))
            res.nontrivial.add(('T-MIRROR', f.fullname))
    # sibling definitions whose names are x/y mirrors
    if mirror:
        seen = set()
        for f in repo.functions.values():
            if f.module.name not in modules:
                continue
            m = AX.mirror_name(f.name)
            if not m or AX.name_tag(f.name) != 'X':
                continue
            scope = f.cls.methods if f.cls is not None else None
            g = None
            if f.cls is not None and m in f.cls.methods:
                g = f.cls.methods[m][0]
            elif f.cls is None and m in f.module.functions:
                g = f.module.functions[m]
            if g is None:
                continue
            kind, diffs = AX.mirror_functions(f.node, g.node)
            res.inst('T-MIRROR')
            res.obligations += 1
            mirrors += 1
            if kind == 'copy-paste':
                bad = ', '.join(f'`{t2[1]}`' for _, _, t2 in diffs)
                res.add(Finding('T-MIRROR', g.fullname, f'def {g.name} vs def {f.name}', g.loc,
                                f'{g.qualname} is the axis mirror of {f.qualname} except for {bad}, which was left un-mirrored', {}))
            else:
                res.discharged += 1
    return checked_total, mirrors


def subscripts_using(func_node, base_names):
    """(base name, index nf, node) for every Load subscript of the named bases."""
    out = []
    for n in ast.walk(func_node):
        if isinstance(n, ast.Subscript) and isinstance(n.value, ast.Name) and n.value.id in base_names \
                and isinstance(n.ctx, ast.Load):
            out.append((n.value.id, nf(n.slice) if not isinstance(n.slice, ast.Slice) else unparse(n.slice, 0), n))
    return out


def expect_stmt(res, rule, f, want_nf, meaning, stmts=None):
    """Some statement of the function has the given normal form."""
    from ..spec import nf_stmt
    pool = stmts if stmts is not None else [s for s in ast.walk(f.node) if isinstance(s, (ast.Assign, ast.AugAssign, ast.Return, ast.Expr))]
    ok = any(_safe_nf(s) == want_nf for s in pool)
    res.oblige(rule, f'{f.qualname}: {meaning}', ok, nontrivial=True, sample={'function': f.fullname, 'want': want_nf})
    if not ok:
        res.add(Finding(rule, f.fullname, meaning, f.loc, f'{f.qualname}: {meaning} - no statement with normal form `{want_nf}`', {}))
    return ok


def _safe_nf(s):
    from ..spec import nf_stmt
    try:
        return nf_stmt(s)
    except Exception:
        return None


DEADSTORE_OK = {
    ('photutils.isophote.sample.EllipseSample._iter_sigma_clip', 'count'): 'loop counter kept for readability; never used',
}


def run_deadstore(repo, res, modules):
    """A local that is assigned by a plain single-name assignment and never read is either dead
    code or - the case that matters - a misspelt target whose intended variable keeps its old value."""
    n = 0
    for f in repo.functions.values():
        if f.module.name not in modules:
            continue
        stores, loads = {}, set()
        for x in ast.walk(f.node):
            if isinstance(x, ast.Name):
                if isinstance(x.ctx, ast.Store):
                    stores.setdefault(x.id, []).append(x)
                else:
                    loads.add(x.id)
        params = set(f.params)
        for name, nodes in stores.items():
            plain = [x for x in nodes if isinstance(getattr(x, '_parent', None), ast.Assign)
                     and len(x._parent.targets) == 1 and x._parent.targets[0] is x]
            if not plain:
                continue
            n += 1
            ok = name in loads or name.startswith('_') or name in params or (f.fullname, name) in DEADSTORE_OK
            res.oblige('DEADSTORE', f'{f.qualname}: local `{name}` is read somewhere', ok, nontrivial=False)
            if not ok:
                st = plain[0]._parent
                res.add(Finding('DEADSTORE', f.fullname, norm_stmt_text(st), f'{f.module.relpath}:{st.lineno}',
                                f'{f.qualname}: `{name}` is assigned at `{norm_stmt_text(st)}` but never read: the value does not reach '
                                f'the result (misspelt target? the intended variable keeps its previous value)', {}))
    return n


def run_class_mutable(repo, res, modules):
    """A class-level attribute bound to a mutable literal that methods modify through `self`
    is shared by all instances: what one object caches/records leaks into every other."""
    n = 0
    for c in repo.classes.values():
        if c.module.name not in modules:
            continue
        for name, val in c.class_attrs.items():
            mutable = isinstance(val, (ast.Dict, ast.List, ast.Set)) or \
                (isinstance(val, ast.Call) and unparse(val.func, 0).split('.')[-1] in ('dict', 'list', 'set', 'defaultdict', 'OrderedDict'))
            if not mutable or name.startswith('__') or name in ('_params', '__slots__'):
                continue
            # rebound per instance in __init__?
            init = c.lookup('__init__')
            rebound = False
            if init is not None:
                for node in ast.walk(init.node):
                    if isinstance(node, ast.Assign) and any(isinstance(t, ast.Attribute) and isinstance(t.value, ast.Name)
                                                            and t.value.id == 'self' and t.attr == name for t in node.targets):
                        rebound = True
            mutated = None
            for f in c.all_functions():
                for node in ast.walk(f.node):
                    tgt = None
                    if isinstance(node, (ast.Assign, ast.AugAssign)):
                        for t in (node.targets if isinstance(node, ast.Assign) else [node.target]):
                            if isinstance(t, ast.Subscript) and isinstance(t.value, ast.Attribute) and isinstance(t.value.value, ast.Name) \
                                    and t.value.value.id == 'self' and t.value.attr == name:
                                mutated = (f, node)
                    if isinstance(node, ast.Call) and isinstance(node.func, ast.Attribute) and isinstance(node.func.value, ast.Attribute) \
                            and isinstance(node.func.value.value, ast.Name) and node.func.value.value.id == 'self' \
                            and node.func.value.attr == name and node.func.attr in ('append', 'extend', 'update', 'add', 'setdefault', 'pop', 'clear'):
                        mutated = (f, node)
            n += 1
            ok = rebound or mutated is None
            res.oblige('CLASS-MUTABLE', f'{c.name}.{name}: mutable class attribute is not modified through instances', ok, nontrivial=True,
                       sample={'class': c.fullname, 'attr': name})
            if not ok:
                f, node = mutated
                res.add(Finding('CLASS-MUTABLE', c.fullname, f'class attribute {name}', f'{c.module.relpath}:{val.lineno}',
                                f'{c.name}.{name} is a mutable object created once in the class body and modified through `self` in '
                                f'{f.qualname} (`{norm_stmt_text(enclosing_stmt(node))}`) without being rebound in __init__: all '
                                f'instances share it, so results depend on what other objects did before', {}))
    res.inst('CLASS-MUTABLE', 0)
    return n


import re as _re
_NONFINITE_MSG = _re.compile(r'non-finite|NaNs? or infs?|invalid values \(NaN', _re.I)


def run_nonfinite(repo, res, modules=None):
    """A function that tells the user it handled/rejects *non-finite* values (NaN or inf) must detect them with
    an isfinite-based test (directly or in the function that hands it the mask); an isnan-only test lets +-inf through."""
    n = 0
    for f in repo.functions.values():
        if modules is not None and f.module.name not in modules:
            continue
        if f.outer is not None:
            continue
        msgs = [c for c in ast.walk(f.node) if isinstance(c, ast.Constant) and isinstance(c.value, str)
                and _NONFINITE_MSG.search(c.value) and not _is_doc(c)]
        if not msgs:
            continue
        src = ast.unparse(f.node)
        has_finite = 'isfinite(' in src or 'masked_invalid(' in src
        if not has_finite:
            # the mask may be handed in by the caller (Background2D._combine_all_masks(mask = ~isfinite(...)))
            callers_ok = False
            for g in repo.functions.values():
                if g is f or g.module is not f.module:
                    continue
                gs = ast.unparse(g.node)
                if f'{f.name}(' in gs and ('isfinite(' in gs):
                    callers_ok = True
            has_finite = callers_ok
        n += 1
        res.oblige('NONFINITE', f'{f.qualname}: the non-finite handling it announces is based on isfinite()', has_finite, nontrivial=True,
                   sample={'function': f.fullname, 'message': msgs[0].value[:60]})
        if not has_finite:
            res.add(Finding('NONFINITE', f.fullname, 'non-finite detection', f.loc,
                            f'{f.qualname} tells the user that non-finite values (NaN or inf) are masked/rejected but contains no '
                            f'isfinite()-based test: +-inf pixels are not caught by an isnan test and enter the computation', {}))
    return n


def _is_doc(const):
    p = getattr(const, '_parent', None)
    pp = getattr(p, '_parent', None)
    return isinstance(p, ast.Expr) and isinstance(pp, (ast.FunctionDef, ast.ClassDef, ast.Module, ast.AsyncFunctionDef))
