"""Declarative spec rows added per property (kinds: see common.apply_specs).  One row = one documented formula, default, order
or condition of the pinned tree that a clause of the property depends on; compared on normal forms after the refactor-reversal
pass, so temporaries, helper extraction, call style and early-exit shape do not matter.  Rows shared by several properties are
listed under each property that depends on the function."""

SEG = 'photutils.segmentation'
CAT = f'{SEG}.catalog.SourceCatalog'
AS = 'photutils.aperture.stats.ApertureStats'

_GET_LABELS = [
    (f'{CAT}.get_labels', 'stmt', 'sorter = np.argsort(self.labels)', 'labels are looked up through the sorting permutation of the catalog labels'),
    (f'{CAT}.get_labels', 'stmt', 'indices = sorter[np.searchsorted(self.labels, labels, sorter=sorter)]',
     'row index = sorter[position in the sorted labels] (valid for catalogs in any order)'),
]
_LOCALBKG = [
    (f'{CAT}._local_background_apertures', 'expr',
     'RectangularAnnulus((0.5 * (bbox_.ixmin + bbox_.ixmax - 1), 0.5 * (bbox_.iymin + bbox_.iymax - 1)), '
     '(bbox_.ixmax - bbox_.ixmin) * 1.5, (bbox_.ixmax - bbox_.ixmin) * 1.5 + 2 * self.localbkg_width, '
     '(bbox_.iymax - bbox_.iymin) * 1.5 + 2 * self.localbkg_width, (bbox_.iymax - bbox_.iymin) * 1.5, theta=0.0) ||| '
     'RectangularAnnulus((xpos, ypos), width_in, width_out, height_out, height_in, theta=0.0)',
     'the local-background annulus has constant width: inner and outer heights are both given'),
]
_SEG_LABELS = [
    (f'{SEG}.deblend._create_relabel_map', 'stmt', 'labels = _get_labels(array)',
     'labels of the array = non-zero unique values (an array without background keeps its first label)'),
    (f'{SEG}.core.SegmentationImage.get_indices', 'ret', 'np.searchsorted(self.labels, labels)',
     'indices are returned in the order of the requested labels'),
    (f'{SEG}.core.SegmentationImage.labels', 'expr', 'zip(labels_all, self._raw_slices, strict=True)',
     'labels from the cached slices: one slot per label value (missing labels included)'),
    (f'{SEG}.core.SegmentationImage.labels', 'stmt', 'labels_all = np.arange(len(self._raw_slices)) + 1',
     'labels from the cached slices: one slot per label value (missing labels included)'),
]
_DO_PHOT_VAR = [
    ('photutils.aperture.core.PixelAperture.do_photometry', 'stmt', 'variance = (error[slc_large]**2 * aper_weights)[pixel_mask]',
     'the variance is summed over the selected good pixels (masked pixels are excluded, not multiplied by zero)'),
    ('photutils.aperture.core.PixelAperture.do_photometry', 'stmt', 'values = (data[slc_large] * aper_weights)[pixel_mask]',
     'the data are summed over the selected good pixels'),
]

_ORIENT = 'orient_radians = 0.5 * np.arctan2(2.0 * covar[:, 0, 1], covar[:, 0, 0] - covar[:, 1, 1])'
_COVAR = [(cls_, kind_, text_, why_) for cls_ in (CAT, AS) for kind_, text_, why_ in (
    ('stmt', 'idx = np.where(covar_det < delta2)[0]', 'only the covariance matrices that are still (near-)singular are regularised'),
    ('stmt', 'covar[idx, 0, 0] += delta', 'the regularisation touches the selected sources only'),
    ('stmt', 'covar[idx, 1, 1] += delta', 'the regularisation touches the selected sources only'),
    ('test', 'idx.size > 0', 'the regularisation loop runs while a selected matrix is still (near-)singular'))]
_SHAPE_TWINS = [(f'{CAT}.orientation', 'stmt', _ORIENT, 'orientation keeps the quadrant (arctan2 of the two covariance terms)'),
                (f'{AS}.orientation', 'stmt', _ORIENT, 'orientation keeps the quadrant (arctan2 of the two covariance terms)')] + \
    [(f'{c_}._covariance', k_, t_, w_) for c_, k_, t_, w_ in _COVAR]

EXTRA_SPECS = {
    'C01': [('photutils.aperture.mask.ApertureMask.to_image', 'nret', '2', 'to_image returns a freshly filled image (or None without overlap): no view of the mask data'),
            ('photutils.aperture.mask.ApertureMask.to_image', 'ret', 'None ||| image', 'to_image returns a freshly filled image')],
    'C13': [('photutils.psf.gridded_models.GriddedPSFModel._calc_model_values', 'stmt', 'idx = np.where(weights != 0)',
             'every ePSF with a non-zero bilinear weight contributes (the weights sum to one)')] + [('photutils.psf.model_helpers.grid_from_epsfs', 'stmt', 'grid_xypos = list(zip(x_0s, y_0s, strict=True))',
             'grid positions stay in the order of the stacked ePSF arrays')],
    'C04': [
        (f'{SEG}.detect.detect_threshold', 'guard', 'data = np.ma.MaskedArray(data, mask) ||| background is None; error is None; mask is None',
         'the mask is applied whenever the background or the error has to be estimated from the data'),
        (f'{SEG}.finder.SourceFinder.__call__', 'expr',
         'detect_sources(data, threshold, self.npixels[0], mask=mask, connectivity=self.connectivity)',
         'detection uses the first (detection) element of npixels'),
    ],
    'C06': _SEG_LABELS + [
        (f'{SEG}.deblend._SingleSourceDeblender.make_markers', 'expr',
         '_detect_sources(self.data, thresholds[0], self.npixels, self.footprint, self.segment_mask, relabel=False, return_segmimg=False)',
         'the lowest-level markers obey npixels like every other level (no child seeded by a smaller island)'),
        (f'{SEG}.deblend._SingleSourceDeblender.make_markers', 'expr',
         '_detect_sources(self.data, threshold, self.npixels, self.footprint, self.segment_mask, relabel=False, return_segmimg=False)',
         'the upper-level markers obey npixels'),
        (f'{SEG}.finder.SourceFinder.__call__', 'expr',
         'detect_sources(data, threshold, self.npixels[0], mask=mask, connectivity=self.connectivity)',
         'detection uses the first (detection) element of npixels'),
    ],
    'C05': [(f'{SEG}.core.SegmentationImage.missing_labels', 'ret',
             'np.array(sorted(set(range(self.max_label + 1)).difference(np.insert(self.labels, 0, 0))))',
             'missing labels are counted from 1 (every unused number below max_label)'),
            (f'{SEG}.core.SegmentationImage.areas', 'ret',
             'np.array([np.count_nonzero(self._data[slices] == label) for label, slices in zip(self.labels, self.slices, strict=True)]) ||| np.array(areas)',
             'one area per label, counted in the label\'s own bounding box (arrays without background included)'),
            (f'{SEG}.core.SegmentationImage.areas', 'expr', 'np.count_nonzero(self._data[slices] == label)',
             'one area per label, counted in the label\'s own bounding box')] + _SEG_LABELS,
    'C07': _SHAPE_TWINS + _GET_LABELS + _LOCALBKG + [
        (f'{CAT}.get_labels', 'guard', 'indices = sorter[np.searchsorted(self.labels, labels, sorter=sorter)] ||| ',
         'the sorted lookup is used for every catalog order (no shortcut for catalogs that merely look ascending)')],
    'C08': _SHAPE_TWINS + _GET_LABELS + [
        (f'{CAT}.add_extra_property', 'guard', 'setattr(self, name, value) ||| ',
         'an extra property is always rebound, never written into the existing array (a sliced catalog holds a view of it)'),
        (f'{CAT}.get_labels', 'guard', 'indices = sorter[np.searchsorted(self.labels, labels, sorter=sorter)] ||| ',
         'the sorted lookup is used for every catalog order (no shortcut for catalogs that merely look ascending)'),
        (f'{AS}.isscalar', 'ret', 'self._pixel_aperture.isscalar', 'scalar-ness is that of the (converted, cached) pixel aperture'),
        (f'{AS}.n_apertures', 'ret', '1 ||| len(self._pixel_aperture)', 'the number of apertures is that of the (converted, cached) pixel aperture'),
    ],
    'C03': [(f'{CAT}._make_elliptical_apertures', 'expr', 'CircularAperture((values[0], values[1]), r=self.kron_params[2])',
             'the minimum-radius circular fallback is centred on (xcentroid, ycentroid) like the elliptical aperture')] + _LOCALBKG,
    'C11': [('photutils.background.background_2d.Background2D._good_npixels_threshold', 'ret',
             '(1 - (self.exclude_percentile / 100.0)) * self._box_npixels',
             'the good-pixel threshold is the exact (fractional) percentile of the box size: no truncation to whole percents or pixels'),
            ('photutils.background.background_2d.Background2D._interpolate_grid', 'expr',
             'interp_func(yx_indices, n_neighbors=n_neighbors, power=power, eps=eps, reg=reg)',
             'the IDW options are passed by name (the interpolator takes them in another order)')] + [
        ('photutils.background.core.StdBackgroundRMS.calc_background_rms', 'stmt', 'result = nanstd(data, axis=axis)',
         'the RMS is the two-pass standard deviation (shift invariant)'),
        ('photutils.extern.biweight.biweight_midvariance', 'expr',
         'where_func(mad.squeeze(axis=axis) == 0, 0.0, value)', 'boxes with zero MAD have zero midvariance, not 0/0'),
        ('photutils.extern.biweight.biweight_location', 'expr',
         'where_func(mad.squeeze(axis=axis) == 0, M.squeeze(axis=axis), value)',
         'boxes with zero MAD take the median'),
    ],
    'C12': [('photutils.psf.photometry.PSFPhotometry._get_fit_error_indices', 'expr', 'indices.append(index)',
             'a non-converged fit is recorded by its source index')] + [
        ('photutils.psf.photometry.PSFPhotometry._prepare_fit_inputs', 'order', 'self._make_mask ||| self._prepare_init_params',
         'the non-finite pixels are masked before the initial parameters (finder, aperture fluxes, local background) are derived'),
    ],
    'C14': [('photutils.detection.daofinder._DAOStarFinderCatalog.__init__', 'stmt',
             'self.cutout_center = tuple((size - 1) // 2 for size in kernel.shape)',
             'the cutout centre is the (row, column) centre of the kernel array')] + [('photutils.utils._parameters.as_pair', 'stmt',
             'value = np.array((min(value[0], upper_bound[0]), min(value[1], upper_bound[1])))',
             'each element is clipped to the bound of its own axis'),
            ('photutils.detection.core._validate_brightest', 'stmt', 'brightest = bright_int', 'brightest is returned as an int'),
            ('photutils.detection.core._validate_brightest', 'stmt', 'bright_int = int(brightest)', 'brightest is returned as an int')] + [
        ('photutils.detection.starfinder._StarFinderCatalog.apply_filters', 'stmt',
         "attrs = ('xcentroid', 'ycentroid', 'fwhm', 'roundness', 'pa', 'max_value', 'flux')",
         'rows with any non-finite measured quantity are non-detections'),
    ],
    'C15': [('photutils.profiles.core.ProfileBase.normalize', 'stmt', 'self.normalization_value *= normalization',
             'the normalization keeps its unit (Quantity profiles)'),
            (f'{AS}._unpack_nddata', 'test', 'data.uncertainty.unit is None', 'the error takes the unit of the uncertainty, not of the data'),
            (f'{AS}._unpack_nddata', 'stmt', 'error = data.uncertainty.array * data.uncertainty.unit',
             'the error takes the unit of the uncertainty, not of the data')] + [
        (f'{AS}._data_cutouts', 'expr', 'self._data[slices[0]].astype(float, copy=True) - local_bkg',
         'the background-subtracted cutout is a float copy whatever the input dtype'),
        ('photutils.utils.interpolation.ShepardIDWInterpolator.__call__', 'default', 'dtype=float',
         'interpolated values are floating point whatever the dtype of the known values'),
    ],
    'C16': [(f'{AS}.biweight_midvariance', 'ret', 'self._calculate_stats(biweight_midvariance, unit=unit)',
             'the documented biweight midvariance (astropy defaults) of the unmasked aperture pixels')] + [(f'{AS}.__getitem__', 'expr', "keys.add('_local_bkg')", 'the per-position local background is sliced with the index, like the cached per-position values'),
            (f'{AS}.__getitem__', 'stmt',
             "init_attr = ('_data', '_data_unit', '_error', '_mask', '_wcs', 'sigma_clip', 'sum_method', 'subpixels', 'default_columns', 'meta')",
             'only position-independent attributes are copied unsliced')] + _SHAPE_TWINS + [
        (f'{AS}.sum_aper_area', 'nret', '1', 'one definition of the area for every configuration (no shortcut that skips the data/non-finite mask)'),
        (f'{AS}.sum_aper_area', 'stmt', 'areas = np.array([np.sum(weight.filled(0.0)) for weight in self._weight_cutout])',
         'area = sum of the unmasked sum-method weights'),
    ],
    'C17': [
        ('photutils.centroids.core.centroid_com', 'test', 'total == 0',
         'only a vanishing total has no centre of mass: a negative total (absorption-like or over-subtracted cutout) still has its weighted mean'),
        ('photutils.centroids.gaussian._gaussian1d_moments', 'stmt',
         'x_stddev = np.sqrt(abs(np.sum(data * (x - x_mean) ** 2) / np.sum(data)))',
         'the initial width is real also for marginals with negative wings'),
        ('photutils.centroids.core.centroid_quadratic', 'test', 'np.count_nonzero(~np.isnan(cutout)) < 6',
         'six unmasked points determine the quadratic: only fewer than six are rejected'),
    ],
    'C18': [('photutils.psf.photometry.ModelImageMixin.make_model_image', 'stmt',
             'fit_params = vstack((fit_params, psfphot._fit_model_params))',
             'fit tables are stacked oldest first, like the list of local backgrounds')] + [
        ('photutils.datasets.images._model_shape_from_bbox', 'ret',
         '(int(np.ceil(bbox[0][1] - bbox[0][0])), int(np.ceil(bbox[1][1] - bbox[1][0])))',
         'the window is the bounding-box extent rounded up (an integral extent is kept)'),
        ('photutils.psf.photometry.IterativePSFPhotometry.make_residual_image', 'ret',
         'ModelImageMixin.make_residual_image(self, data, psf_shape=psf_shape, include_localbkg=include_localbkg)',
         'the residual wrapper forwards psf_shape unchanged, like make_model_image'),
        ('photutils.psf.photometry.IterativePSFPhotometry.make_residual_image', 'nret', '1', 'the wrapper only forwards'),
        ('photutils.psf.photometry.PSFPhotometry.make_residual_image', 'ret',
         'ModelImageMixin.make_residual_image(self, data, psf_shape=psf_shape, include_localbkg=include_localbkg)',
         'the residual wrapper forwards psf_shape unchanged, like make_model_image'),
    ],
    'C19': [('photutils.profiles.core.ProfileBase._photometry', 'guard',
             'area = aperture.area_overlap(self.data, mask=self.mask, method=self.method, subpixels=self.subpixels) ||| aperture is None',
             'the area is the overlap area of the same mask/method/subpixels as the sum, for every aperture')] + _DO_PHOT_VAR + [
        ('photutils.profiles.radial_profile.RadialProfile.radius', 'ret', '(self.radii[:-1] + self.radii[1:]) / 2',
         'bin centres are the means of the two edges of each bin (valid for non-uniform radii)'),
    ],
    'C20': [('photutils.isophote.integrator._NearestNeighborIntegrator.integrate', 'stmt',
             'j = int(radius * math.sin(phi + self._geometry.pa) + self._geometry.y0)', 'row index from the y centre'),
            ('photutils.isophote.integrator._NearestNeighborIntegrator.integrate', 'stmt',
             'i = int(radius * math.cos(phi + self._geometry.pa) + self._geometry.x0)', 'column index from the x centre'),
            ('photutils.isophote.ellipse.Ellipse._iterative', 'expr', 'CentralEllipseSample(self.image, 0.0, geometry=geometry)',
             'the central sample uses the geometry handed in (the innermost fitted isophote)')] + [
        ('photutils.isophote.integrator._BiLinearIntegrator.integrate', 'stmt',
         'sample = (self._image[j][i] * qx * qy + self._image[j + 1][i] * qx * fy + self._image[j][i + 1] * fx * qy '
         '+ self._image[j + 1][i + 1] * fy * fx)',
         'bilinear sample = weighted sum of the four pixels (no pixel differences: unsigned images do not wrap)'),
    ],
}

_RESID_WRAPPER = '''
def make_residual_image(self, data, *, psf_shape=None, include_localbkg=False):
    return ModelImageMixin.make_residual_image(self, data, psf_shape=psf_shape, include_localbkg=include_localbkg)
'''
_MODEL_WRAPPER = '''
def make_model_image(self, shape, *, psf_shape=None, include_localbkg=False):
    return ModelImageMixin.make_model_image(self, shape, psf_shape=psf_shape, include_localbkg=include_localbkg)
'''

EXTRA_PATHSUMS = {
    'C18': [
        ('photutils.psf.photometry.IterativePSFPhotometry.make_residual_image', _RESID_WRAPPER,
         'the wrapper forwards its arguments unchanged (model and residual images use the same window)'),
        ('photutils.psf.photometry.PSFPhotometry.make_residual_image', _RESID_WRAPPER,
         'the wrapper forwards its arguments unchanged (model and residual images use the same window)'),
        ('photutils.psf.photometry.IterativePSFPhotometry.make_model_image', _MODEL_WRAPPER,
         'the wrapper forwards its arguments unchanged'),
        ('photutils.psf.photometry.PSFPhotometry.make_model_image', _MODEL_WRAPPER,
         'the wrapper forwards its arguments unchanged'),
    ],
    'C13': [
        ('photutils.psf.image_models.ImagePSF.origin.setter', '''
def origin(self, origin):
    if origin is None:
        origin = (np.array(self.data.shape) - 1.0) / 2.0
        origin = origin[::-1]
    else:
        origin = np.asarray(origin)
        if origin.ndim != 1 or len(origin) != 2:
            raise ValueError('origin must be 1D and have 2-elements')
        if not np.all(np.isfinite(origin)):
            raise ValueError('All elements of origin must be finite')
    self._origin = origin
''', 'only the default origin (centre of the (ny, nx) array) is flipped to (x, y); a user origin is stored as given'),
    ],
}
