"""C06 - deblending only refines segments and is independent of worker scheduling."""
from __future__ import annotations

import ast

from ..core import AnalysisError, norm_stmt_text, unparse, enclosing_stmt
from ..report import Finding, Result
from ..expr import Inliner, nf, nf_text
from .. import sched as SC
from .. import spec as SP
from ..forward import run_forward
from .C10 import get_alias, collect as a1_collect

PROP = 'C06'
DEB = 'photutils.segmentation.deblend.deblend_sources'


def _names_used_after(func, loop, names):
    used = set()
    after = False
    for n in ast.walk(func):
        if hasattr(n, 'lineno') and n.lineno > loop.end_lineno and isinstance(n, ast.Name) \
                and isinstance(n.ctx, ast.Load) and n.id in names:
            used.add(n.id)
    return used


def run_sched(repo, res):
    loops_total = 0
    for f in repo.functions.values():
        loops = SC.as_completed_loops(f.node)
        for loop in loops:
            if getattr(loop, '_finfo_done', False):
                continue
            from ..core import enclosing_function
            if enclosing_function(loop) is not f.node:
                continue
            loops_total += 1
            fut, futmap, idx_names, result_lists, body_defs, bad = SC.check_loop(res, f, loop)
            ok = not bad and len(result_lists) == 1
            res.oblige('SCHED', f'{f.qualname}: as_completed body only stores results[submission index]', ok,
                       nontrivial=True, sample={'function': f.fullname, 'future_map': futmap,
                                                'result_lists': sorted(result_lists),
                                                'body': [norm_stmt_text(s) for s in loop.body]})
            for st in bad:
                res.add(Finding('SCHED', f.fullname, norm_stmt_text(st), f'{f.module.relpath}:{st.lineno}',
                                f'{f.qualname}: statement `{norm_stmt_text(st)}` inside the as_completed loop does work in '
                                f'completion order; only `idx = {futmap}[future]`, `results[idx] = future.result()` and '
                                f'progress-bar calls commute over all completion orders', {}))
            if not result_lists and not bad:
                res.add(Finding('SCHED', f.fullname, 'as_completed loop stores no indexed result', f'{f.module.relpath}:{loop.lineno}',
                                f'{f.qualname}: worker results are not stored by submission index', {}))
            # the map future -> index is filled with the enumerate index at submission
            sub_ok = False
            for n in ast.walk(f.node):
                if isinstance(n, ast.Assign) and len(n.targets) == 1 and isinstance(n.targets[0], ast.Subscript) \
                        and unparse(n.targets[0].value, 0) == futmap and isinstance(n.value, ast.Name):
                    # value must be the enumerate counter of the enclosing for
                    p = getattr(n, '_parent', None)
                    while p is not None and not isinstance(p, ast.For):
                        p = getattr(p, '_parent', None)
                    if p is not None and isinstance(p.iter, ast.Call) and unparse(p.iter.func, 0) == 'enumerate' \
                            and isinstance(p.target, ast.Tuple) and isinstance(p.target.elts[0], ast.Name) \
                            and p.target.elts[0].id == n.value.id and 'submit' in unparse(n.targets[0].slice, 0):
                        sub_ok = True
            res.oblige('SCHED', f'{f.qualname}: futures are mapped to their enumerate() submission index', sub_ok, nontrivial=True)
            if not sub_ok:
                res.add(Finding('SCHED', f.fullname, 'future -> index map', f'{f.module.relpath}:{loop.lineno}',
                                f'{f.qualname}: the future->index map is not filled with the enumerate() index at submit time', {}))
            # results list is pre-sized and later consumed in submission order together with the labels
            for rl in result_lists:
                pre = False
                for n in ast.walk(f.node):
                    if isinstance(n, ast.Assign) and any(isinstance(t, ast.Name) and t.id == rl for t in n.targets):
                        pre = pre or (isinstance(n.value, ast.BinOp) and isinstance(n.value.op, ast.Mult)
                                      and (isinstance(n.value.left, ast.List) or isinstance(n.value.right, ast.List)))
                res.oblige('SCHED', f'{f.qualname}: `{rl}` is a pre-sized list', pre, nontrivial=True)
                if not pre:
                    res.add(Finding('SCHED', f.fullname, f'{rl} not pre-sized', f'{f.module.relpath}:{loop.lineno}',
                                    f'{f.qualname}: `{rl}` must be pre-sized so that indexed stores commute', {}))
                merged = False
                for n in ast.walk(f.node):
                    if isinstance(n, ast.For) and n.lineno > loop.end_lineno and isinstance(n.iter, ast.Call) \
                            and unparse(n.iter.func, 0) == 'zip':
                        args = [unparse(a, 0) for a in n.iter.args]
                        if rl in args and 'labels' in args:
                            merged = True
                res.oblige('SCHED', f'{f.qualname}: `{rl}` is merged by zip with the labels (submission order)', merged, nontrivial=True)
                if not merged:
                    res.add(Finding('SCHED', f.fullname, f'{rl} merge order', f'{f.module.relpath}:{loop.lineno}',
                                    f'{f.qualname}: results must be merged in a loop over zip(labels, ..., {rl}) '
                                    f'(submission order), not in completion order', {}))
            leak = _names_used_after(f.node, loop, (body_defs | {fut}) - result_lists)
            res.oblige('SCHED', f'{f.qualname}: nothing defined in the as_completed body is used after it', not leak, nontrivial=True)
            if leak:
                res.add(Finding('SCHED', f.fullname, f'names {sorted(leak)} escape the as_completed loop',
                                f'{f.module.relpath}:{loop.lineno}',
                                f'{f.qualname}: {sorted(leak)} are defined per completed future and used after the loop: '
                                f'their final value depends on which worker finished last', {}))
    res.inst('SCHED-loops', loops_total)


def merge_blocks(repo, res):
    """Serial and pool branches merge each per-source result with the same program."""
    f = repo.get_function(DEB)
    ifs = [n for n in ast.walk(f.node) if isinstance(n, ast.If) and nf(n.test) == nf_text('source_deblended is not None')]
    warns = [n for n in ast.walk(f.node) if isinstance(n, ast.If) and nf(n.test) == 'warns']
    if len(ifs) != 2 or len(warns) != 2:
        raise AnalysisError(f'deblend_sources: expected 2 merge blocks and 2 warning blocks, found {len(ifs)}/{len(warns)}')
    for kind, pair in (('merge', ifs), ('warnings', warns)):
        a = [SP.nf_stmt(s) if not isinstance(s, ast.If) else ast.dump(s) for s in pair[0].body]
        b = [SP.nf_stmt(s) if not isinstance(s, ast.If) else ast.dump(s) for s in pair[1].body]
        ok = a == b
        res.oblige('SIB', f'deblend_sources: serial and pool {kind} blocks are the same program', ok, nontrivial=True,
                   sample={'serial': a[:6], 'pool': b[:6]})
        if not ok:
            diff = [(x, y) for x, y in zip(a, b) if x != y][:2]
            res.add(Finding('SIB', f.fullname, f'{kind} blocks differ', f'{f.module.relpath}:{pair[1].lineno}',
                            f'deblend_sources: the nproc=1 and nproc>1 branches merge per-source results differently '
                            f'({diff}): the output depends on nproc', {}))
    # the merge program itself: children get fresh labels above the running maximum
    blk = ifs[0].body
    stm = [SP.nf_stmt(s) for s in blk]
    want = [
        ('source_mask = ' + nf_text('source_deblended > 0'), 'children are the positive pixels of the per-source result'),
        ('new_segm = ' + nf_text('source_deblended[source_mask]'), 'child labels restricted to the source mask'),
        (nf_text('segm_deblended[source_slice][source_mask]') + ' = ' + nf_text('new_segm + max_label'),
         'children written inside the parent cutout only, offset by the running maximum label'),
        ('new_labels = ' + nf_text('_get_labels(new_segm) + max_label'), 'new labels = child labels + running maximum'),
        (nf_text('deblend_label_map[label]') + ' = new_labels', 'parent -> children map entry'),
        (nf_text('max_label') + ' Add= ' + nf_text('len(new_labels)'), 'running maximum advanced by the number of children'),
    ]
    for w, meaning in want:
        ok = w in stm
        res.oblige('MERGE', f'deblend_sources merge: {meaning}', ok, nontrivial=True, sample={'want': w})
        if not ok:
            res.add(Finding('MERGE', f.fullname, f'merge step: {meaning}', f'{f.module.relpath}:{ifs[0].lineno}',
                            f'deblend_sources: merge step "{meaning}" not found in normal form `{w}`; found {stm}', {}))
    init = [n for n in ast.walk(f.node) if isinstance(n, ast.Assign) and len(n.targets) == 1
            and isinstance(n.targets[0], ast.Name) and n.targets[0].id == 'max_label']
    ok = len(init) == 1 and nf(init[0].value) == 'segment_img.max_label'
    res.oblige('MERGE', 'running maximum starts at segment_img.max_label', ok, nontrivial=True)
    if not ok:
        res.add(Finding('MERGE', f.fullname, 'max_label initialisation', f.loc,
                        'deblend_sources: the running maximum label must start at segment_img.max_label (largest label '
                        'in the array, not the label count), otherwise new child labels collide with existing segments', {}))
    # work on a copy of the label array; every store target derives from that copy
    copies = [n for n in ast.walk(f.node) if isinstance(n, ast.Assign) and len(n.targets) == 1
              and isinstance(n.targets[0], ast.Name) and n.targets[0].id == 'segm_deblended']
    ok = bool(copies) and nf(copies[0].value) == nf_text('segment_img.data.copy()')
    res.oblige('MERGE', 'segm_deblended = segment_img.data.copy()', ok, nontrivial=True)
    if not ok:
        res.add(Finding('MERGE', f.fullname, 'working copy', f.loc, 'deblend_sources must work on a copy of the label array', {}))
    # contrast == 1 returns a copy
    rets = [n for n in ast.walk(f.node) if isinstance(n, ast.Return) and n.value is not None]
    early = [r for r in rets if 'segment_img' in unparse(r.value, 0)]
    ok = all(nf(r.value) == nf_text('segment_img.copy()') for r in early) and len(early) >= 1
    res.oblige('MERGE', 'contrast == 1 returns segment_img.copy()', ok, nontrivial=True)
    if not ok:
        res.add(Finding('MERGE', f.fullname, 'no-deblend return', f.loc, 'the contrast == 1 path must return a copy of the input', {}))
    # per-source inputs: cutouts of data and of the label array with the same slice
    for name, spec in (('source_data', 'data[source_slice]'), ('source_segment', 'segment_img.data[source_slice]'),
                       ('source_slice', 'segment_img.slices[label_idx]')):
        defs = [n for n in ast.walk(f.node) if isinstance(n, ast.Assign) and len(n.targets) == 1
                and isinstance(n.targets[0], ast.Name) and n.targets[0].id == name]
        ok = len(defs) == 2 and all(nf(d.value) == nf_text(spec) for d in defs)
        res.oblige('MERGE', f'{name} = {spec} in both branches', ok, nontrivial=True)
        if not ok:
            res.add(Finding('MERGE', f.fullname, f'{name} definition', f.loc,
                            f'deblend_sources: `{name}` must be `{spec}` in both branches (data and segment cutouts registered)', {}))


def final_relabel(repo, res):
    f = repo.get_function(DEB)
    ok1 = ok2 = False
    for n in ast.walk(f.node):
        if isinstance(n, ast.Assign) and len(n.targets) == 1 and isinstance(n.targets[0], ast.Name):
            if n.targets[0].id == 'relabel_map' and nf(n.value) == nf_text('_create_relabel_map(segm_deblended, start_label=1)'):
                ok1 = True
                # labels 1..N for relabel=True on EVERY path: the step depends on `relabel` alone
                from ..guards import guard_of, atoms
                all_atoms = set(atoms(guard_of(n, f.node)))
                # conditions of the enclosing `if`s only (argument validation that raises earlier is irrelevant)
                g_atoms = set()
                ch, par = n, getattr(n, '_parent', None)
                while par is not None and par is not f.node:
                    if isinstance(par, ast.If) and any(x is ch for x in par.body + par.orelse):
                        g_atoms |= set(atoms(guard_of(par.body[0], par)))
                    ch, par = par, getattr(par, '_parent', None)
                okg = g_atoms <= {'relabel'} and 'relabel' in all_atoms
                res.oblige('RELABEL', 'deblend_sources: the final relabel step is conditioned on `relabel` only', okg, nontrivial=True)
                if not okg:
                    res.add(Finding('RELABEL', f.fullname, 'final relabel guard', f'{f.module.relpath}:{n.lineno}',
                                    f'deblend_sources: the final relabel step runs under conditions {sorted(g_atoms)} instead of '
                                    f'`relabel` alone: with relabel=True the output labels are not 1..N when the extra condition fails', {}))
            if n.targets[0].id == 'segm_deblended' and nf(n.value) == nf_text('relabel_map[segm_deblended]'):
                ok2 = True
    calls = SP.find_calls(f.node, '_update_deblend_label_map')
    ok3 = len(calls) == 1 and [nf(a) for a in calls[0].args] == ['deblend_label_map', 'relabel_map']
    if not calls:
        # the helper inlined: for parent, children in deblend_label_map.items(): deblend_label_map[parent] = relabel_map[children]
        for lp in ast.walk(f.node):
            if isinstance(lp, ast.For) and nf(lp.iter) == nf_text('deblend_label_map.items()') and isinstance(lp.target, ast.Tuple) \
                    and len(lp.target.elts) == 2 and all(isinstance(e, ast.Name) for e in lp.target.elts) and len(lp.body) == 1 \
                    and isinstance(lp.body[0], ast.Assign):
                k_, v_ = (e.id for e in lp.target.elts)
                if SP.nf_stmt(lp.body[0]) == f'deblend_label_map[{k_}] = relabel_map[{v_}]':
                    ok3 = True
    for ok, what in ((ok1, 'relabel map from _create_relabel_map(segm_deblended, start_label=1)'),
                     (ok2, 'relabel map applied to the array'), (ok3, 'relabel map applied to the parent->children map')):
        res.oblige('RELABEL', f'deblend_sources: {what}', ok, nontrivial=True)
        if not ok:
            res.add(Finding('RELABEL', f.fullname, what, f.loc, f'deblend_sources final relabel: {what} not found', {}))
    # footprint-equality guard before markers are accepted
    g = repo.get_function('photutils.segmentation.deblend._SingleSourceDeblender.apply_watershed') \
        if 'photutils.segmentation.deblend._SingleSourceDeblender.apply_watershed' in repo.functions else None
    cls = repo.get_class('photutils.segmentation.deblend._SingleSourceDeblender')
    guard = False
    for fn in cls.all_functions():
        src = ast.unparse(fn.node)
        if 'array_equal' in src and 'segment_mask' in src or ('array_equal' in src and '!= 0' in src):
            guard = True
    res.oblige('GUARD', 'deblender checks that the deblended footprint equals the parent footprint', guard, nontrivial=True)
    if not guard:
        res.add(Finding('GUARD', cls.fullname, 'footprint-equality guard', cls.module.relpath,
                        'the footprint-equality guard of the single-source deblender is gone', {}))


def run(repo, tier):
    res = Result(PROP)
    res.explanation = (
        'Schedule clause decided for ALL completion orders: SCHED (the only as_completed loop stores results[submission index] into a '
        'pre-sized list; futures are mapped to their enumerate index; the merge iterates zip(labels, slices, results) in submission '
        'order; nothing defined per completed future escapes) - writes to pairwise distinct indices commute. SIB (serial and pool '
        'merge blocks are the same program), MERGE (children get fresh labels above a running maximum that starts at max_label; stores go '
        'to a copy, inside the parent cutout and source mask), RELABEL, GUARD, FWD (SourceFinder forwards every option to '
        'detect_sources/deblend_sources) and A1 (the input segmentation image reaches no in-place write).')
    res.not_decided = 'that the watershed partitions each parent exactly and that every child has >= npixels pixels.'
    res.assumptions = ['ProcessPoolExecutor futures return what the worker returned (no shared state between workers: spawn context)']
    run_sched(repo, res)
    merge_blocks(repo, res)
    final_relabel(repo, res)
    run_forward(repo, res, {'photutils.segmentation.finder', 'photutils.segmentation.deblend', 'photutils.segmentation.detect'})
    a1_collect(repo, res, modules={'photutils.segmentation.deblend', 'photutils.segmentation.finder'})
    res.floor('SCHED-loops', 1)
    res.floor('SCHED', 2)
    res.floor('SIB', 2)
    res.floor('MERGE', 10)
    res.floor('FWD', 8)
    res.exhaustive_rules = ['SCHED over every as_completed loop in the package (all completion orders by commutation)']
    from .common import apply_specs
    apply_specs(repo, res, [
        ('photutils.segmentation.deblend.deblend_sources', 'stmt', 'label_indices = segment_img.get_indices(labels)',
         'the slices/labels of the selected sources are looked up by label value (indices into segment_img.labels)'),
        ('photutils.segmentation.deblend._SingleSourceDeblender.deblend_source', 'test', 'len(_get_labels(markers)) == 1',
         'the "nothing to deblend" test counts the markers that SURVIVED the watershed/contrast pruning'),
    ])
    from .common import guard_only
    ds = repo.method('photutils.segmentation.deblend._SingleSourceDeblender', 'deblend_source')
    rl = [a_ for a_ in ast.walk(ds.node) if isinstance(a_, ast.Assign) and unparse(a_.targets[0], 0) == 'relabel_map'
          and '_create_relabel_map' in unparse(a_.value, 0)]
    if len(rl) != 1:
        raise AnalysisError('vanished anchor: child renumbering in _SingleSourceDeblender.deblend_source')
    guard_only(res, 'GUARD', ds, rl[0], set(), 'the renumbering of the children to 1..k',
               'gaps also come from the npixels filter; with gaps the merge advances max_label by len(new_labels) and the next parent reuses a label')
    apply_specs(repo, res, [('photutils.segmentation.deblend.deblend_sources', 'stmt', 'deblend_label_map = {}',
                             'the parent->children map starts empty (records of an earlier deblending of the input do not leak in)')])
    # the property reads the segmentation image through its cached attributes: they must describe the current label array
    from . import lazyrules as _LR
    _LR.run_L1(repo, res, PROP, _LR.lazy_classes(repo, only={'photutils.segmentation.core.SegmentationImage'}))
    from .common import run_generic_pack
    run_generic_pack(repo, res, PROP, ())
    return res
