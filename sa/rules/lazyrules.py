"""Shared rule drivers for the lazy-cache properties (C05, C09, C19)."""
from __future__ import annotations

import ast

from ..core import ClassInfo, norm_stmt_text, enclosing_stmt, AnalysisError
from ..lazy import (LazyClass, StaleFlow, entry_methods, KillUse, self_attr,
                    self_dict_key, is_self)
from ..report import Finding
from .. import guards as G

# (method name, lazy key) -> reason the seeded value equals what the getter computes
ALLOWED_SEEDS = {
    ('photutils.segmentation.core.SegmentationImage', 'data', 'labels'):
        'the setter seeds `labels` with self._get_labels(value), the same call the getter makes on the new array',
    ('photutils.segmentation.core.SegmentationImage', 'relabel_consecutive', 'labels'):
        'new_labels = arange(nlabels)+start_label is exactly the sorted label set of new_label_map[data]',
    ('photutils.segmentation.core.SegmentationImage', 'relabel_consecutive', 'slices'):
        'relabelling is order preserving, so the i-th slice still bounds the i-th label (comment in the source)',
    ('photutils.segmentation.core.SegmentationImage', 'reset_cmap', 'cmap'):
        'documented mutator: assigns a new random colormap; no other lazy depends on cmap',
}

# (method qualname, lazy key) -> reason a value-changing seed is the documented effect of the method
VALUE_SEEDS_OK = {
    ('ProfileBase.normalize', 'profile'): 'documented mutator: rescales the cached profile (all-or-nothing: C19 ATOMIC/MIRROR)',
    ('ProfileBase.normalize', 'profile_error'): 'documented mutator: rescales the cached profile error (C19 ATOMIC/MIRROR)',
    ('ProfileBase.unnormalize', 'profile'): 'documented mutator: undoes normalize (C19 ATOMIC/MIRROR)',
    ('ProfileBase.unnormalize', 'profile_error'): 'documented mutator: undoes normalize (C19 ATOMIC/MIRROR)',
}

# (function qualname, key) -> reason a `'key' in self.__dict__` test is history independent
ALLOWED_CACHE_TESTS = {
    ('SegmentationImage.data', '_data'):
        'descriptor idiom: no reset needed before the first assignment (guards only the reset call)',
    ('SegmentationImage.labels', '_raw_slices'):
        'two computations of the same label set (from find_objects output or from np.unique)',
    ('Background2D.__repr_str_params', '_mask'): 'repr helper',
    ('Background2D.__repr_str_params', 'coverage_mask'): 'repr helper',
    ('Background2D.background_mesh', 'background_rms_mesh'):
        'guards a memory-saving kill; decided by rule L3 (kill/use typestate), not by L2',
}


def lazy_classes(repo, only=None):
    out = []
    for c in repo.classes.values():
        if only is not None and c.fullname not in only:
            continue
        lc = LazyClass(repo, c)
        if lc.lazies:
            out.append(lc)
    return out


def allowed_seed_set(cls):
    s = set()
    for (cn, meth, key) in ALLOWED_SEEDS:
        if cls.is_subclass_of(cn):
            s.add((meth, key))
    return s


def run_L1(repo, res, prop, lcs, rule='L1'):
    """Every mutator invalidates every dependent cache (all histories: the
    obligation is per (entry method, lazy) pair, any prior cache content)."""
    used_seeds = set()
    for lc in lcs:
        seeds = allowed_seed_set(lc.cls)
        for f in entry_methods(lc):
            # entries inherited from a base are analysed in the subclass context too
            sf = StaleFlow(lc, f, allowed_seeds=seeds).analyse()
            stale = sf.stale_at_exit()
            wrote = any(e[0] == 'write' for e in sf.events)
            for L in lc.lazies:
                ok = L not in stale
                res.oblige(rule, f'{lc.cls.name}: {f.qualname}{" (setter)" if f.is_setter else ""} leaves `{L}` coherent',
                           ok, nontrivial=wrote,
                           sample={'class': lc.cls.fullname, 'entry': f.qualname, 'lazy': L,
                                   'events': [f'{k}:{n}' for k, n, _ in sf.events[:8]]} if wrote else None)
            for L, cause in stale.items():
                fld, node, fi = cause if cause else (None, None, f)
                st = enclosing_stmt(node) if node is not None else f.node
                res.add(Finding(
                    rule, fi.fullname, f'{norm_stmt_text(st)} => stale `{L}`',
                    f'{fi.module.relpath}:{getattr(st, "lineno", 0)}',
                    f'{lc.cls.name}.{f.name}: write to `{fld}` at `{norm_stmt_text(st)}` is not followed by an '
                    f'invalidation of the cached `{L}` (depends on `{fld}`) on every path to a normal exit',
                    {'class': lc.cls.fullname, 'entry': f.qualname, 'lazy': L, 'field': fld}))
            for key, node, fi in sf.bad_seeds:
                # a seed outside the table changes state: its dependents were
                # handled above (write to '@key'); record for evidence
                res.notes.setdefault('value_changing_seeds', [])
                d = f'{fi.qualname}: {norm_stmt_text(enclosing_stmt(node))}'
                if d not in res.notes['value_changing_seeds']:
                    res.notes['value_changing_seeds'].append(d)
                # a cache re-seeded by a mutator with a value the table does not vouch for: the attribute no longer describes
                # the state the mutator leaves behind (the cached list was computed for the old state)
                if key in lc.lazies and (fi.qualname, key) not in VALUE_SEEDS_OK:
                    st_ = enclosing_stmt(node)
                    res.oblige('SEED', f'{fi.qualname} does not re-seed the cached `{key}` with an unvouched value', False, nontrivial=True)
                    res.add(Finding('SEED', fi.fullname, f'seed {key}: {norm_stmt_text(st_)}',
                                    f'{fi.module.relpath}:{getattr(st_, "lineno", 0)}',
                                    f'{lc.cls.name}.{f.name}: `{norm_stmt_text(st_)}` stores a value into the lazyproperty cache `{key}` '
                                    f'that is not in the table of seeds known to equal what the getter would compute after this '
                                    f'mutator: later reads of `{key}` (and of what depends on it) describe the old state', {}))
            for k in seeds:
                used_seeds.add(k)
    return used_seeds


def run_L2(repo, res, prop, lcs, rule='L2'):
    """No branching on cache presence that changes values."""
    seen = set()
    for lc in lcs:
        for f in list(lc.members.values()) + list(lc.setters.values()):
            for node in ast.walk(f.node):
                if not (isinstance(node, ast.Compare) and len(node.ops) == 1
                        and isinstance(node.ops[0], (ast.In, ast.NotIn))
                        and isinstance(node.left, ast.Constant)):
                    continue
                c = node.comparators[0]
                if not (isinstance(c, ast.Attribute) and c.attr == '__dict__' and is_self(c.value)):
                    continue
                key = node.left.value
                k = (f.fullname, key, node.lineno)
                if k in seen:
                    continue
                seen.add(k)
                why = ALLOWED_CACHE_TESTS.get((f.qualname, key))
                if why is None and _guards_only_reset(node, lc):
                    why = 'guards only a cache reset'
                res.oblige(rule, f'{f.qualname}: test `{key!r} in self.__dict__` is history independent',
                           why is not None, nontrivial=True,
                           sample={'function': f.fullname, 'key': key, 'reason': why})
                if why is None:
                    st = enclosing_stmt(node)
                    res.add(Finding(
                        rule, f.fullname, norm_stmt_text(st), f'{f.module.relpath}:{node.lineno}',
                        f'{f.qualname} branches on whether `{key}` is already cached and the guarded code '
                        f'changes state/values: the result depends on what was read before',
                        {'key': key}))


def _guards_only_reset(test, lc):
    st = enclosing_stmt(test)
    if not isinstance(st, ast.If) or st.orelse:
        return False
    for b in st.body:
        if not (isinstance(b, ast.Expr) and isinstance(b.value, ast.Call)
                and isinstance(b.value.func, ast.Attribute) and is_self(b.value.func.value)
                and b.value.func.attr in lc.reset_all_methods):
            return False
    return True


def run_L3(repo, res, prop, lcs, rule='L3', skip_call_reachable=True):
    from ..ecall import CallFlow
    for lc in lcs:
        ku = KillUse(lc)
        if not ku.kill_sites():
            continue
        # per-call resets inside __call__-reachable code are E-CALL's business
        call_reach = set()
        callf = lc.cls.lookup('__call__')
        if callf is not None and skip_call_reachable:
            cf = CallFlow(lc.cls, callf).analyse()
            for a, ws in cf.writes.items():
                for st, fi in ws:
                    call_reach.add(id(st))
        orig = ku.kill_sites
        ku.kill_sites = lambda: [k for k in orig() if id(k[1]) not in call_reach]
        findings, obligations = ku.check()
        for field, killer, kind, chain, ok in obligations:
            res.oblige(rule, f'{lc.cls.name}: kill of `{field}` in {killer} vs {kind} via {" -> ".join(chain)}',
                       ok, nontrivial=True,
                       sample={'class': lc.cls.fullname, 'field': field, 'killer': killer, 'reader_chain': list(chain)})
        for fd in findings:
            st = fd['stmt']
            M = fd['killer']
            res.add(Finding(
                rule, M.fullname, f'{norm_stmt_text(st)} then {fd["chain"][-1]} uses `{fd["field"]}`',
                f'{M.module.relpath}:{st.lineno}',
                f'`self.{fd["field"]}` is dropped at `{norm_stmt_text(st)}` in {M.qualname} but can still be used: '
                f'{fd["kind"]} via {" -> ".join(fd["chain"])} under {{{", ".join(f"{k}={v}" for k, v in sorted(fd["witness"].items()))}}}',
                {'field': fd['field'], 'chain': list(fd['chain']), 'witness': fd['witness']}))
