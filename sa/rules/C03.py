"""C03 - results are covariant under integer translation and axis transposition."""
from __future__ import annotations

import ast
import re

from ..core import AnalysisError, norm_stmt_text, unparse, enclosing_stmt
from ..report import Finding, Result
from ..expr import nf, nf_text
from ..lazy import self_attr
from .. import spec as SP
from .common import run_axis, expect_stmt

PROP = 'C03'
MODS = {'photutils.aperture.bounding_box', 'photutils.aperture.core', 'photutils.aperture.mask', 'photutils.aperture.stats',
        'photutils.segmentation.catalog', 'photutils.segmentation.detect', 'photutils.detection.peakfinder',
        'photutils.detection.core', 'photutils.detection.daofinder', 'photutils.detection.irafstarfinder',
        'photutils.detection.starfinder', 'photutils.centroids.core', 'photutils.centroids.gaussian',
        'photutils.profiles.core', 'photutils.profiles.radial_profile', 'photutils.profiles.curve_of_growth',
        'photutils.datasets.images', 'photutils.utils._moments', 'photutils.utils.cutouts',
        'photutils.segmentation.utils', 'photutils.segmentation.core', 'photutils.segmentation.deblend',
        'photutils.aperture.circle', 'photutils.aperture.ellipse', 'photutils.aperture.rectangle',
        'photutils.datasets.model_params', 'photutils.psf.model_helpers', 'photutils.utils._stats'}
CLASSES = ['photutils.segmentation.catalog.SourceCatalog', 'photutils.aperture.stats.ApertureStats']
ORIGIN_RE = re.compile(r'(bbox_xmin|bbox_ymin|\.start|ixmin|iymin|cutout_xorigin|cutout_yorigin)')


def frame_pairs(repo, res):
    n = 0
    for cn in CLASSES:
        c = repo.get_class(cn)
        mem = c.all_methods()
        pairs = [(x[7:], x) for x in mem if x.startswith('cutout_') and x[7:] in mem]
        img_names = {p[0] for p in pairs} | {m for m in mem if re.match(r'^_?[xy]centroid(_win|_quad)?$', m)} | \
            {m for m in mem if re.match(r'^(min|max)val_[xy]index$', m)}
        for img, cut in pairs:
            fi, fc = mem[img], mem[cut]
            src_i, src_c = ast.unparse(fi.node), ast.unparse(fc.node)
            # which direction?
            i_from_c = f'self.{cut}' in src_i
            c_from_i = f'self.{img}' in src_c and not i_from_c
            n += 1
            ok = False
            how = None
            if i_from_c:
                # IMG = CUT + origin (per axis): an Add whose operands are the cutout value and an origin term
                for node in ast.walk(fi.node):
                    if isinstance(node, ast.BinOp) and isinstance(node.op, ast.Add):
                        for l, r_ in ((unparse(node.left, 0), unparse(node.right, 0)), (unparse(node.right, 0), unparse(node.left, 0))):
                            if (f'self.{cut}' in l or 'idx[' in l or l in ('idx', 'index')) and (ORIGIN_RE.search(r_) or r_ == 'origin'):
                                ok = True
                                how = f'{img} = {cut} + origin'
                if ok and 'origin' in src_i and 'origin =' in src_i.replace('origin = ', 'origin ='):
                    # origin must itself be built from origin sources
                    od = [s for s in ast.walk(fi.node) if isinstance(s, ast.Assign) and unparse(s.targets[0]) == 'origin']
                    ok = all(ORIGIN_RE.search(unparse(s.value, 0)) for s in od)
            elif c_from_i:
                for node in ast.walk(fc.node):
                    if isinstance(node, ast.BinOp) and isinstance(node.op, ast.Sub):
                        l, r_ = unparse(node.left, 0), unparse(node.right, 0)
                        if f'self.{img}' in l and (ORIGIN_RE.search(r_) or r_ == 'origin'):
                            ok = True
                            how = f'{cut} = {img} - origin'
            res.oblige('T-FRAME', f'{c.name}: `{img}` and `{cut}` differ by the bounding-box origin', ok, nontrivial=True,
                       sample={'class': cn, 'image_frame': img, 'cutout_frame': cut, 'relation': how})
            if not ok:
                res.add(Finding('T-FRAME', fi.fullname if i_from_c else fc.fullname, f'{img} vs {cut}', fi.loc,
                                f'{c.name}.{img} and {c.name}.{cut} must differ by exactly the bounding-box / slice origin (image frame '
                                f'= cutout frame + origin); no such relation found', {}))
            # NOCROSS: the cutout-frame getter reads no image-frame position other than its own twin
            for node in ast.walk(fc.node):
                a = self_attr(node)
                if a in img_names and isinstance(node.ctx, ast.Load) and not (c_from_i and a == img):
                    # allowed when the origin is subtracted in the same expression
                    p = getattr(node, '_parent', None)
                    sub_ok = False
                    q = node
                    while p is not None and not isinstance(p, ast.stmt):
                        if isinstance(p, ast.BinOp) and isinstance(p.op, ast.Sub) and ORIGIN_RE.search(unparse(p.right, 0)):
                            sub_ok = True
                        q, p = p, getattr(p, '_parent', None)
                    res.oblige('T-FRAME', f'{c.name}.{cut} does not mix in the image-frame `{a}`', sub_ok, nontrivial=True)
                    if not sub_ok:
                        st = enclosing_stmt(node)
                        res.add(Finding('T-FRAME', fc.fullname, norm_stmt_text(st), f'{fc.module.relpath}:{node.lineno}',
                                        f'{c.name}.{cut} (cutout-relative) reads the image-frame position `self.{a}`: the bounding-box '
                                        f'origin is then added twice for sources away from the array origin', {}))
            # and the image-frame getter reads no *other* cutout-frame position
            for node in ast.walk(fi.node):
                a = self_attr(node)
                if a and a.startswith('cutout_') and a != cut and a[7:] in img_names and isinstance(node.ctx, ast.Load):
                    res.add(Finding('T-FRAME', fi.fullname, unparse(node), f'{fi.module.relpath}:{node.lineno}',
                                    f'{c.name}.{img} reads the cutout-relative `self.{a}` of another quantity without re-basing it', {}))
    res.inst('T-FRAME-pairs', n)


def finder_cutouts(repo, res):
    for cn in ('photutils.detection.daofinder._DAOStarFinderCatalog', 'photutils.detection.irafstarfinder._IRAFStarFinderCatalog'):
        f = repo.method(cn, 'make_cutouts')
        expect_stmt(res, 'SPEC', f, 'cutouts = ' + nf_text('[extract_array(data, self.cutout_shape, (ypos, xpos), fill_value=0.0) '
                                                           'for xpos, ypos in self.xypos]'),
                    'star cutouts extracted around (ypos, xpos), the xypos rows unpacked as (xpos, ypos)')
    f = repo.method('photutils.detection.starfinder._StarFinderCatalog', 'slices')
    SP.returns_match(repo, res, 'SPEC', f.fullname,
                     ["[overlap_slices(self.data.shape, self.shape, (ypos, xpos), mode='trim')[0] for xpos, ypos in self.xypos]"],
                     'the large slices of the kernel-sized window around (ypos, xpos), trimmed to the image')


def run(repo, tier):
    res = Result(PROP)
    res.explanation = (
        'The two slips the property names are decided structurally over the 19 modules it anchors: T-FRAME (every (X, cutout_X) '
        'property pair of SourceCatalog/ApertureStats differs by exactly the bounding-box/slice origin; no cutout-relative getter reads an '
        'image-frame position and vice versa) and T-AXIS/T-MIRROR (x/y pairing of keywords, assignments, 2-D subscripts, comparisons with '
        'shape/slice extents, pair orders incl. external coordinate-order models for map_coordinates/overlap_slices/extract_array/mgrid/'
        'unravel_index/meshgrid; copy-paste signatures between mirrored statements and x/y sibling definitions); finder cutouts are '
        'extracted around (ypos, xpos); per-axis loops of the marginal Gaussian centroid cover both axes.')
    res.not_decided = 'invariance of fluxes/shapes under the shift and the theta -> 90deg - theta relation (numerical).'
    res.assumptions = ['the repository naming conventions for x/y quantities (tag system is silent on unknown names)']
    frame_pairs(repo, res)
    finder_cutouts(repo, res)
    from .C17 import gaussian_rules, paired_slicing
    gaussian_rules(repo, res)
    paired_slicing(repo, res)
    from .C01 import extent_rules
    extent_rules(repo, res)
    run_axis(repo, res, MODS)
    from .common import run_round
    run_round(repo, res, MODS)
    res.floor('T-FRAME-pairs', 6)
    res.floor('T-AXIS', 150)
    res.floor('T-MIRROR', 150)
    res.exhaustive_rules = ['T-FRAME over every (X, cutout_X) property pair']
    from .C14 import find_peaks_rules
    find_peaks_rules(repo, res)
    from .common import run_no_cached_property, run_unravel, run_slice_kind
    run_no_cached_property(repo, res, {m for m in repo.modules if '.tests' not in m and 'extern' not in m})
    run_unravel(repo, res, {m for m in repo.modules if '.tests' not in m and 'extern' not in m})
    run_slice_kind(repo, res, {m for m in repo.modules if '.tests' not in m and 'extern' not in m})
    res.floor('SLICE-KIND', 15)
    # the property goes through BoundingBox.from_float / get_overlap_slices: C01's rules for them are its rules too
    from .C01 import bbox_rules as _c01_bbox_rules
    _c01_bbox_rules(repo, res)
    from .common import run_generic_pack
    run_generic_pack(repo, res, PROP, MODS)
    return res
