"""C07 - SourceCatalog measurements equal their definitions on the segment pixels."""
from __future__ import annotations

import ast
import re

from ..core import AnalysisError, norm_stmt_text, unparse
from ..report import Finding, Result
from ..expr import nf, nf_text, rename
from ..axis import body_without_doc, mirror_name
from .. import spec as SP
from .common import run_loops, run_axis, expect_stmt
from .C10 import collect as a1_collect

PROP = 'C07'
SC = 'photutils.segmentation.catalog.SourceCatalog'
MODS = {'photutils.segmentation.catalog', 'photutils.utils._moments', 'photutils.segmentation.utils'}


def _bitor_terms(e):
    if isinstance(e, ast.BinOp) and isinstance(e.op, ast.BitOr):
        return _bitor_terms(e.left) + _bitor_terms(e.right)
    return [e]


def body_nf(f):
    out = []
    for s in body_without_doc(f.node):
        try:
            out.append(SP.nf_stmt(s) if not isinstance(s, (ast.If, ast.For, ast.With)) else ast.unparse(s))
        except Exception:
            out.append(ast.unparse(s))
    return out


def definitions(repo, res):
    R = lambda name, forms, meaning: SP.returns_match(repo, res, 'SPEC', f'{SC}.{name}', forms, meaning)
    R('_cutout_segment_masks', ['[segm != label for label, segm in zip(self.labels, self._segment_img_cutouts, strict=True)]'],
      'per source: pixels of the bounding box that do not carry this source\'s label')
    R('_cutout_data_masks', ['self._make_cutout_data_masks(self._data_cutouts, self._mask_cutouts)',
                             '[self._make_cutout_data_mask(data_cutout, mask_cutout) for data_cutout, mask_cutout in '
                             'zip(self._data_cutouts, self._mask_cutouts, strict=True)]'], 'per source: non-finite data | input mask')
    R('_all_masked', ['np.array([np.all(mask) for mask in self._cutout_total_masks])'], 'completely masked = every pixel of the TOTAL mask (other labels | mask | non-finite)')
    R('_data_values', ['self._get_values(self.data_ma)'], 'unmasked data values of the segment')
    R('_error_values', ['self._get_values(self.error_ma)'], 'unmasked error values of the segment')
    R('_background_values', ['self._get_values(self.background_ma)'], 'unmasked background values of the segment')
    R('_get_values', ['[arr.compressed() if len(arr.compressed()) > 0 else np.array([np.nan]) for arr in array]'],
      'compressed values, a single NaN for completely masked sources')
    R('_segment_img_cutouts', ['[self._segment_img.data[slc] for slc in self._slices_iter]'], 'label cutouts with the source slices')
    R('_data_cutouts', ['[self._data[slc] for slc in self._slices_iter]'], 'data cutouts with the source slices')
    f = repo.method(SC, '_make_cutout_data_mask')
    expect_stmt(res, 'SPEC', f, 'data_mask = ' + nf_text('~np.isfinite(data_cutout)'), 'non-finite data pixels masked')
    expect_stmt(res, 'SPEC', f, 'data_mask BitOr= mask_cutout', 'input mask joined')
    f = repo.method(SC, '_cutout_total_masks')
    comps = [n for n in ast.walk(f.node) if isinstance(n, ast.ListComp)]
    ok = len(comps) == 1 and len(comps[0].generators) == 1 and isinstance(comps[0].elt, ast.BinOp) and isinstance(comps[0].elt.op, ast.BitOr) \
        and nf(comps[0].generators[0].iter) == nf_text('zip(self._cutout_segment_masks, self._cutout_data_masks, strict=True)') \
        and sorted([nf(comps[0].elt.left), nf(comps[0].elt.right)]) == sorted(nf(e_) for e_ in comps[0].generators[0].target.elts)
    res.oblige('SPEC', '_cutout_total_masks: total mask = segment mask | data mask, element by element', ok, nontrivial=True)
    if not ok:
        res.add(Finding('SPEC', f.fullname, 'total mask', f.loc, '_cutout_total_masks must be [segment_mask | data_mask for each source]', {}))
    res.oblige('SPEC', '_cutout_total_masks pairs segment masks with data masks', ok, nontrivial=True)
    if not ok:
        res.add(Finding('SPEC', f.fullname, 'total mask operands', f.loc, '_cutout_total_masks must combine _cutout_segment_masks with _cutout_data_masks', {}))
    # moment cutouts: the array handed to the moments is a copy of the (convolved) cutout with its OWN
    # non-finite and negative pixels, the other labels and the input mask zeroed
    f = repo.method(SC, '_moment_data_cutouts')
    copies = [(n_.targets[0].id, n_.value.func.value) for n_ in ast.walk(f.node)
              if isinstance(n_, ast.Assign) and len(n_.targets) == 1 and isinstance(n_.targets[0], ast.Name)
              and isinstance(n_.value, ast.Call) and isinstance(n_.value.func, ast.Attribute) and n_.value.func.attr == 'copy'
              and not n_.value.args]
    zeroed = [n_ for n_ in ast.walk(f.node) if isinstance(n_, ast.Assign) and len(n_.targets) == 1
              and isinstance(n_.targets[0], ast.Subscript) and isinstance(n_.targets[0].value, ast.Name)
              and isinstance(n_.targets[0].slice, ast.Name)
              and isinstance(n_.value, ast.Constant) and n_.value.value == 0]
    if len(copies) != 1 or len(zeroed) != 1 or zeroed[0].targets[0].value.id != copies[0][0]:
        raise AnalysisError('vanished anchor: SourceCatalog._moment_data_cutouts copy-then-zero idiom')
    src_arr = nf(copies[0][1])
    mname = zeroed[0].targets[0].slice.id
    terms = set()
    for n_ in ast.walk(f.node):
        if isinstance(n_, ast.Assign) and len(n_.targets) == 1 and isinstance(n_.targets[0], ast.Name) and n_.targets[0].id == mname:
            terms |= {nf(d_) for d_ in _bitor_terms(n_.value)}
        if isinstance(n_, ast.AugAssign) and isinstance(n_.target, ast.Name) and n_.target.id == mname and isinstance(n_.op, ast.BitOr):
            terms |= {nf(d_) for d_ in _bitor_terms(n_.value)}
    # loop variables -> the per-source lists they iterate over
    zsrc = {}
    for lp in ast.walk(f.node):
        if isinstance(lp, ast.For) and isinstance(lp.iter, ast.Call) and unparse(lp.iter.func, 0) == 'zip' \
                and isinstance(lp.target, ast.Tuple):
            for tv, it in zip(lp.target.elts, lp.iter.args):
                if isinstance(tv, ast.Name):
                    zsrc[tv.id] = nf(it)
    sources = {zsrc.get(t, t) for t in terms}
    total = 'self._cutout_total_masks' in sources
    for want, meaning in ((nf_text(f'~np.isfinite({src_arr})'), 'its own non-finite pixels'),
                          (nf_text(f'{src_arr} < 0'), 'its own negative pixels'),
                          ('self._cutout_segment_masks', 'pixels of other labels'), ('self._mask_cutouts', 'input-mask pixels')):
        ok = want in terms or want in sources or (total and want.startswith('self._'))
        res.oblige('SPEC', f'_moment_data_cutouts zeroes {meaning} of `{src_arr}` before the moments', ok, nontrivial=True,
                   sample={'mask_terms': sorted(terms)})
        if not ok:
            res.add(Finding('SPEC', f.fullname, f'moment mask term {meaning}', f'{f.module.relpath}:{zeroed[0].lineno}',
                            f'SourceCatalog._moment_data_cutouts: the mask zeroed in the copy of `{src_arr}` has the terms {sorted(terms)}; '
                            f'{meaning} (`{want}`) are missing, so they enter the centroid and second moments', {}))
    # flux-like definitions
    f = repo.method(SC, 'segment_flux')
    expect_stmt(res, 'SPEC', f, 'source_sum = ' + nf_text('np.array([np.sum(arr) for arr in self._data_values]) - self.area.value * localbkg'),
                'segment_flux = sum of the unmasked segment pixels minus the local background times the unmasked area')
    f = repo.method(SC, 'segment_fluxerr')
    expect_stmt(res, 'SPEC', f, 'err = ' + nf_text('np.sqrt(np.array([np.sum(arr ** 2) for arr in self._error_values]))'), 'segment_fluxerr = quadrature sum of the errors')
    f = repo.method(SC, 'background_sum')
    expect_stmt(res, 'SPEC', f, 'bkg_sum = ' + nf_text('np.array([np.sum(arr) for arr in self._background_values])'), 'background_sum over the same pixels')
    f = repo.method(SC, 'background_mean')
    expect_stmt(res, 'SPEC', f, 'bkg_mean = ' + nf_text('np.array([np.mean(arr) for arr in self._background_values])'), 'background_mean over the same pixels')
    f = repo.method(SC, 'area')
    expect_stmt(res, 'SPEC', f, 'areas = ' + nf_text('np.array([arr.size for arr in self._data_values]).astype(float)'), 'area = number of unmasked segment pixels')
    expect_stmt(res, 'SPEC', f, nf_text('areas[self._all_masked]') + ' = ' + nf_text('np.nan'), 'NaN area for completely masked sources')
    f = repo.method(SC, 'segment_area')
    expect_stmt(res, 'SPEC', f, 'areas = ' + nf_text('[np.count_nonzero(self._segment_img[slices] == label) '
                                                       'for label, slices in zip(self.labels, self._slices_iter, strict=True)]'),
                'segment_area counts the pixels carrying this label (not other labels in the box)')
    for nm, fn in (('min_value', 'min'), ('max_value', 'max')):
        f = repo.method(SC, nm)
        expect_stmt(res, 'SPEC', f, 'values = ' + nf_text(f'np.array([np.{fn}(array) for array in self._data_values]) - self._local_background'),
                    f'{nm} over the unmasked segment pixels, local background removed')
    for nm in ('minval_index', 'maxval_index'):
        f = repo.method(SC, nm)
        expect_stmt(res, 'T-FRAME', f, 'out = ' + nf_text('[(idx[0] + slc[0].start, idx[1] + slc[1].start) '
                                                          'for idx, slc in zip(index, self._slices_iter, strict=True)]'),
                    f'{nm}: cutout index re-based with the slice origin of the same axis')
    for nm, spec in (('bbox_xmin', 'np.array([slc[1].start for slc in self._slices_iter])'),
                     ('bbox_xmax', 'np.array([slc[1].stop - 1 for slc in self._slices_iter])'),
                     ('bbox_ymin', 'np.array([slc[0].start for slc in self._slices_iter])'),
                     ('bbox_ymax', 'np.array([slc[0].stop - 1 for slc in self._slices_iter])')):
        SP.returns_match(repo, res, 'T-FRAME', f'{SC}.{nm}', [spec], 'inclusive bounding-box index of the matching axis')
    f = repo.method(SC, 'centroid')
    expect_stmt(res, 'T-FRAME', f, 'origin = ' + nf_text('np.transpose((self.bbox_xmin, self.bbox_ymin))'), 'origin = (bbox_xmin, bbox_ymin)')
    SP.returns_match(repo, res, 'T-FRAME', f'{SC}.centroid', ['self.cutout_centroid + origin'], 'cutout centroid + bounding-box origin')
    f = repo.method(SC, 'cutout_centroid')
    expect_stmt(res, 'SPEC', f, 'ycentroid = ' + nf_text('moments[:, 1, 0] / moments[:, 0, 0]'), 'y centroid = M10/M00 (row moment)')
    expect_stmt(res, 'SPEC', f, 'xcentroid = ' + nf_text('moments[:, 0, 1] / moments[:, 0, 0]'), 'x centroid = M01/M00 (column moment)')
    SP.returns_match(repo, res, 'SPEC', f'{SC}.cutout_centroid', ['np.transpose((xcentroid, ycentroid))'], '(x, y) pairs')


def sibling_rules(repo, res):
    cls = repo.get_class(SC)
    members = cls.all_methods()
    n = 0
    seen = set()
    for name, f in members.items():
        twins = []
        m = mirror_name(name)
        if m and m in members:
            twins.append(m)
        if 'min' in name:
            t = name.replace('min', 'max')
            if t in members:
                twins.append(t)
        for t in twins:
            key = tuple(sorted((name, t)))
            if key in seen:
                continue
            seen.add(key)
            g = members[t]
            n += 1
            ok = f.decorators == g.decorators
            res.oblige('SIBDECOR', f'SourceCatalog.{name} and .{t} carry the same decorators', ok, nontrivial=True,
                       sample={'a': name, 'b': t, 'decorators': f.decorators})
            if not ok:
                res.add(Finding('SIBDECOR', g.fullname, f'decorators of {name} vs {t}', g.loc,
                                f'SourceCatalog.{name} has decorators {f.decorators} but its twin {t} has {g.decorators}: one of them is '
                                f'(not) taken from the detection catalog / scalarised while the other is', {}))
    # min/max twins have mirrored bodies
    for a, b in (('cutout_minval_index', 'cutout_maxval_index'), ('minval_index', 'maxval_index'), ('min_value', 'max_value'),
                 ('minval_xindex', 'maxval_xindex'), ('minval_yindex', 'maxval_yindex')):
        fa, fb = members.get(a), members.get(b)
        if fa is None or fb is None:
            raise AnalysisError(f'vanished anchor: SourceCatalog.{a}/{b}')
        sa = '\n'.join(ast.unparse(s) for s in body_without_doc(fa.node))
        sb = '\n'.join(ast.unparse(s) for s in body_without_doc(fb.node))
        ok = re.sub(r'min', 'max', sa) == sb
        res.oblige('MIRROR', f'SourceCatalog.{b} is {a} with min -> max', ok, nontrivial=True)
        if not ok:
            res.add(Finding('MIRROR', fb.fullname, f'{b} vs {a}', fb.loc,
                            f'SourceCatalog.{b} is not the min->max mirror image of {a}: the two are computed differently', {}))


def run(repo, tier):
    res = Result(PROP)
    res.explanation = (
        'Definitions decided as structure: SPEC (total mask = other labels | input mask | non-finite; flux/err/area/background sums over the '
        'compressed values of the total-masked cutouts; completely masked = all of the TOTAL mask; segment_area counts `== label`; centroid '
        'moments), T-FRAME (every cutout-relative index/centroid is re-based with the slice origin of the matching axis), SIBDECOR/MIRROR '
        '(x/y and min/max twin properties carry the same decorators - in particular the same detection-catalog delegation - and mirrored '
        'bodies), LP1/LP1b (row independence of every per-source loop), T-AXIS/T-MIRROR incl. external coordinate-order models '
        '(map_coordinates, overlap_slices, mgrid, unravel_index), A1.')
    res.not_decided = 'the numeric formulas of the shape parameters (covariance -> ellipse) and Kron quantities.'
    res.assumptions = ['numpy MaskedArray.compressed() returns exactly the unmasked values']
    definitions(repo, res)
    sibling_rules(repo, res)
    run_loops(repo, res, MODS, rules=('LP1', 'LP1b'))
    run_axis(repo, res, MODS)
    a1_collect(repo, res, modules={'photutils.segmentation.catalog'})
    res.floor('SPEC', 25)
    res.floor('T-FRAME', 8)
    res.floor('SIBDECOR', 12)
    res.floor('MIRROR', 5)
    res.floor('T-AXIS', 25)
    res.floor('loops-examined', 20)
    from .common import run_label_eq
    run_label_eq(repo, res, {'photutils.segmentation.core', 'photutils.segmentation.catalog'})
    res.floor('LABEL-EQ', 3)
    from .common import run_clones, run_loop_twin
    if run_clones(repo, res) < 25:
        raise AnalysisError('vanished anchor: cloned shape/moment methods of SourceCatalog and ApertureStats')
    run_loop_twin(repo, res, {'photutils.segmentation.catalog', 'photutils.aperture.stats'})
    from .common import run_slice_kind
    run_slice_kind(repo, res, {'photutils.segmentation.catalog'})
    res.floor('SLICE-KIND', 4)
    from .C05 import labels_fast_path
    labels_fast_path(repo, res, repo.get_class('photutils.segmentation.core.SegmentationImage'))
    # the property reads the segmentation image through its cached attributes: they must describe the current label array
    from . import lazyrules as _LR
    _LR.run_L1(repo, res, PROP, _LR.lazy_classes(repo, only={'photutils.segmentation.core.SegmentationImage'}))
    from .common import run_generic_pack
    run_generic_pack(repo, res, PROP, MODS)
    return res
