"""C05 - SegmentationImage attributes always describe the current label array."""
from __future__ import annotations

import ast

from ..core import ClassInfo, AnalysisError, norm_stmt_text, enclosing_stmt, unparse
from ..report import Finding, Result
from ..lazy import LazyClass, self_attr, self_dict_key, is_self
from ..paths import EventSets
from ..expr import Inliner, nf, nf_text
from .. import negzero as NZ
from .. import spec as SP
from . import lazyrules as LR
from .C10 import get_alias

PROP = 'C05'
SEG = 'photutils.segmentation.core.SegmentationImage'

# functions outside the class that may write a SegmentationImage's private state,
# and the keys they may seed (object.__new__ construction fast paths)
EXTERNAL_WRITERS = {
    'photutils.segmentation.detect._detect_sources': {'_data', 'labels', 'slices', '_deblend_label_map'},
    'photutils.segmentation.deblend.deblend_sources': {'_data', '_deblend_label_map', 'info'},
}

# cardinality of list-valued attributes (index set)
CARD_BASE = {
    'labels': ('PER_LABEL', 'np.unique of the non-zero pixels'),
    '_raw_slices': ('RAW', 'scipy find_objects: one slot per label value, None for missing values'),
    'slices': ('PER_LABEL', '_raw_slices with the None slots (missing label values) removed'),
}


def card_tag(lc, name, memo, stack=()):
    if name in memo:
        return memo[name]
    if name in CARD_BASE:
        memo[name] = CARD_BASE[name][0]
        return memo[name]
    f = lc.members.get(name)
    if f is None or name in stack:
        return None
    inl = Inliner(f.node)
    tags = set()
    for e, _ in inl.returns:
        tags.add(card_expr(lc, e, f, inl, memo, stack + (name,)))
    # list built by append inside a loop over tagged sequences
    if not inl.returns or tags == {None}:
        pass
    t = tags.pop() if len(tags) == 1 else None
    if t is None:
        # `xs = []; for ... in zip(A, B): xs.append(..); return np.array(xs)`
        for loop in [n for n in ast.walk(f.node) if isinstance(n, ast.For)]:
            lt = card_expr(lc, loop.iter, f, inl, memo, stack + (name,))
            appended = {n.func.value.id for n in ast.walk(loop) if isinstance(n, ast.Call)
                        and isinstance(n.func, ast.Attribute) and n.func.attr == 'append'
                        and isinstance(n.func.value, ast.Name)}
            guarded = any(isinstance(b, (ast.If, ast.Try)) for b in loop.body)
            for rnode in [n for n in ast.walk(f.node) if isinstance(n, ast.Return) and n.value is not None]:
                names = {n.id for n in ast.walk(rnode.value) if isinstance(n, ast.Name)}
                if names & appended and lt and not guarded:
                    t = lt
    memo[name] = t
    return t


def card_expr(lc, e, f, inl, memo, stack):
    if isinstance(e, ast.Attribute) and is_self(e.value):
        return card_tag(lc, e.attr, memo, stack)
    if isinstance(e, (ast.ListComp, ast.GeneratorExp)) and len(e.generators) == 1:
        g = e.generators[0]
        t = card_expr(lc, g.iter, f, inl, memo, stack)
        if g.ifs:
            # a filter changes the index set unless it only drops a constant
            # background entry (table: polygons drops the label-0 shape)
            return t if t == 'PER_REGION' else None
        return t
    if isinstance(e, ast.Call):
        fn = unparse(e.func, 0)
        last = fn.split('.')[-1]
        if last in ('array', 'asarray', 'list', 'tuple', 'transform') and e.args:
            return card_expr(lc, e.args[0], f, inl, memo, stack)
        if last == 'shapes':
            return 'PER_REGION'      # rasterio.features.shapes: one polygon per connected region
        if last in ('unique', '_get_labels'):
            return 'PER_LABEL'
        if last == 'zip':
            ts = {card_expr(lc, a, f, inl, memo, stack) for a in e.args}
            ts.discard(None)
            return ts.pop() if len(ts) == 1 else None
    if isinstance(e, ast.Subscript) and isinstance(e.slice, ast.Slice):
        return card_expr(lc, e.value, f, inl, memo, stack)
    if isinstance(e, ast.Name):
        # a local that was sorted / appended in place: look at its definition
        for n in ast.walk(f.node):
            if isinstance(n, ast.Assign) and len(n.targets) == 1 and isinstance(n.targets[0], ast.Name) \
                    and n.targets[0].id == e.id:
                return card_expr(lc, n.value, f, inl, memo, stack)
    return None


def run_card(repo, res, lc):
    memo = {}
    n = 0
    for name, f in lc.members.items():
        for node in ast.walk(f.node):
            if isinstance(node, ast.Call) and isinstance(node.func, ast.Name) and node.func.id == 'zip' \
                    and any(k.arg == 'strict' and isinstance(k.value, ast.Constant) and k.value.value is True
                            for k in node.keywords):
                inl = Inliner(f.node)
                tags = [(unparse(a), card_expr(lc, a, f, inl, memo, (name,))) for a in node.args]
                known = {t for _, t in tags if t}
                ok = len(known) <= 1
                n += 1
                res.oblige('T-CARD', f'{f.qualname}: zip(strict=True) arguments share one index set', ok,
                           nontrivial=True, sample={'function': f.fullname, 'tags': tags})
                if not ok:
                    res.add(Finding('T-CARD', f.fullname, 'zip(' + ', '.join(a for a, _ in tags) + ', strict=True)',
                                    f'{f.module.relpath}:{node.lineno}',
                                    f'{f.qualname} zips sequences with different index sets {tags}: one entry per label '
                                    f'vs one per connected region, so a label that is not connected makes the lengths '
                                    f'differ (zip strict raises) or mis-pairs entries', {'tags': tags}))
    return n


def run_negzero(repo, res, modules, prop):
    n = 0
    for f in repo.functions.values():
        if f.module.name not in modules:
            continue
        for sl, operand, which in NZ.neg_bounds(f.node):
            if any(enclosing_function_is_nested(sl, f)):
                continue
            ok = NZ.guarded_positive(sl, operand, f.node)
            why = None
            if not ok:
                why = NEGZERO_TABLE.get((f.fullname, unparse(operand, 0)))
                ok = why is not None
            n += 1
            st = enclosing_stmt(sl)
            res.oblige('NEGZERO', f'{f.qualname}: slice bound -{unparse(operand)} has a dominating proof of > 0', ok,
                       nontrivial=True, sample={'function': f.fullname, 'stmt': norm_stmt_text(st), 'reason': why})
            if not ok:
                res.add(Finding('NEGZERO', f.fullname, norm_stmt_text(st), f'{f.module.relpath}:{st.lineno}',
                                f'{f.qualname}: slice bound `-{unparse(operand)}` selects the whole axis when '
                                f'`{unparse(operand)}` is 0 and no dominating guard excludes 0', {}))
    return n


def enclosing_function_is_nested(node, f):
    from ..core import enclosing_function
    fn = enclosing_function(node)
    yield fn is not None and fn is not f.node


NEGZERO_TABLE = {
    ('photutils.utils.depths.ImageDepth._mask_border', 'self.dilate_radius'):
        'dilate_radius = ceil(aper_radius + mask_pad) with aper_radius > 0 and mask_pad >= 0 validated in __init__',
}


def coupled_updates(repo, res, cls):
    """Every path that stores a new label array also updates the deblend label map."""
    lc_members = cls.all_functions()
    n = 0
    for f in lc_members:
        if f.name in ('__init__', 'copy', '__new__') or f.is_lazy:
            continue
        writes_data = any((isinstance(n_, ast.Assign) and any(self_attr(t) == '_data' for t in n_.targets))
                          for n_ in ast.walk(f.node))
        if not writes_data:
            continue

        def classify(node):
            ev = []
            if isinstance(node, ast.Assign):
                for t in node.targets:
                    if self_attr(t) == '_data':
                        ev.append('DATA')
                    if self_attr(t) == '_deblend_label_map' or self_dict_key(t) == '_deblend_label_map':
                        ev.append('MAP')
            for c in ast.walk(node):
                if isinstance(c, ast.Call) and isinstance(c.func, ast.Attribute) and is_self(c.func.value) \
                        and c.func.attr == '_update_deblend_label_map':
                    ev.append('MAP')
            return ev
        sets = EventSets(classify).exits(f.node)
        ok = all(('DATA' not in s) or ('MAP' in s) for s in sets)
        n += 1
        res.oblige('COUPLED', f'{f.qualname}: every path that stores _data also updates/resets _deblend_label_map', ok,
                   nontrivial=True, sample={'function': f.fullname, 'paths': [sorted(s) for s in sets]})
        if not ok:
            res.add(Finding('COUPLED', f.fullname, 'store to _data without deblend-map update', f.loc,
                            f'{f.qualname} replaces the label array on a path that leaves _deblend_label_map '
                            f'untouched: the deblend bookkeeping then names labels of the old array', {}))
    return n


def dtype_preserved(repo, res, cls):
    """Arrays that become the new _data are built with dtype=<data dtype>."""
    n = 0
    for name in ('reassign_labels', 'relabel_consecutive'):
        f = cls.lookup(name)
        if f is None:
            raise AnalysisError(f'vanished anchor: {SEG}.{name}')
        # the local holding the data dtype
        dt = None
        for node in ast.walk(f.node):
            if isinstance(node, ast.Assign) and len(node.targets) == 1 and isinstance(node.targets[0], ast.Name) \
                    and nf(node.value) in ('self.data.dtype', 'self._data.dtype'):
                dt = node.targets[0].id
        for node in ast.walk(f.node):
            if isinstance(node, ast.Call) and unparse(node.func, 0) in ('np.zeros', 'np.arange', 'np.empty', 'np.ones', 'np.full'):
                kw = {k.arg: k.value for k in node.keywords}
                got = nf(kw['dtype']) if 'dtype' in kw else None
                ok = got is not None and (got == dt or got in ('self.data.dtype', 'self._data.dtype'))
                n += 1
                res.oblige('DTYPE-KEEP', f'{f.qualname}: `{unparse(node, 60)}` is created with the label array dtype', ok,
                           nontrivial=True, sample={'function': f.fullname, 'call': unparse(node, 80)})
                if not ok:
                    res.add(Finding('DTYPE-KEEP', f.fullname, unparse(node, 100), f'{f.module.relpath}:{node.lineno}',
                                    f'{f.qualname}: relabel map `{unparse(node, 80)}` is not created with the dtype of the '
                                    f'label array, so the relabelled array silently changes dtype', {}))
    return n


def external_writers(repo, res):
    """D3: who may write a SegmentationImage's private state from outside the class."""
    cls = repo.get_class(SEG)
    n = 0
    seen_allowed = set()
    for f in repo.functions.values():
        if f.cls is not None and f.cls.is_subclass_of(SEG):
            continue
        # locals holding a SegmentationImage built with object.__new__ / constructor
        segvars = set()
        for node in ast.walk(f.node):
            if isinstance(node, ast.Assign) and len(node.targets) == 1 and isinstance(node.targets[0], ast.Name) \
                    and isinstance(node.value, ast.Call):
                src = unparse(node.value, 0)
                if 'SegmentationImage' in src and ('__new__' in src or src.startswith('SegmentationImage(')):
                    segvars.add(node.targets[0].id)
        for node in ast.walk(f.node):
            tg = []
            if isinstance(node, ast.Assign):
                tg = node.targets
            elif isinstance(node, ast.AugAssign):
                tg = [node.target]
            for t in tg:
                key = None
                if isinstance(t, ast.Attribute) and isinstance(t.value, ast.Name) and t.value.id != 'self' \
                        and (t.attr in ('_data', '_deblend_label_map', '_raw_slices') or
                             (t.value.id in segvars and t.attr.startswith('_'))):
                    key = t.attr
                    owner = t.value.id
                elif isinstance(t, ast.Subscript) and isinstance(t.value, ast.Attribute) and t.value.attr == '__dict__' \
                        and isinstance(t.value.value, ast.Name) and t.value.value.id in segvars \
                        and isinstance(t.slice, ast.Constant):
                    key = t.slice.value
                    owner = t.value.value.id
                if key is None:
                    continue
                if owner not in segvars and key == '_data':
                    # `x._data = ...` on something that is not known to be a SegmentationImage
                    # (e.g. an ePSF model): not this rule's business
                    continue
                allowed = EXTERNAL_WRITERS.get(f.fullname)
                ok = allowed is not None and key in allowed
                n += 1
                res.oblige('D3', f'{f.qualname} may seed SegmentationImage.{key}', ok, nontrivial=True,
                           sample={'function': f.fullname, 'key': key})
                if ok:
                    seen_allowed.add(f.fullname)
                else:
                    res.add(Finding('D3', f.fullname, norm_stmt_text(node), f'{f.module.relpath}:{node.lineno}',
                                    f'{f.qualname} writes SegmentationImage.{key} directly from outside the class; only '
                                    f'{sorted(EXTERNAL_WRITERS)} may seed private state (keys per table)', {}))
    for w in EXTERNAL_WRITERS:
        if w not in seen_allowed:
            raise AnalysisError(f'vanished anchor: external writer {w} no longer seeds a SegmentationImage')
    return n


def labelset(repo, res, cls):
    """The relabelled child labels pass a zero filter before they are stored."""
    f = cls.lookup('_update_deblend_label_map')
    if f is None:
        raise AnalysisError('vanished anchor: _update_deblend_label_map')
    inl = Inliner(f.node)
    stores = [(t, v, st) for t, v, st in inl.stores if isinstance(t, ast.Subscript) and self_attr(t.value) == '_deblend_label_map']
    if not stores:
        raise AnalysisError('_update_deblend_label_map: store into the map not found')
    for t, v, st in stores:
        # follow the loop-local name (opaque in the inliner) one step by hand
        val = v
        env = inl.env_at(st)
        seen = 0
        filt = False
        exprs = [val]
        for node in ast.walk(f.node):
            if isinstance(node, ast.Assign) and len(node.targets) == 1 and isinstance(node.targets[0], ast.Name) \
                    and isinstance(v, ast.Name) and node.targets[0].id == v.id:
                exprs.append(node.value)
        uses_map = any('relabel_map' in unparse(e, 0) for e in exprs)
        for e in exprs:
            for n in ast.walk(e):
                if isinstance(n, ast.Subscript) and isinstance(n.slice, ast.Compare) and len(n.slice.ops) == 1 \
                        and ((isinstance(n.slice.comparators[0], ast.Constant) and n.slice.comparators[0].value == 0
                              and isinstance(n.slice.ops[0], (ast.NotEq, ast.Gt)))
                             or (isinstance(n.slice.left, ast.Constant) and n.slice.left.value == 0
                                 and isinstance(n.slice.ops[0], (ast.NotEq, ast.Lt)))):
                    filt = True
                if isinstance(n, ast.Call) and unparse(n.func, 0).split('.')[-1] in ('setdiff1d', 'flatnonzero', 'nonzero', 'compress'):
                    filt = True
        # ... and the filter is applied to the relabelled values: no relabel step after the last zero filter
        asg = [n_ for n_ in ast.walk(f.node) if isinstance(n_, ast.Assign) and len(n_.targets) == 1
               and isinstance(n_.targets[0], ast.Name)]
        pos = {id(n_): (n_.lineno, n_.col_offset) for n_ in asg}
        maps = [pos[id(n_)] for n_ in asg if 'relabel_map' in unparse(n_.value, 0)]
        filts = [pos[id(n_)] for n_ in asg if '!= 0' in unparse(n_.value, 0) or '> 0' in unparse(n_.value, 0)
                 or '0 !=' in unparse(n_.value, 0)]
        if maps and filts and max(maps) > max(filts):
            filt = False
        ok = uses_map and filt
        res.oblige('LABELSET', '_update_deblend_label_map filters labels mapped to 0 before storing', ok, nontrivial=True,
                   sample={'store': norm_stmt_text(st)})
        if not ok:
            res.add(Finding('LABELSET', f.fullname, norm_stmt_text(st), f'{f.module.relpath}:{st.lineno}',
                            '_update_deblend_label_map stores relabel_map[child_labels] without removing labels that map '
                            'to 0 (removed labels): deblended_labels then names the background label', {}))


def inplace_data(repo, res, cls):
    d, ft = get_alias(repo)
    n = 0
    for f in cls.all_functions():
        if f.name == '__init__':
            continue
        sm = d.summary(f)
        sites = sm.mutf.get('_data', {})
        n += 1
        res.oblige('A2', f'{f.qualname} never modifies the stored label array in place (rebuild and rebind only)',
                   not sites, nontrivial=bool(sites) or not f.is_property,
                   sample={'function': f.fullname} if not f.is_property else None)
        for s in sites.values():
            res.add(Finding('A2', s.finfo.fullname, norm_stmt_text(s.stmt), s.loc,
                            f'{f.qualname} modifies self._data in place ({s.describe()}): caches and copies sharing the '
                            f'array go stale without a reset', {}))
    return n


def labels_fast_path(repo, res, cls):
    """`labels` derived from the cached raw slices: one slot per label VALUE (None for missing values)."""
    f = cls.lookup('labels')
    want = [('labels_all = ' + nf_text('np.arange(len(self._raw_slices)) + 1'), 'candidate labels 1..len(raw slices)')]
    from .common import expect_stmt
    for w, meaning in want:
        expect_stmt(res, 'SPEC', f, w, 'labels fast path: ' + meaning)
    comps = [n for n in ast.walk(f.node) if isinstance(n, ast.ListComp)]
    ok = len(comps) == 1 and nf(comps[0]) in (
        nf_text('[label for label, slc in zip(labels_all, self._raw_slices, strict=True) if slc is not None]'),
        nf_text('[label for label, slc in zip(np.arange(len(self._raw_slices)) + 1, self._raw_slices, strict=True) if slc is not None]'))
    res.oblige('SPEC', 'labels fast path pairs label values with the RAW slices and skips the None slots', ok, nontrivial=True)
    if not ok:
        res.add(Finding('SPEC', f.fullname, 'labels fast path', f.loc,
                        'SegmentationImage.labels: the fast path must pair 1..len(_raw_slices) with self._raw_slices (one slot per label '
                        'value, None for missing values); pairing with the filtered `slices` renumbers the labels 1..N', {}))
    rets = sorted(nf(r.value) for r in ast.walk(f.node) if isinstance(r, ast.Return))
    ok = rets == sorted([nf_text('np.array(labels, dtype=self._data.dtype)'), nf_text('self._get_labels(self.data)')])
    res.oblige('SPEC', 'labels returns the collected labels (array dtype) or np.unique of the non-zero pixels', ok, nontrivial=True)
    if not ok:
        res.add(Finding('SPEC', f.fullname, 'labels return', f.loc, f'SegmentationImage.labels returns {rets}', {}))
    g = cls.lookup('slices')
    SP.returns_match(repo, res, 'SPEC', f'{SEG}.slices', ['[slc for slc in self._raw_slices if slc is not None]'], 'the raw slices without the None slots')
    h = cls.lookup('_raw_slices')
    SP.returns_match(repo, res, 'SPEC', f'{SEG}._raw_slices', ['find_objects(self.data)', 'find_objects(self._data)'], 'scipy find_objects of the label array')


def run(repo, tier):
    res = Result(PROP)
    cls = repo.get_class(SEG)
    lc = LazyClass(repo, cls)
    res.explanation = (
        'Cache coherence of SegmentationImage decided for all histories: L1 (every public mutator x every lazyproperty: each '
        'write of _data/_deblend_label_map is followed on every path by an invalidation; re-seeding only per table), L2, COUPLED '
        '(every path that stores a new label array also updates the deblend map), D3 (only _detect_sources/deblend_sources seed '
        'private state from outside, keys per table), NEGZERO (border slices), T-CARD (zip(strict) operands share one index set), '
        'LABELSET (relabelled child labels pass a zero filter), DTYPE-KEEP (relabel maps carry the array dtype), A2 (no in-place '
        'write into the stored array).')
    res.not_decided = ('that relabel_map[data] computes the documented set-theoretic effect, and equality of seeded caches with '
                       'recomputed ones beyond the table reasons.')
    res.assumptions = ['rasterio.features.shapes yields one polygon per connected region (external model row)',
                       'scipy find_objects yields one slot per label value']
    LR.run_L1(repo, res, PROP, [lc])
    LR.run_L2(repo, res, PROP, [lc])
    coupled_updates(repo, res, cls)
    external_writers(repo, res)
    run_negzero(repo, res, {'photutils.segmentation.core'}, PROP)
    run_card(repo, res, lc)
    labelset(repo, res, cls)
    dtype_preserved(repo, res, cls)
    inplace_data(repo, res, cls)
    labels_fast_path(repo, res, cls)
    # the two functions that seed a SegmentationImage from outside (anchored here as well)
    from .C04 import labeller_input
    from .C06 import merge_blocks, final_relabel
    labeller_input(repo, res)
    merge_blocks(repo, res)
    final_relabel(repo, res)
    res.floor('L1', 500)
    res.floor('L2', 2)
    res.floor('COUPLED', 3)
    res.floor('D3', 6)
    res.floor('NEGZERO', 0)
    res.floor('T-CARD', 3)
    res.floor('DTYPE-KEEP', 5)
    res.floor('A2', 40)
    res.exhaustive_rules = ['L1 over (public mutator x lazyproperty) of SegmentationImage', 'D3', 'COUPLED']
    from .common import run_label_eq
    run_label_eq(repo, res, {'photutils.segmentation.core', 'photutils.segmentation.catalog'})
    res.floor('LABEL-EQ', 3)
    from .common import apply_specs
    apply_specs(repo, res, [
        ('photutils.segmentation.core.SegmentationImage.remove_border_labels', 'stmt', 'border_mask[border_mask.shape[0] - border_width:] = True',
         'far border strip sized from the axis currently swapped to the front (border_mask.shape[0]), not from a fixed image axis'),
        ('photutils.segmentation.core.SegmentationImage.remove_border_labels', 'stmt', 'border_mask[:border_width] = True', 'near border strip'),
        ('photutils.segmentation.core.SegmentationImage._geo_polygons', 'stmt', "polygons = list(shapes(self.data.astype('int32'), connectivity=8))",
         'polygon outlines traced with the 8-connectivity that detect_sources uses by default (one outline per 8-connected region)'),
    ])
    apply_specs(repo, res, [
        ('photutils.segmentation.core.SegmentationImage.relabel_consecutive', 'test',
         '(self.labels[0] == start_label) and (self.labels[-1] - self.labels[0] + 1) == self.nlabels',
         'nothing to do only if the labels are consecutive AND start at start_label'),
    ])
    from .common import run_generic_pack
    run_generic_pack(repo, res, PROP, ())
    return res
