"""C08 - indexing a catalog commutes with evaluating its properties."""
from __future__ import annotations

import ast

from ..core import ClassInfo, AnalysisError, norm_stmt_text, enclosing_stmt, unparse
from ..report import Finding, Result
from ..lazy import self_attr
from .. import scalarshape as SS
from ..expr import nf, nf_text

PROP = 'C08'
CATS = ['photutils.segmentation.catalog.SourceCatalog', 'photutils.aperture.stats.ApertureStats']
FINDER_CATS = ['photutils.detection.daofinder._DAOStarFinderCatalog',
               'photutils.detection.irafstarfinder._IRAFStarFinderCatalog',
               'photutils.detection.starfinder._StarFinderCatalog']

# init attributes that need not reach the sliced object
NOT_COPIED_OK = {
    ('photutils.aperture.stats.ApertureStats', '_input_aperture'):
        'only read inside __init__ (validated aperture before conversion to pixel apertures)',
}
SHARE_EXEMPT = {
    ('photutils.segmentation.catalog.SourceCatalog', 'meta'):
        '_update_meta writes configuration values (localbkg_width, apermask_method, kron_params) that parent and child share by construction',
    ('photutils.aperture.stats.ApertureStats', 'meta'): 'meta is only written in __init__',
}


def reads_outside_init(cls, attr):
    for f in cls.all_functions():
        if f.name in ('__init__', '__getitem__'):
            continue
        for n in ast.walk(f.node):
            if self_attr(n) == attr and isinstance(n.ctx, ast.Load):
                return True
    return False


def byref_names(getitem):
    """Names copied by reference: `for attr in T: setattr(newcls, attr, getattr(self, attr))`."""
    tuples = {}
    for n in ast.walk(getitem.node):
        if isinstance(n, ast.Assign) and len(n.targets) == 1 and isinstance(n.targets[0], ast.Name) \
                and isinstance(n.value, (ast.Tuple, ast.List)) and n.value.elts \
                and all(isinstance(e, ast.Constant) and isinstance(e.value, str) for e in n.value.elts):
            tuples[n.targets[0].id] = [e.value for e in n.value.elts]
    byref, sliced = set(), set()
    for n in ast.walk(getitem.node):
        if isinstance(n, ast.For) and isinstance(n.iter, ast.Name) and n.iter.id in tuples and isinstance(n.target, ast.Name):
            v = n.target.id
            for b in n.body:
                if isinstance(b, ast.Expr) and isinstance(b.value, ast.Call) and unparse(b.value.func, 0) == 'setattr' \
                        and len(b.value.args) == 3:
                    val = nf(b.value.args[2])
                    if val == nf_text(f'getattr(self, {v})'):
                        byref |= set(tuples[n.iter.id])
                    else:
                        sliced |= set(tuples[n.iter.id])
    handled = set()
    for t in tuples.values():
        handled |= set(t)
    for n in ast.walk(getitem.node):
        if isinstance(n, ast.Assign) and len(n.targets) == 1 and isinstance(n.targets[0], ast.Name) \
                and n.targets[0].id == 'attr' and isinstance(n.value, ast.Constant):
            handled.add(n.value.value)
        if isinstance(n, ast.Call) and isinstance(n.func, ast.Attribute) and n.func.attr == 'add' and n.args \
                and isinstance(n.args[0], ast.Constant) and isinstance(n.args[0].value, str):
            handled.add(n.args[0].value)
        if isinstance(n, ast.Assign):
            for t in n.targets:
                if isinstance(t, ast.Attribute) and isinstance(t.value, ast.Name) and t.value.id == 'newcls':
                    handled.add(t.attr)
                    byref.discard(t.attr)
    return handled, byref


def getitem_rules(repo, res, cn):
    c = repo.get_class(cn)
    gi = c.lookup('__getitem__')
    if gi is None:
        raise AnalysisError(f'vanished anchor: {cn}.__getitem__')
    handled, byref = byref_names(gi)
    ia = SS.init_attrs_of(c)
    if not ia:
        raise AnalysisError(f'{cn}.__init__ attributes not found')
    for a in sorted(ia):
        ok = a in handled
        why = None
        if not ok:
            why = NOT_COPIED_OK.get((cn, a))
            if why is None and not reads_outside_init(c, a):
                why = 'never read outside __init__'
            ok = why is not None
        res.oblige('GETITEM', f'{c.name}.__getitem__ carries `{a}` over to the sliced object', ok, nontrivial=True,
                   sample={'class': cn, 'attr': a, 'by_reference': a in byref, 'reason': why})
        if not ok:
            res.add(Finding('GETITEM', gi.fullname, f'attribute {a} not copied', gi.loc,
                            f'{c.name}.__getitem__ does not copy or slice the __init__ attribute `{a}`, which other methods read: '
                            f'properties evaluated on the sliced object fail or differ', {}))
    # SHARE: by-reference copies of containers that some method mutates in place
    mut = SS.inplace_mutated_fields(c)
    for a in sorted(byref):
        sites = mut.get(a, [])
        why = SHARE_EXEMPT.get((cn, a)) if sites else None
        ok = not sites or why is not None
        res.oblige('SHARE', f'{c.name}: `{a}` copied by reference is never modified in place', ok, nontrivial=bool(sites),
                   sample={'class': cn, 'attr': a, 'mutators': [f.qualname for f, _ in sites][:3], 'reason': why} if sites else None)
        if not ok:
            f0, st0 = sites[0]
            res.add(Finding('SHARE', gi.fullname, f'{a} shared by reference; {norm_stmt_text(st0)}', gi.loc,
                            f'{c.name}.__getitem__ hands the same `{a}` object to the sliced catalog, and {f0.qualname} modifies it '
                            f'in place (`{norm_stmt_text(st0)}`): changing extra properties of one catalog changes the other', {}))
    # cached values: every non-scalar cache entry is sliced with the index; private ones stay iterable
    src = ast.unparse(gi.node)
    for frag, meaning in (("self._lazyproperties", 'all evaluated lazyproperties are considered'),
                          ("np.isscalar(value)", 'always-scalar cache entries are skipped')):
        ok = frag in src
        res.oblige('GETITEM', f'{c.name}.__getitem__: {meaning}', ok, nontrivial=True)
        if not ok:
            res.add(Finding('GETITEM', gi.fullname, meaning, gi.loc, f'{c.name}.__getitem__: {meaning} - construct `{frag}` not found', {}))
    # the scalar branch of private caches: value[:, np.newaxis][index] for arrays, [value[index]] for lists
    want = [nf_text('value[:, np.newaxis][index]'), nf_text('[value[index]]'), nf_text('value[index]')]
    have = {nf(n.value) for n in ast.walk(gi.node) if isinstance(n, ast.Assign) and len(n.targets) == 1
            and isinstance(n.targets[0], ast.Name) and n.targets[0].id == 'val'}
    for w in want:
        ok = w in have
        res.oblige('GETITEM', f'{c.name}.__getitem__: cache slicing form {w}', ok, nontrivial=True)
        if not ok:
            res.add(Finding('GETITEM', gi.fullname, f'cache slicing form {w}', gi.loc,
                            f'{c.name}.__getitem__: cached values must be sliced as `{w}` in the matching branch; found {sorted(have)}', {}))
    return c


def scalar_rules(repo, res, cn):
    c = repo.get_class(cn)
    attrs = SS.as_scalar_attrs(c)
    if len(attrs) < 20:
        raise AnalysisError(f'{cn}: only {len(attrs)} @as_scalar attributes found')
    n = 0
    for f in c.all_functions():
        for site, what, ok, reason in SS.check_function(f, attrs):
            n += 1
            res.oblige('SCALAR-SHAPE', f'{f.qualname}: {what} is handled for single-source catalogs', ok, nontrivial=True,
                       sample={'function': f.fullname, 'use': what, 'how': reason})
            if not ok:
                st = enclosing_stmt(site)
                res.add(Finding('SCALAR-SHAPE', f.fullname, norm_stmt_text(st), f'{f.module.relpath}:{site.lineno}',
                                f'{f.qualname}: {what} indexes/iterates a value that comes from an @as_scalar attribute; for a '
                                f'single-source catalog it is a scalar / 1-D row, and no `if self.isscalar` normalisation dominates this use', {}))
    # private lazies carry no as_scalar (their cached values are re-sliced as iterables)
    for name, f in c.all_methods().items():
        if f.is_lazy and name.startswith('_') and 'as_scalar' in f.decorators:
            ok = (cn, name) in PRIVATE_AS_SCALAR_OK
            res.oblige('DECOR', f'{c.name}.{name}: private lazyproperty without @as_scalar', ok, nontrivial=True)
            if not ok:
                res.add(Finding('DECOR', f.fullname, f'@as_scalar on {name}', f.loc,
                                f'{c.name}.{name} is a `_`-prefixed lazyproperty with @as_scalar: __getitem__ keeps private caches as '
                                f'length-1 iterables, so the decorated getter and the sliced cache disagree for scalar catalogs', {}))
    # decorator stacks of detection-delegated properties: lazyproperty > use_detcat > as_scalar
    for name, f in c.all_methods().items():
        d = [x for x in f.decorators if x in ('lazyproperty', 'property', 'use_detcat', 'as_scalar')]
        if 'use_detcat' in d:
            ok = d[0] in ('lazyproperty', 'property') and d.index('use_detcat') == 1 and \
                ((name.startswith('_') and 'as_scalar' not in d) or (not name.startswith('_') and d[2:] == ['as_scalar'])
                 or (name.startswith('_') and (cn, name) in PRIVATE_AS_SCALAR_OK))
            res.oblige('DECOR', f'{c.name}.{name}: decorator stack lazyproperty > use_detcat > as_scalar', ok, nontrivial=True,
                       sample={'attr': name, 'decorators': f.decorators})
            if not ok:
                res.add(Finding('DECOR', f.fullname, f'decorators {f.decorators}', f.loc,
                                f'{c.name}.{name}: decorator order {f.decorators} differs from its siblings '
                                f'(lazyproperty, use_detcat, as_scalar): the delegation must wrap the scalarisation', {}))
    return n


PRIVATE_AS_SCALAR_OK = {
    ('photutils.aperture.stats.ApertureStats', '_bbox_bounds'): 'table triage: not re-sliced as scalar (excluded by name in __getitem__)',
}


CACHE_PURE_OK = {
    ('photutils.segmentation.catalog.SourceCatalog.fluxfrac_radius', '_fluxfrac_optimizer_args', 'args[3] *= fluxfrac'):
        '`args = fluxfrac_args[:-1]` is a slice copy of a python list and element 3 is a float (the alias model treats slices as views)',
}


def cache_pure_rules(repo, res):
    """CACHE-PURE: __getitem__ slices the values already cached in __dict__, so
    cat[i].p == cat.p[i] 'before or after' needs every cached value to stay what the
    getter returned: no method may modify a cached (lazy)property value in place."""
    from .C10 import get_alias
    d, _ft = get_alias(repo)
    for cn in CATS + FINDER_CATS:
        c = repo.get_class(cn)
        lazies = {f.name for f in c.all_functions() if f.is_property and not f.is_setter}
        for f in c.all_functions():
            sm = d.summary(f)
            bad = [(fld, s_) for fld, sites in sm.mutf.items() if fld in lazies for s_ in sites.values()
                   if (s_.finfo.fullname, fld, norm_stmt_text(s_.stmt)) not in CACHE_PURE_OK]
            res.oblige('CACHE-PURE', f'{f.qualname} modifies no cached property value in place', not bad,
                       nontrivial=any(fld in lazies for fld in sm.store) or bool(sm.mutf) or _reads_lazy(f, lazies),
                       sample=None)
            for fld, s_ in bad:
                res.add(Finding('CACHE-PURE', s_.finfo.fullname, f'{fld}: {norm_stmt_text(s_.stmt)}', s_.loc,
                                f'{f.qualname} modifies the cached value of `{c.name}.{fld}` in place ({s_.describe()}): '
                                f'the property (and every slice taken from the cache) then reports something else than its getter returned',
                                {'class': cn, 'property': fld}))


def _reads_lazy(f, lazies):
    return any(isinstance(n, ast.Attribute) and n.attr in lazies and self_attr(n) for n in ast.walk(f.node))


def as_scalar_rules(repo, res):
    """The @as_scalar decorator (one copy per module) unwraps a length-1 result only for a scalar catalog."""
    from .common import pathsum_spec
    ref = '''
def wrapper(*args, **kwargs):
    result = method(*args, **kwargs)
    try:
        return (result[0] if args[0].isscalar and len(result) == 1 else result)
    except TypeError:
        return result
'''
    for fn in ('photutils.segmentation.catalog.as_scalar', 'photutils.aperture.stats.as_scalar'):
        f = repo.functions.get(fn)
        if f is None:
            raise AnalysisError(f'vanished anchor: {fn}')
        inner = [x for x in ast.walk(f.node) if isinstance(x, ast.FunctionDef) and x is not f.node]
        if len(inner) != 1:
            raise AnalysisError(f'{fn}: expected one wrapper function')
        pathsum_spec(res, 'DECOR', f, ref, 'result[0] only when the catalog is scalar AND the result has length 1 (a non-scalar catalog '
                     'that happens to hold one source keeps its array shape); the result unchanged when it has no len()', node=inner[0])


def id_lookup_rules(repo, res):
    """get_label(s)/get_id(s) look the requested ids up in the current id array (not by position)."""
    for cn, meth, idattr in ((CATS[0], 'get_labels', 'label'), (CATS[1], 'get_ids', 'id')):
        c = repo.get_class(cn)
        f = c.lookup(meth)
        if f is None:
            raise AnalysisError(f'vanished anchor: {cn}.{meth}')
        src = ast.unparse(f.node)
        ok = 'searchsorted' in src and 'argsort' in src and f'self.{idattr}' in src
        res.oblige('IDLOOKUP', f'{c.name}.{meth} maps ids to positions by searchsorted on the current {idattr}s', ok, nontrivial=True)
        if not ok:
            res.add(Finding('IDLOOKUP', f.fullname, 'id -> index lookup', f.loc,
                            f'{c.name}.{meth} must look the requested {idattr}s up in self.{idattr} (argsort + searchsorted); computing '
                            f'positions from the id values is wrong for sliced or reordered catalogs', {}))


def run(repo, tier):
    res = Result(PROP)
    res.explanation = (
        'Slicing structure decided for every cache content: GETITEM (every __init__ attribute that is read elsewhere is copied or sliced '
        'by __getitem__; cache entries are sliced in the three sanctioned forms), SHARE (no by-reference copied container is modified in '
        'place by any method), SCALAR-SHAPE (every per-source indexing/iteration of a value coming from an @as_scalar attribute is inside '
        'an isscalar branch or after the normalisation idiom), DECOR (decorator stacks; no @as_scalar on private lazies), IDLOOKUP '
        '(get_label/get_id search the current id array). Five __getitem__ implementations are covered (SourceCatalog, ApertureStats, '
        'three finder catalogs).')
    res.not_decided = 'value equality cat[i].p == cat.p[i] itself (numerical); the rules are necessary structural conditions for it.'
    res.assumptions = ['@as_scalar returns result[0] only for scalar catalogs and length-1 results (decorator body checked by reading)']
    for cn in CATS:
        getitem_rules(repo, res, cn)
        scalar_rules(repo, res, cn)
    for cn in FINDER_CATS:
        c = repo.get_class(cn)
        gi = c.lookup('__getitem__')
        if gi is None:
            raise AnalysisError(f'vanished anchor: {cn}.__getitem__')
        handled, byref = byref_names(gi)
        ia = SS.init_attrs_of(c)
        for a in sorted(ia):
            ok = a in handled or not reads_outside_init(c, a)
            res.oblige('GETITEM', f'{c.name}.__getitem__ carries `{a}` over', ok, nontrivial=True, sample={'class': cn, 'attr': a})
            if not ok:
                res.add(Finding('GETITEM', gi.fullname, f'attribute {a} not copied', gi.loc,
                                f'{c.name}.__getitem__ does not copy or slice `{a}`', {}))
        mut = SS.inplace_mutated_fields(c)
        for a in sorted(byref):
            if a in mut:
                f0, st0 = mut[a][0]
                res.add(Finding('SHARE', gi.fullname, f'{a} shared by reference; {norm_stmt_text(st0)}', gi.loc,
                                f'{c.name}: `{a}` is shared by reference with the sliced catalog and modified in place by {f0.qualname}', {}))
    id_lookup_rules(repo, res)
    cache_pure_rules(repo, res)
    from .common import run_loops
    run_loops(repo, res, {'photutils.segmentation.catalog', 'photutils.aperture.stats'}, rules=('LP1',))
    res.floor('CACHE-PURE', 150)
    res.floor('GETITEM', 50)
    res.floor('SCALAR-SHAPE', 18)
    res.floor('DECOR', 50)
    res.floor('SHARE', 20)
    res.exhaustive_rules = ['GETITEM over all __init__ attributes of the five catalog classes', 'SCALAR-SHAPE over all uses']
    from .common import run_clones, run_loop_twin
    if run_clones(repo, res) < 25:
        raise AnalysisError('vanished anchor: cloned shape/moment methods of SourceCatalog and ApertureStats')
    run_loop_twin(repo, res, {'photutils.segmentation.catalog', 'photutils.aperture.stats'})
    from . import lazyrules as LR
    lcs = LR.lazy_classes(repo, only=set(CATS))
    LR.run_L1(repo, res, PROP, lcs)
    as_scalar_rules(repo, res)
    from .common import apply_specs
    apply_specs(repo, res, [
        ('photutils.aperture.stats.ApertureStats.__getitem__', 'test', "newcls.isscalar and key.startswith('_') and key != '_pixel_aperture'",
         'cached private values of a scalar child stay length-1 iterables (tuples included), except the pixel aperture'),
        ('photutils.segmentation.catalog.SourceCatalog.segment_area', 'nret', '1',
         'one exit: no shortcut through the segmentation image (its areas are in label order, the catalog may be reordered)'),
        ('photutils.segmentation.catalog.SourceCatalog.to_table', 'test', 'self.isscalar',
         'every column value of a scalar catalog is wrapped in a 1-tuple (also array-valued ones such as centroid)'),
    ])
    from .common import run_generic_pack
    run_generic_pack(repo, res, PROP, ())
    return res
