"""C19 - radial profiles / curves of growth are consistent with aperture photometry.

Decided (structure): normalisation history clause (L1/L2 on the profile
classes, all-or-nothing update groups, mirror statements), slot plumbing from
_photometry to profile/area/errors, identical keywords for do_photometry and
area_overlap, mask builder dependence.
"""
from __future__ import annotations

import ast

from ..core import AnalysisError, norm_stmt_text, enclosing_stmt, unparse
from ..report import Finding, Result
from ..flow import Flow
from ..lazy import self_attr, self_dict_key
from .. import spec as SP
from ..expr import Inliner, nf, nf_text
from . import lazyrules as LR

PROP = 'C19'
PB = 'photutils.profiles.core.ProfileBase'
RP = 'photutils.profiles.radial_profile.RadialProfile'
CG = 'photutils.profiles.curve_of_growth.CurveOfGrowth'


class _WrittenSets(Flow):
    """Collecting semantics: the set of possible 'written key' sets per path."""

    def __init__(self, keys):
        self.keys = keys

    def copy(self, s):
        return set(s)

    def join(self, a, b):
        return a | b

    def _w(self, s, key):
        return {frozenset(x | {key}) for x in s}

    def on_stmt(self, st, s):
        tg = []
        if isinstance(st, ast.Assign):
            tg = st.targets
        elif isinstance(st, (ast.AugAssign, ast.AnnAssign)):
            tg = [st.target]
        for t in tg:
            k = self_attr(t) or self_dict_key(t)
            if k in self.keys:
                s = self._w(s, k)
        return s


def atomic_group(repo, res, fullname, group):
    f = repo.get_function(fullname)
    fl = _WrittenSets(set(group))
    fl.run(f.node, {frozenset()})
    sets = set()
    for rnode, st in fl.returns:
        if st is not None:
            sets |= st
    ok = all(x == frozenset() or x == frozenset(group) for x in sets)
    res.oblige('ATOMIC', f'{f.qualname}: {sorted(group)} are updated together or not at all on every path', ok,
               nontrivial=True, sample={'function': fullname, 'written_sets_per_path': [sorted(x) for x in sets]})
    if not ok:
        badset = sorted(sorted(x) for x in sets if x and x != frozenset(group))
        res.add(Finding('ATOMIC', fullname, f'partial update {badset}', f.loc,
                        f'{f.qualname}: on some path only {badset} of the coupled state {sorted(group)} is '
                        f'updated; normalization_value and the rescaled profile arrays then disagree', {}))


def seeds(f):
    out = {}
    for st in ast.walk(f.node):
        if isinstance(st, ast.Assign) and len(st.targets) == 1:
            k = self_dict_key(st.targets[0])
            if k:
                out[k] = st
    return out


def normalization_rules(repo, res):
    # all-or-nothing coupled state
    for m in ('normalize', 'unnormalize'):
        atomic_group(repo, res, f'{PB}.{m}', ['normalization_value', 'profile', 'profile_error'])
    # mirror: profile_error is rescaled exactly like profile
    for m in ('normalize', 'unnormalize'):
        f = repo.get_function(f'{PB}.{m}')
        sd = seeds(f)
        if 'profile' not in sd and 'profile_error' not in sd:
            raise AnalysisError(f'{PB}.{m}: seeds of profile/profile_error not found')
        if 'profile' not in sd or 'profile_error' not in sd:
            miss = 'profile' if 'profile' not in sd else 'profile_error'
            res.oblige('MIRROR', f'{m}: both profile and profile_error are rescaled', False, nontrivial=True)
            res.add(Finding('MIRROR', f.fullname, f'{miss} not rescaled', f.loc,
                            f'ProfileBase.{m} rescales only one of profile / profile_error (`{miss}` is not re-seeded)', {}))
            continue
        SP.mirror_stmts(res, 'MIRROR', f, sd['profile'], sd['profile_error'], {'profile': 'profile_error'},
                        'profile and profile_error must be rescaled by the same factor')
    # unnormalize multiplies by the accumulated value and resets it to 1
    f = repo.get_function(f'{PB}.unnormalize')
    sd = seeds(f)
    if 'profile' not in sd:
        return
    got = nf(sd['profile'].value)
    ok = got == nf_text('self.profile * self.normalization_value')
    res.oblige('SPEC', 'unnormalize multiplies by the accumulated normalization_value', ok, nontrivial=True,
               sample={'nf': got})
    if not ok:
        res.add(Finding('SPEC', f.fullname, norm_stmt_text(sd['profile']), f.loc,
                        'unnormalize must multiply the profile by the accumulated normalization_value', {}))
    resets = [st for st in ast.walk(f.node) if isinstance(st, ast.Assign) and any(self_attr(t) == 'normalization_value' for t in st.targets)]
    ok = len(resets) == 1 and nf(resets[0].value) in ('1', '1.0')
    res.oblige('SPEC', 'unnormalize resets normalization_value to 1', ok, nontrivial=True)
    if not ok:
        res.add(Finding('SPEC', f.fullname, 'normalization_value reset', f.loc,
                        'unnormalize must reset normalization_value to 1.0 (exactly once)', {}))
    f = repo.get_function(f'{PB}.normalize')
    aug = [st for st in ast.walk(f.node) if isinstance(st, ast.AugAssign) and self_attr(st.target) == 'normalization_value']
    sdn = seeds(f)
    ok = (len(aug) == 1 and isinstance(aug[0].op, ast.Mult) and isinstance(aug[0].value, ast.Name)
          and nf(sdn['profile'].value) == nf_text(f'self.profile / {aug[0].value.id}'))
    res.oblige('SPEC', 'normalize accumulates the same factor it divides the profile by', ok, nontrivial=True)
    if not ok:
        res.add(Finding('SPEC', f.fullname, 'normalization accumulate', f.loc,
                        'normalize must multiply normalization_value by exactly the factor the profile is divided by', {}))


def run(repo, tier):
    res = Result(PROP)
    res.explanation = (
        'History clause decided for all interleavings of normalize/unnormalize with first reads: L1/L2 over ProfileBase, '
        'RadialProfile and CurveOfGrowth (every cache derived from the rescaled profile is invalidated; no branch on cache '
        'presence), ATOMIC (normalization_value, profile, profile_error updated all-or-nothing on every path), MIRROR (the '
        'profile_error rescale is the profile rescale with the name substituted). Plumbing clause: SLOT (profile/area/errors are '
        'the matching slots of _photometry: CurveOfGrowth = slots 0,1,2; RadialProfile = diff of slot 0 / diff of slot 2, '
        'errors in quadrature), SIB (do_photometry and area_overlap receive the same mask/method/subpixels), D1 (the '
        'mask builder unions input mask and non-finite data/error).')
    res.not_decided = ('the numeric values of the aperture sums (C02), monotonicity of the curve of growth, the interpolator '
                       'inversion and restoration to rounding are not decided.')
    res.assumptions = ['np.diff/np.sqrt have their documented meaning', 'see C09 for the L1/L2 assumptions']
    lcs = LR.lazy_classes(repo, only={PB, RP, CG})
    if len(lcs) != 3:
        raise AnalysisError('profile classes with lazyproperties not found')
    LR.run_L1(repo, res, PROP, lcs)
    LR.run_L2(repo, res, PROP, lcs)
    normalization_rules(repo, res)
    # slots
    SP.returns_tuple_slots(repo, res, 'SLOT', f'{PB}._photometry', ['fluxes', 'fluxerrs', 'areas'],
                           'the triple (fluxes, fluxerrs, areas)')
    SP.returns_match(repo, res, 'SLOT', f'{CG}.profile', ['self._photometry[0]'], 'slot 0 (aperture sums)')
    SP.returns_match(repo, res, 'SLOT', f'{CG}.profile_error', ['self._photometry[1]'], 'slot 1 (sum errors)')
    SP.returns_match(repo, res, 'SLOT', f'{CG}.area', ['self._photometry[2]'], 'slot 2 (overlap areas)')
    SP.returns_match(repo, res, 'SLOT', f'{RP}._flux', ['np.diff(self._photometry[0])', 'self._photometry[0][1:] - self._photometry[0][:-1]'],
                     'the difference of consecutive aperture sums')
    SP.returns_match(repo, res, 'SLOT', f'{RP}.area', ['np.diff(self._photometry[2])', 'self._photometry[2][1:] - self._photometry[2][:-1]'],
                     'the difference of consecutive overlap areas')
    SP.returns_match(repo, res, 'SLOT', f'{RP}._fluxerr', ['np.sqrt(np.diff(self._photometry[1] ** 2))'],
                     'errors propagated in quadrature')
    SP.returns_match(repo, res, 'SLOT', f'{RP}.profile', ['self._flux / self.area'], 'flux difference / area difference')
    SP.returns_match(repo, res, 'SLOT', f'{RP}.profile_error', ['self._fluxerr / self.area', 'self._fluxerr'],
                     'error difference / area difference (the empty error array when error is None)')
    # the photometry loop: per-aperture results appended to the matching lists
    f = repo.get_function(f'{PB}._photometry')
    appends = {}
    for n in ast.walk(f.node):
        if isinstance(n, ast.Call) and isinstance(n.func, ast.Attribute) and n.func.attr == 'append' \
                and isinstance(n.func.value, ast.Name) and n.args:
            appends[n.func.value.id] = nf(n.args[0])
    want = {'fluxes': 'flux[0]', 'fluxerrs': 'fluxerr[0]', 'areas': 'area'}
    for k, v in want.items():
        ok = appends.get(k) == v
        res.oblige('SLOT', f'_photometry appends {v} to {k}', ok, nontrivial=True, sample={'list': k, 'appended': appends.get(k)})
        if not ok:
            res.add(Finding('SLOT', f.fullname, f'{k}.append', f.loc,
                            f'_photometry must append `{v}` to `{k}`, found `{appends.get(k)}`', {}))
    tgt = None
    for n in ast.walk(f.node):
        if isinstance(n, ast.Assign) and isinstance(n.value, ast.Call) and unparse(n.value.func, 0).endswith('do_photometry'):
            tgt = nf(n.targets[0])
    ok = tgt == '(flux,fluxerr)'
    res.oblige('SLOT', 'do_photometry result unpacked as (flux, fluxerr)', ok, nontrivial=True)
    if not ok:
        res.add(Finding('SLOT', f.fullname, 'do_photometry unpack', f.loc, f'do_photometry result must be unpacked as (flux, fluxerr), found {tgt}', {}))
    SP.same_kwargs(repo, res, 'SIB', f'{PB}._photometry', 'do_photometry', 'area_overlap', ['mask', 'method', 'subpixels'],
                   'sums and areas must be taken over the same pixels')
    for call in SP.find_calls(f.node, 'do_photometry'):
        kw = SP.kwargs_of(call)
        ok = nf(call.args[0]) == 'self.data' and 'error' in kw and nf(kw['error']) == 'self.error' \
            and nf(kw.get('mask')) == 'self.mask' and nf(kw.get('method')) == 'self.method'
        res.oblige('SIB', 'do_photometry(self.data, error=self.error, mask=self.mask, method=self.method, ...)', ok, nontrivial=True)
        if not ok:
            res.add(Finding('SIB', f.fullname, 'do_photometry arguments', f'{f.module.relpath}:{call.lineno}',
                            'the profile photometry must use self.data / self.error / self.mask / self.method', {}))
    for call in SP.find_calls(f.node, 'area_overlap'):
        ok = nf(call.args[0]) == 'self.data'
        res.oblige('SIB', 'area_overlap(self.data, ...)', ok, nontrivial=True)
    # apertures: one CircularAperture(self.xycen, radius) per radius, None only for radius <= 0
    f = repo.get_function(f'{PB}._circular_apertures')
    calls = SP.find_calls(f.node, 'CircularAperture')
    ok = len(calls) == 1 and [nf(a) for a in calls[0].args] == ['self.xycen', 'radius']
    comps = [n for n in ast.walk(f.node) if isinstance(n, ast.ListComp)]
    ok = ok and len(comps) == 1 and nf(comps[0]) == nf_text('[None if radius <= 0.0 else CircularAperture(self.xycen, radius) for radius in self.radii]')
    res.oblige('SLOT', 'one CircularAperture(self.xycen, radius) per radius in self.radii', ok, nontrivial=True)
    if not ok:
        res.add(Finding('SLOT', f.fullname, 'aperture construction', f.loc,
                        '_circular_apertures must build CircularAperture(self.xycen, radius) for each radius of self.radii', {}))
    # D1: mask builder
    f = repo.get_function(f'{PB}._compute_mask')
    inl = Inliner(f.node)
    src = ast.unparse(f.node)
    names_ok = all(x in src for x in ('isfinite(data)', 'isfinite(error)'))
    rets = [nf(e) for e, _ in inl.returns]
    ok = names_ok and len(rets) == 1
    res.oblige('D1', '_compute_mask flags non-finite data and error', ok, nontrivial=True, sample={'returns': rets})
    if not ok:
        res.add(Finding('D1', f.fullname, 'mask builder', f.loc, '_compute_mask must mask non-finite data and error pixels', {}))
    # union with the input mask on the path where a mask is given
    union_ok = False
    for n in ast.walk(f.node):
        if isinstance(n, (ast.Assign, ast.AugAssign)):
            t = n.targets[0] if isinstance(n, ast.Assign) else n.target
            if isinstance(t, ast.Name) and t.id == 'mask':
                v = nf(n.value) if isinstance(n, ast.Assign) else f'or(badmask,mask)' if isinstance(n.op, ast.BitOr) and nf(n.value) == 'badmask' else None
                if v == 'or(badmask,mask)':
                    union_ok = True
    res.oblige('D1', '_compute_mask returns input mask | non-finite mask', union_ok, nontrivial=True)
    if not union_ok:
        res.add(Finding('D1', f.fullname, 'mask union', f.loc, '_compute_mask must return the union of the input mask and the non-finite mask', {}))
    from .common import run_nonfinite, run_late_update
    run_nonfinite(repo, res, {'photutils.profiles.core','photutils.profiles.radial_profile','photutils.profiles.curve_of_growth'})
    from .common import run_scale_free
    from ..forward import run_forward
    PM = {'photutils.profiles.core', 'photutils.profiles.radial_profile', 'photutils.profiles.curve_of_growth'}
    run_scale_free(repo, res, PM)
    # method/subpixels reach the aperture masks: profiles are built from do_photometry/area_overlap of the apertures
    run_forward(repo, res, PM | {'photutils.aperture.core'})
    if run_late_update(repo, res, {'photutils.profiles.core'}) < 1:
        raise AnalysisError('vanished anchor: mask merge in ProfileBase._compute_mask')
    res.floor('L1', 100)
    res.floor('SLOT', 12)
    res.floor('SIB', 4)
    res.floor('MIRROR', 2)
    res.floor('ATOMIC', 2)
    res.exhaustive_rules = ['L1 over (normalize|unnormalize|other public entries) x lazyproperties of the three profile classes']
    from .common import run_clone_pairs
    run_clone_pairs(repo, res, {m for m in repo.modules if m.startswith('photutils.profiles') and '.tests' not in m})
    # getters of the profile classes modify no stored array in place (a second read after normalize/unnormalize must see raw values)
    from .C10 import get_alias
    d_, _ft = get_alias(repo)
    for c_ in repo.classes.values():
        if c_.module.name not in ('photutils.profiles.core', 'photutils.profiles.radial_profile', 'photutils.profiles.curve_of_growth'):
            continue
        for fs_ in c_.methods.values():
            for f_ in fs_:
                if not (f_.is_property and not f_.is_setter):
                    continue
                sm_ = d_.summary(f_)
                bad_ = [(fld, s_) for fld, sites in sm_.mutf.items() for s_ in sites.values()]
                res.oblige('A2', f'getter {f_.qualname} modifies no stored array in place', not bad_, nontrivial=True)
                for fld, s_ in bad_:
                    res.add(Finding('A2', s_.finfo.fullname, norm_stmt_text(s_.stmt), s_.loc,
                                    f'evaluating {f_.qualname} modifies the object stored in `self.{fld}` in place ({s_.describe()}): '
                                    f'every later read (after normalize/unnormalize) starts from the already rescaled values', {}))
    from .C01 import bbox_rules
    bbox_rules(repo, res)
    from .common import run_axis
    run_axis(repo, res, {'photutils.aperture.bounding_box'})
    from .C10 import get_alias
    d2_, _f2 = get_alias(repo)
    vr = repo.functions.get('photutils.profiles.core.ProfileBase._validate_radii')
    if vr is None:
        raise AnalysisError('vanished anchor: ProfileBase._validate_radii')
    shared = sorted(o for o in d2_.summary(vr).ret if o[0] in ('P', 'Pi') and o[1] != 'self')
    res.oblige('SPEC', 'ProfileBase._validate_radii returns a private copy of the radii', not shared, nontrivial=True)
    if shared:
        res.add(Finding('SPEC', vr.fullname, 'radii copy', vr.loc,
                        'ProfileBase._validate_radii may return the caller\'s `radii` array itself: the lazily evaluated radius, '
                        'apertures and photometry then follow later edits of that array', {}))
    # the property goes through BoundingBox.from_float / get_overlap_slices: C01's rules for them are its rules too
    from .C01 import bbox_rules as _c01_bbox_rules
    _c01_bbox_rules(repo, res)
    from .common import run_generic_pack
    run_generic_pack(repo, res, PROP, ())
    return res
