"""C10 - no public call modifies the arrays, tables or models passed to it.

Rule A1 (DESIGN 3.1): for every public entry point no caller-owned origin
may reach an in-place sink, directly, through callees, or through a field
that holds (a view of) a constructor/method argument.
"""
from __future__ import annotations

import ast

from ..core import ClassInfo, norm_stmt_text
from ..alias import AliasAnalysis, FieldTaint, is_public_function
from ..report import Finding, Result

PROP = 'C10'

_alias_cache = {}


def get_alias(repo):
    key = id(repo)
    if key not in _alias_cache:
        d = AliasAnalysis(repo).run()
        _alias_cache[key] = (d, FieldTaint(d))
    return _alias_cache[key]


# (sink function fullname, parameter-or-field name or '*') -> reason.
# Exemptions are never wider than one named function x one named object.
EXEMPT = {
    ('photutils.aperture.attributes.ApertureAttribute.__set__', 'instance'):
        'descriptor protocol: storing into the owning instance is what __set__ is for',
    ('photutils.aperture.attributes.ApertureAttribute.__delete__', 'instance'):
        'descriptor protocol',
    ('photutils.aperture.attributes.ApertureAttribute._reset_lazyproperties', 'instance'):
        'descriptor protocol: drops the cached lazyproperties of the owning instance',
    ('photutils.aperture.attributes.PixelPositions.__set__', 'instance'):
        'descriptor protocol',
    ('photutils.aperture.attributes.ScalarAngleOrValue.__set__', 'instance'):
        'descriptor protocol',
    ('photutils.isophote.ellipse.Ellipse.fit_isophote', 'isophote_list'):
        'documented: "If not None, the fitted isophote is appended to this list"',
    ('photutils.utils.depths.ImageDepth._mask_border', 'mask'):
        'reached from __call__ only under `np.any(mask)`, and then _dilate_mask has '
        'rebound `mask` to the fresh result of binary_dilation (cross-function path '
        'correlation the may-analysis cannot see)',
    ('photutils.isophote.integrator._Integrator._store_results', '_angles'):
        'private integrator protocol: EllipseSample.extract hands in fresh output lists',
    ('photutils.isophote.integrator._Integrator._store_results', '_radii'):
        'private integrator protocol: fresh output lists',
    ('photutils.isophote.integrator._Integrator._store_results', '_intensities'):
        'private integrator protocol: fresh output lists',
    ('photutils.isophote.isophote.Isophote.fix_geometry', 'sample'):
        'documented in-place mutator of its own object ("This method should be called when the fitting goes berserk...")',
    ('photutils.isophote.isophote.IsophoteList.__delitem__', '_list'): 'list protocol of the list wrapper (documented mutator of own object)',
    ('photutils.isophote.isophote.IsophoteList.__setitem__', '_list'): 'list protocol of the list wrapper',
    ('photutils.isophote.isophote.IsophoteList.extend', '_list'): 'list protocol of the list wrapper',
    ('photutils.isophote.isophote.IsophoteList.append', '_list'): 'list protocol of the list wrapper',
    ('photutils.isophote.isophote.IsophoteList.insert', '_list'): 'list protocol of the list wrapper',
    ('photutils.isophote.isophote.IsophoteList.sort', '_list'): 'list protocol of the list wrapper',
    ('photutils.isophote.isophote.IsophoteList.__add__', '_list'):
        '`temp = self._list[:]` is a slice copy of a python list (the model treats slices as views)',
    ('photutils.isophote.isophote.IsophoteList.__iadd__', '_list'): 'list protocol of the list wrapper',
    ('photutils.psf.epsf_stars.EPSFStars.__delitem__', '_data'): 'list protocol of the star container (documented mutator of own object)',
    ('photutils.psf.epsf_stars.LinkedEPSFStar.constrain_centers', '_data'):
        'documented in-place mutator ("Constrain the centers of linked EPSFStar objects")',
    ('photutils.segmentation.catalog.SourceCatalog.fluxfrac_radius', '_error'):
        '`args = fluxfrac_args[:-1]` is a slice copy of a python list whose element 3 is a float; '
        'container contents are merged in the model',
    ('photutils.isophote.fitter.EllipseFitter.fit', '_sample'):
        'sample.update()/minimum_amplitude_sample.update(): the fitter is documented to work on the '
        'sample it was built with (update() fills the sample\'s own extracted values); the '
        'geometry.fix store in the same function is NOT exempt (matched by construct below)',
    ('photutils.isophote.fitter.CentralEllipseFitter.fit', '_sample'):
        'same as EllipseFitter.fit: update() on the fitter\'s own working sample',
}
# constructs inside an otherwise exempt (function, object) that stay reported
NOT_EXEMPT_CONSTRUCTS = {
    ('photutils.isophote.fitter.EllipseFitter.fit', 'sample.geometry.fix = fixed_parameters'),
}


def _imagedepth_guard_present(repo):
    """ImageDepth.__call__ reaches _make_all_coords(mask) only in the else-branch of
    `mask is None or not np.any(mask)`."""
    import ast as _ast
    from ..guards import guard_of, atoms
    f = repo.functions.get('photutils.utils.depths.ImageDepth.__call__')
    if f is None:
        return False
    for n in _ast.walk(f.node):
        if isinstance(n, _ast.Call) and isinstance(n.func, _ast.Attribute) and n.func.attr == '_make_all_coords':
            g = guard_of(n, f.node)
            return any('np.any(mask)' in a for a in atoms(g))
    return False


# exemptions that hold only while a structural condition is true
CONDITIONAL = {
    ('photutils.utils.depths.ImageDepth._mask_border', 'mask'): _imagedepth_guard_present,
}
_repo_for_exempt = [None]


def _exempt(site, name):
    fn = site.finfo.fullname
    cond = CONDITIONAL.get((fn, name))
    if cond is not None and _repo_for_exempt[0] is not None and not cond(_repo_for_exempt[0]):
        return None
    if (fn, norm_stmt_text(site.stmt)) in NOT_EXEMPT_CONSTRUCTS:
        return None
    return EXEMPT.get((fn, name)) or EXEMPT.get((fn, '*'))


def collect(repo, res, modules=None):
    d, ft = get_alias(repo)
    _repo_for_exempt[0] = repo
    used_exempt = set()
    n_entries = 0
    # (i) parameters of public entry points
    for f in repo.functions.values():
        if not is_public_function(repo, f):
            continue
        if modules and f.module.name not in modules:
            continue
        n_entries += 1
        sm = d.summary(f)
        for p in f.params:
            if p in ('self', 'cls'):
                continue
            kind = d.param_kind(f, p)
            sites = sm.mut.get(p, {})
            live = []
            for s in sites.values():
                why = _exempt(s, p)
                # exemption is keyed by the *sink's* function and the name of
                # the object there; a chain may rename the object, so also try
                # the root site's own parameter names
                if why is None:
                    for (fn, nm), w in EXEMPT.items():
                        if CONDITIONAL.get((fn, nm)) is not None and not CONDITIONAL[(fn, nm)](repo):
                            continue
                        if fn == s.finfo.fullname and nm in s.finfo.params and \
                                (fn, norm_stmt_text(s.stmt)) not in NOT_EXEMPT_CONSTRUCTS and \
                                _mentions(s.stmt, nm):
                            why = w
                            used_exempt.add((fn, nm))
                            break
                else:
                    used_exempt.add((s.finfo.fullname, p))
                if why is None:
                    live.append(s)
            ok = not live
            nontrivial = kind != 'scalar' and _param_used_in_flow(f, p)
            res.oblige('A1', f'{f.fullname}({p}) reaches no in-place sink', ok,
                       nontrivial=nontrivial,
                       sample={'entry': f.fullname, 'param': p, 'kind': kind,
                               'sinks_reached': len(sites)} if nontrivial else None)
            for s in live:
                res.add(Finding(
                    'A1', s.finfo.fullname, norm_stmt_text(s.stmt), s.loc,
                    f'caller-owned `{p}` of {f.qualname} may be modified in place: {s.describe()}',
                    {'entry': f.fullname, 'param': p, 'chain': list(s.chain), 'what': s.what}))
    # (ii) fields that hold (a view of) a caller-owned object
    seen_cls = set()
    for c in repo.classes.values():
        if modules and c.module.name not in modules:
            continue
        for f in c.all_functions():
            sm = d.summary(f)
            for fld, sites in sm.mutf.items():
                for s in sites.values():
                    src = ft.sources(c, fld, s.lvl)
                    if not src:
                        continue
                    key = (s.key(), fld)
                    if key in seen_cls:
                        continue
                    seen_cls.add(key)
                    why = _exempt(s, fld)
                    if why is not None:
                        used_exempt.add((s.finfo.fullname, fld))
                    res.oblige('A1-field', f'{c.name}.{fld} (holds {sorted(src)[0]}) not mutated at {s.finfo.qualname}: {norm_stmt_text(s.stmt)}',
                               why is not None, nontrivial=True,
                               sample={'class': c.fullname, 'field': fld, 'holds': sorted(src)[:2],
                                       'exempt_reason': why})
                    if why is None:
                        e, p = sorted(src)[0]
                        res.add(Finding(
                            'A1', s.finfo.fullname, norm_stmt_text(s.stmt), s.loc,
                            f'`self.{fld}` holds the caller\'s `{p}` (stored by {e}) and may be modified in place: {s.describe()}',
                            {'class': c.fullname, 'field': fld, 'sources': sorted(src)[:4],
                             'chain': list(s.chain), 'what': s.what}))
    if res.prop != 'C10':
        # findings that are C10's listed known findings are reported by C10 only
        from ..report import load_known
        c10_known = {k['key'] for k in load_known() if k.get('property') == 'C10' and k.get('status') == 'known'}
        dropped = [f for f in res.findings if f.rule == 'A1' and f.key in c10_known]
        if dropped:
            res.findings = [f for f in res.findings if not (f.rule == 'A1' and f.key in c10_known)]
            res.notes['a1_findings_listed_under_C10'] = [f.key for f in dropped]
    res.notes['public_entry_points'] = n_entries
    res.notes['call_sites_resolved'] = d.resolved_calls
    res.notes['call_sites_external_assumed_pure'] = sum(d.unresolved.values())
    res.notes['external_callees_assumed_pure_top'] = sorted(d.unresolved.items(), key=lambda kv: -kv[1])[:25]
    res.notes['fixpoint_rounds'] = d.rounds
    res.notes['exemptions_used'] = sorted(f'{a}:{b}' for a, b in used_exempt)
    return d, ft


def _mentions(stmt, name):
    return any(isinstance(n, ast.Name) and n.id == name for n in ast.walk(stmt))


def _param_used_in_flow(f, p):
    for n in ast.walk(f.node):
        if isinstance(n, ast.Name) and n.id == p and isinstance(n.ctx, ast.Load):
            return True
    return False


def run(repo, tier):
    res = Result(PROP)
    res.explanation = (
        'Rule A1 (ownership/alias may-analysis with interprocedural MUT/RET/STORE summaries '
        'iterated to a fixpoint over the whole package): for every public function, method, '
        'property and constructor, no object passed by the caller (or a view/sub-object of it, '
        'or a field that stores it) reaches a subscript store, augmented assignment, attribute '
        'store, in-place method, out= argument or mutating numpy call on any path. '
        'Decides the structural clause "no aliasing path to an in-place write exists"; '
        'a finding names entry point, call chain and sink.')
    res.not_decided = ('bit-for-bit equality is implied by absence of writes under the stated '
                       'assumptions; effects inside external libraries (astropy fitters, scipy) are assumed absent.')
    res.assumptions = [
        'external callees not in the API table return fresh objects and mutate nothing (census in evidence)',
        'contents of containers are merged; a fresh container holding a caller object next to fresh '
        'objects is not reported when an element of it is mutated through a field (depth-1 gap)',
        '`name op= value` on a name bound to an *item* (iteration / integer index) of a caller array is a rebinding of a scalar',
        'dynamic attribute names (getattr/setattr with computed names) resolve to the receiver object as a whole',
    ]
    collect(repo, res)
    res.floor('A1', 400)
    res.floor('A1-field', 10)
    res.exhaustive_rules = ['A1 over all public entry points x parameters']
    from .common import run_no_overwrite_input
    run_no_overwrite_input(repo, res, {m for m in repo.modules if '.tests' not in m})
    from .common import run_generic_pack
    run_generic_pack(repo, res, PROP, ())
    return res
