"""C15 - results do not depend on how the same numbers are represented (structural clauses)."""
from __future__ import annotations

import ast
import re

from ..core import AnalysisError, norm_stmt_text, unparse, enclosing_stmt
from ..report import Finding, Result
from ..expr import nf, nf_text
from ..alias import docstring_param_types, is_public_function
from ..dtypeflow import DtypeFlow
from .. import spec as SP
from .common import expect_stmt
from .C11 import dispatch

PROP = 'C15'


def dtype_rule(repo, res):
    n_sinks = 0
    for f in repo.functions.values():
        d = DtypeFlow(f).analyse()
        n_sinks += d.sinks
        res.inst('DTYPE', d.sinks)
        res.obligations += d.sinks
        res.discharged += d.sinks - len(d.findings)
        if d.sinks:
            res.nontrivial.add(('DTYPE', f.fullname))
            if len([s for s in res.samples if s.get('rule') == 'DTYPE']) < 3:
                res.samples.append({'rule': 'DTYPE', 'function': f.fullname, 'float_valued_in_place_sites': d.sinks})
        for st, name, why in d.findings:
            res.add(Finding('DTYPE', f.fullname, norm_stmt_text(st), f'{f.module.relpath}:{st.lineno}',
                            f'{f.qualname} {why} `{name}`, which still has the dtype the caller passed (copy/view of a parameter without a '
                            f'float conversion): integer input raises a casting error or is silently truncated', {}))
    return n_sinks


def quantity_rule(repo, res):
    """Every Quantity-capable input of a function that validates units is part of the validated tuple."""
    n = 0
    for f in repo.functions.values():
        calls = [c for c in ast.walk(f.node) if isinstance(c, ast.Call) and unparse(c.func, 0).endswith('process_quantities')]
        if not calls or f.module.name.endswith('_quantity_helpers'):
            continue
        call = calls[0]
        inputs = call.args[0] if call.args else None
        names = call.args[1] if len(call.args) > 1 else None
        # resolve `inputs = (a, b, c)` / `names = (...)`
        def resolve(node):
            if isinstance(node, ast.Name):
                for s in ast.walk(f.node):
                    if isinstance(s, ast.Assign) and len(s.targets) == 1 and isinstance(s.targets[0], ast.Name) \
                            and s.targets[0].id == node.id and isinstance(s.value, (ast.Tuple, ast.List)) and s.lineno <= call.lineno:
                        return s.value
            return node
        inputs, names = resolve(inputs), resolve(names)
        if not isinstance(inputs, (ast.Tuple, ast.List)) or not isinstance(names, (ast.Tuple, ast.List)):
            raise AnalysisError(f'{f.fullname}: cannot resolve the process_quantities arguments')
        in_names = [unparse(e, 0) for e in inputs.elts]
        nm = [e.value if isinstance(e, ast.Constant) else None for e in names.elts]
        n += 1
        ok = len(in_names) == len(nm) and all(a.split('.')[-1].lstrip('_') == (b or '').lstrip('_') or a.split('.')[-1] == b
                                              for a, b in zip(in_names, nm))
        res.oblige('QTY', f'{f.qualname}: process_quantities values and names correspond', ok, nontrivial=True,
                   sample={'function': f.fullname, 'values': in_names, 'names': nm})
        if not ok:
            res.add(Finding('QTY', f.fullname, 'process_quantities values/names', f'{f.module.relpath}:{call.lineno}',
                            f'{f.qualname}: process_quantities is called with values {in_names} and names {nm} that do not correspond', {}))
        # every parameter documented as Quantity-capable *array-like image input* is validated
        doc = docstring_param_types(f.node)
        if f.cls is not None and f.name == '__init__' and not doc:
            doc = docstring_param_types(f.cls.node)
        params = [p for p in f.params if p not in ('self', 'cls')]
        qparams = [p for p in params if p in doc and 'Quantity' in doc[p]]
        # parameters whose documentation extends over several lines: look at the raw docstring
        raw = ast.get_docstring(f.node) or (ast.get_docstring(f.cls.node) if f.cls is not None and f.name == '__init__' else '') or ''
        for p in params:
            m = re.search(rf'^\s*{re.escape(p)} : ([^\n]*(?:\n\s{{8,}}[^\n]*){{0,2}})', raw, re.M)
            if m and 'Quantity' in m.group(1) and p not in qparams:
                qparams.append(p)
        for p in qparams:
            ok = p in in_names or f'self.{p}' in in_names or f'self._{p}' in in_names
            why = None
            if not ok:
                why = QTY_EXEMPT.get((f.fullname, p))
                ok = why is not None
            res.oblige('QTY', f'{f.qualname}: Quantity-capable `{p}` is unit-checked together with the other inputs', ok, nontrivial=True,
                       sample={'function': f.fullname, 'param': p, 'exempt': why})
            if not ok:
                res.add(Finding('QTY', f.fullname, f'{p} not unit-checked', f'{f.module.relpath}:{call.lineno}',
                                f'{f.qualname}: `{p}` is documented as accepting a Quantity but is not among the values {in_names} whose '
                                f'units are validated: mixing unit-ful and unit-less inputs (or different units) is silently accepted', {}))
    return n


QTY_EXEMPT = {
    ('photutils.segmentation.detect.detect_threshold', 'data'): None,
}
QTY_EXEMPT = {k: v for k, v in QTY_EXEMPT.items() if v}


def conversions(repo, res):
    f = repo.get_function('photutils.utils._convolution._filter_data')
    tests = [n for n in ast.walk(f.node) if isinstance(n, ast.If) and 'dtype' in unparse(n.test, 0)]
    accepted = [nf_text('np.issubdtype(data.dtype, np.integer)'), nf_text("data.dtype.kind in 'iu'"), nf_text("data.dtype.kind in ('i', 'u')"),
                nf_text("data.dtype.kind != 'f'"), nf_text('not np.issubdtype(data.dtype, np.floating)')]
    ok = len(tests) == 1 and nf(tests[0].test) in accepted and any(SP.nf_stmt(s) == 'data = ' + nf_text('data.astype(float)')
                                                                   for s in tests[0].body if isinstance(s, ast.Assign))
    res.oblige('CONV', '_filter_data converts every integer dtype (signed and unsigned) to float before convolving', ok, nontrivial=True,
               sample={'test': unparse(tests[0].test) if tests else None})
    if not ok:
        res.add(Finding('CONV', f.fullname, 'integer -> float conversion', f.loc,
                        '_filter_data must convert all integer images (np.issubdtype(dtype, np.integer): signed and unsigned) to float '
                        'before ndimage.convolve, which otherwise returns an integer image', {}))
    g = repo.get_function('photutils.background.background_2d.Background2D._calculate_stats')
    tests = [n for n in ast.walk(g.node) if isinstance(n, ast.If) and 'dtype' in unparse(n.test, 0)]
    ok = len(tests) == 1 and nf(tests[0].test) == nf_text("self._data.dtype.kind != 'f'")
    res.oblige('CONV', 'Background2D converts every non-float image to float before NaN-masking', ok, nontrivial=True)
    if not ok:
        res.add(Finding('CONV', g.fullname, 'non-float -> float conversion', g.loc, 'Background2D must convert non-float data before NaN masking', {}))
    h = repo.get_function('photutils.segmentation.catalog.SourceCatalog._prepare_cutouts')
    ok = 'astype(dtype, copy=True)' in ast.unparse(h.node)
    res.oblige('CONV', 'SourceCatalog cutouts are converted with astype(dtype, copy=True)', ok, nontrivial=True)
    if not ok:
        res.add(Finding('CONV', h.fullname, 'cutout conversion', h.loc, 'SourceCatalog._prepare_cutouts must convert cutouts with astype(dtype, copy=True)', {}))


def nddata_unpackers(repo, res):
    """The NDData branches consume data, unit, mask and uncertainty."""
    sites = [('photutils.aperture.photometry.aperture_photometry', {'mask', 'wcs', 'uncertainty', 'unit', 'data'}),
             ('photutils.aperture.stats.ApertureStats._unpack_nddata', {'mask', 'wcs', 'uncertainty', 'unit', 'data'}),
             ('photutils.psf.photometry.PSFPhotometry.__call__', {'mask', 'uncertainty', 'unit', 'data'}),
             ('photutils.psf.photometry.IterativePSFPhotometry.__call__', {'mask', 'uncertainty', 'unit', 'data'})]
    for fn, want in sites:
        f = repo.functions.get(fn)
        if f is None:
            # ApertureStats unpacks in __init__ in some versions
            f = repo.functions.get(fn.replace('._unpack_nddata', '.__init__'))
        if f is None:
            raise AnalysisError(f'vanished anchor: {fn}')
        got = set()
        for n in ast.walk(f.node):
            if isinstance(n, ast.Attribute) and isinstance(n.value, ast.Name) and n.value.id == 'data' and n.attr in want:
                got.add(n.attr)
        ok = want <= got
        res.oblige('NDDATA', f'{f.qualname}: the NDData branch consumes {sorted(want)}', ok, nontrivial=True, sample={'function': f.fullname, 'members': sorted(got)})
        if not ok:
            res.add(Finding('NDDATA', f.fullname, f'NDData members {sorted(want - got)} ignored', f.loc,
                            f'{f.qualname}: the NDData call form must use data.{sorted(want)}; {sorted(want - got)} are ignored, so the '
                            f'NDData and bare-array call forms disagree', {}))


def run(repo, tier):
    res = Result(PROP)
    res.explanation = (
        'Decided structural clauses over the whole package: DTYPE (abstract dtype-kind dataflow: no in-place true division / float-valued '
        'augmented assignment / NaN store on an array that still has the caller\'s dtype), QTY (every function that validates units passes '
        'values and names that correspond, and every Quantity-capable documented input is in the validated tuple), CONV (integer -> float '
        'conversions before kernels that preserve integer dtype), dispatch to bottleneck only for float64 (SIB/SPEC shared with C11), NDDATA '
        '(each NDData branch consumes data/unit/mask/uncertainty[/wcs]).')
    res.not_decided = ('big-endian / Fortran-ordered / strided inputs into bottleneck, scipy and the compiled kernels; float32 precision; '
                       'numerical equality across representations: not decided.')
    res.assumptions = ['numpy casting rules: in-place float results cannot be stored into integer arrays (same_kind)']
    dtype_rule(repo, res)
    quantity_rule(repo, res)
    conversions(repo, res)
    nddata_unpackers(repo, res)
    dispatch(repo, res)
    res.floor('DTYPE', 250)
    res.floor('QTY', 20)
    res.floor('CONV', 3)
    res.floor('NDDATA', 4)
    res.exhaustive_rules = ['DTYPE over every function of the package', 'QTY over every process_quantities call site']
    from .common import run_unit_last
    run_unit_last(repo, res)
    res.floor('UNIT-LAST', 30)
    from .common import run_cast_to_data_dtype
    run_cast_to_data_dtype(repo, res, {m for m in repo.modules if '.tests' not in m and not m.startswith('photutils.segmentation.')
                                       and 'extern' not in m} | {'photutils.segmentation.catalog'})
    from .common import run_clone_pairs
    run_clone_pairs(repo, res, {m for m in repo.modules if '.tests' not in m and 'extern' not in m})
    from .common import apply_specs
    from ..forward import run_forward
    apply_specs(repo, res, [
        ('photutils.psf.photometry.PSFPhotometry._check_init_units', 'stmt', 'init_params[colname] = values.to(self.data_unit)',
         'unit-ful init columns are converted to the data unit (their bare values are used afterwards)'),
    ])
    run_forward(repo, res, {'photutils.aperture.photometry', 'photutils.aperture.core', 'photutils.aperture.stats'})
    apply_specs(repo, res, [
        ('photutils.utils.errors.calc_total_error', 'stmt', 'effective_gain = np.zeros(data.shape) + effective_gain',
         'a scalar gain is broadcast by arithmetic (keeps the unit of a scalar Quantity)'),
        ('photutils.aperture.stats.ApertureStats.biweight_midvariance', 'ret', 'self._calculate_stats(biweight_midvariance, unit=unit)',
         'variance-like statistic carries the squared unit'),
        ('photutils.aperture.stats.ApertureStats.var', 'ret', 'self._calculate_stats(np.var, unit=unit)', 'variance carries the squared unit'),
        ('photutils.psf.photometry.PSFPhotometry.__call__', 'stmt', 'error = unc.represent_as(StdDevUncertainty).quantity',
         'NDData uncertainties of any flavour are converted to standard deviations'),
        ('photutils.psf.photometry.IterativePSFPhotometry.__call__', 'stmt', 'error = unc.represent_as(StdDevUncertainty).quantity',
         'NDData uncertainties of any flavour are converted to standard deviations'),
    ])
    from .common import run_generic_pack
    run_generic_pack(repo, res, PROP, ())
    return res
