"""C12 - PSF photometry keeps its bookkeeping straight (recovery itself is not decided)."""
from __future__ import annotations

import ast
import re

from ..core import AnalysisError, norm_stmt_text, unparse
from ..report import Finding, Result
from ..expr import nf, nf_text, Inliner
from ..lazy import self_attr
from .. import spec as SP
from .. import guards as G
from ..forward import run_forward
from .common import run_loops, run_axis, expect_stmt
from .C10 import collect as a1_collect

PROP = 'C12'
PP = 'photutils.psf.photometry.PSFPhotometry'
MODS = {'photutils.psf.photometry', 'photutils.psf.groupers', 'photutils.psf.utils',
        'photutils.background.local_background'}
GROUP_KEYS = {'npixfit', 'psfcenter_indices', 'nmodels'}
# (function, key) -> statement that brings the derived per-source list back to id order
GROUP_CONSUMERS = {
    ('_calc_fit_metrics', 'npixfit'): 'fit_residuals = self._order_by_id(fit_residuals)',
}


def order_rules(repo, res):
    cls = repo.get_class(PP)
    # ORDER-1: per-group lists are read only through _ungroup(...)
    n = 0
    for f in cls.all_functions():
        for node in ast.walk(f.node):
            if isinstance(node, ast.Subscript) and isinstance(node.ctx, ast.Load) and self_attr(node.value) == '_group_results' \
                    and isinstance(node.slice, ast.Constant) and node.slice.value in GROUP_KEYS:
                p = getattr(node, '_parent', None)
                # producer side: self._group_results[k].append(...)
                if isinstance(p, ast.Attribute) and p.attr == 'append':
                    continue
                n += 1
                ok = isinstance(p, ast.Call) and unparse(p.func, 0) == 'self._ungroup' and len(p.args) == 1
                if not ok and (f.name, node.slice.value) in GROUP_CONSUMERS:
                    # consumed in group order together with other group-ordered data; the derived
                    # per-source list must then go through _order_by_id in the same function
                    want = GROUP_CONSUMERS[(f.name, node.slice.value)]
                    ok = any(isinstance(s_, ast.Assign) and SP.nf_stmt(s_) == want for s_ in ast.walk(f.node))
                res.oblige('T-ORDER', f'{f.qualname}: group-ordered `{node.slice.value}` is un-grouped before use', ok, nontrivial=True,
                           sample={'function': f.fullname, 'key': node.slice.value})
                if not ok:
                    res.add(Finding('T-ORDER', f.fullname, unparse(node), f'{f.module.relpath}:{node.lineno}',
                                    f'{f.qualname} uses the per-group list `_group_results[{node.slice.value!r}]` (fit/group order) '
                                    f'without passing it through self._ungroup(): rows of the source-id ordered result table get the '
                                    f'values of other sources when group membership is interleaved', {}))
            # ORDER-5: the permutation itself is used only inside _order_by_id / where it is defined
            if isinstance(node, ast.Subscript) and isinstance(node.ctx, ast.Load) and self_attr(node.value) == '_group_results' \
                    and isinstance(node.slice, ast.Constant) and node.slice.value == 'ungroup_indices':
                ok = f.name == '_order_by_id' or _is_gather(node)
                res.oblige('T-ORDER', f'{f.qualname}: ungroup_indices used only by _order_by_id', ok, nontrivial=True)
                if not ok:
                    res.add(Finding('T-ORDER', f.fullname, unparse(node), f'{f.module.relpath}:{node.lineno}',
                                    f'{f.qualname} applies the group->id permutation by hand; only _order_by_id (gather form) may use it '
                                    f'(a scatter applies the inverse permutation)', {}))
    SP.returns_match(repo, res, 'T-ORDER', f'{PP}._order_by_id',
                     ["[iterable[i] for i in self._group_results['ungroup_indices']]"], 'the gather iterable[ungroup_indices]')
    SP.returns_match(repo, res, 'T-ORDER', f'{PP}._ungroup',
                     ['self._order_by_id(_flatten(iterable))', "[_flatten(iterable)[i] for i in self._group_results['ungroup_indices']]"],
                     'flatten, then reorder by id')
    f = repo.get_function(f'{PP}._fit_sources')
    expect_stmt(res, 'T-ORDER', f, 'sources = ' + nf_text("init_params.group_by('group_id')"), 'sources are fitted in group order')
    expect_stmt(res, 'T-ORDER', f, 'ungroup_idx = ' + nf_text("np.argsort(sources['id'].value)"), 'ungroup permutation = argsort of the ids of the grouped table')
    expect_stmt(res, 'T-ORDER', f, nf_text("self._group_results['ungroup_indices']") + ' = ungroup_idx', 'permutation stored for _order_by_id')
    g = repo.get_function(f'{PP}._parse_fit_results')
    for name, spec in (('fit_models', 'self._order_by_id(fit_models)'), ('fit_infos', 'self._order_by_id(fit_infos)'),
                       ('fit_param_errs', 'np.array(self._order_by_id(fit_param_errs))')):
        hits = [s for s in ast.walk(g.node) if isinstance(s, ast.Assign) and len(s.targets) == 1
                and unparse(s.targets[0]) == name and '_order_by_id' in unparse(s.value, 0)]
        ok = len(hits) == 1 and nf(hits[0].value) == nf_text(spec)
        res.oblige('T-ORDER', f'_parse_fit_results reorders {name} by id exactly once', ok, nontrivial=True)
        if not ok:
            res.add(Finding('T-ORDER', g.fullname, f'{name} reorder', g.loc,
                            f'_parse_fit_results must pass `{name}` through _order_by_id exactly once', {}))

    order_typestate(repo, res, g)


def order_typestate(repo, res, g):
    """Order typestate in _parse_fit_results: group-ordered lists (the group_* parameters and everything accumulated from a
    loop over them) become id-ordered only through _order_by_id/_ungroup; only id-ordered values may be stored in
    self.fit_info or returned."""
    def names(e):
        return {n_.id for n_ in ast.walk(e) if isinstance(n_, ast.Name)}
    grp = {p_ for p_ in g.params if p_.startswith('group_')}
    if len(grp) < 2:
        raise AnalysisError('vanished anchor: _parse_fit_results group_* parameters')
    n_sinks = 0
    for st in g.node.body:
        if isinstance(st, ast.For) and names(st.iter) & grp:
            for sub in ast.walk(st):
                if isinstance(sub, ast.Call) and isinstance(sub.func, ast.Attribute) and sub.func.attr in ('append', 'extend') \
                        and isinstance(sub.func.value, ast.Name):
                    grp.add(sub.func.value.id)
            continue
        if isinstance(st, ast.Assign) and len(st.targets) == 1 and isinstance(st.targets[0], ast.Name):
            src = unparse(st.value, 0)
            if names(st.value) & grp and not ('self._order_by_id(' in src or 'self._ungroup(' in src):
                grp.add(st.targets[0].id)
            else:
                grp.discard(st.targets[0].id)
            continue
        sink = None
        if isinstance(st, ast.Assign) and len(st.targets) == 1 and isinstance(st.targets[0], ast.Subscript) \
                and self_attr(st.targets[0].value) == 'fit_info':
            sink = st.value
        elif isinstance(st, ast.Return) and st.value is not None:
            sink = st.value
        if sink is not None:
            n_sinks += 1
            bad = sorted(names(sink) & grp)
            res.oblige('T-ORDER', f'_parse_fit_results: `{norm_stmt_text(st)}` publishes an id-ordered value', not bad, nontrivial=True)
            if bad:
                res.add(Finding('T-ORDER', g.fullname, norm_stmt_text(st), f'{g.module.relpath}:{st.lineno}',
                                f'_parse_fit_results publishes `{bad[0]}` at `{norm_stmt_text(st)}` while it is still in group (fit) order '
                                f'(not passed through _order_by_id): per-source consumers (fit_error_indices, flags, result rows) index it '
                                f'by source id', {}))
    if n_sinks < 3:
        raise AnalysisError('vanished anchor: _parse_fit_results publishes fewer than 3 values')


def init_table_rules(repo, res):
    f = repo.get_function(f'{PP}._prepare_init_params')
    # USER-COLUMN: a column the caller supplied is never overwritten
    for node in ast.walk(f.node):
        if isinstance(node, ast.Assign) and len(node.targets) == 1 and isinstance(node.targets[0], ast.Subscript) \
                and unparse(node.targets[0].value, 0) == 'init_params':
            key = unparse(node.targets[0].slice, 0)
            g = G.guard_of(node, f.node)
            atoms = G.atoms(g)
            # guarded by `<key> not in init_params.colnames` (or in the branch that just created the table)
            aliases = ['init_params.colnames'] + [a_.targets[0].id for a_ in ast.walk(f.node) if isinstance(a_, ast.Assign)
                                                 and len(a_.targets) == 1 and isinstance(a_.targets[0], ast.Name)
                                                 and unparse(a_.value, 0) == 'init_params.colnames']
            supplied = [('atom', f'{key} in {al}') for al in aliases]
            created = ('atom', 'init_params is None')
            # the guard must ENTAIL "not supplied" (or "table created here"): g & supplied & ~created unsatisfiable
            ok = G.satisfiable(G.conj([g] + supplied + [G.neg(created)])) is None
            res.oblige('USERCOL', f'_prepare_init_params stores column {key} only when the caller did not supply it', ok, nontrivial=True,
                       sample={'column': key, 'guard': G.show(g)[:160]})
            if not ok:
                res.add(Finding('USERCOL', f.fullname, norm_stmt_text(node), f'{f.module.relpath}:{node.lineno}',
                                f'_prepare_init_params overwrites the init_params column {key} without checking that the caller did not '
                                f'supply it (guard: {G.show(g)[:120]})', {}))
    expect_stmt(res, 'SPEC', f, nf_text("init_params['id']") + ' = ' + nf_text('np.arange(len(init_params)) + 1'), 'missing ids are 1..N in input order')
    expect_stmt(res, 'SPEC', f, 'group_id = ' + nf_text('self.grouper(init_params[xcolname], init_params[ycolname])'), 'grouper called with (x, y)')
    expect_stmt(res, 'SPEC', f, 'group_id = ' + nf_text("init_params['id'].copy()"), 'without a grouper every source is its own group')
    # D1: fit mask = input mask | non-finite
    g = repo.get_function(f'{PP}._make_mask')
    inl = Inliner(g.node)
    pool = [s for s in ast.walk(g.node) if isinstance(s, (ast.Assign, ast.AugAssign))]
    expect_stmt(res, 'D1', g, 'finite_mask = ' + nf_text('~np.isfinite(image)'), 'non-finite pixels flagged', pool)
    expect_stmt(res, 'D1', g, 'finite_mask BitOr= mask', 'union with the input mask', pool)
    # the union (not the bare input mask) is returned, with and without an input mask: either `mask` is rebound to the union on
    # both branches before the single return, or the union itself is what every non-None return hands back
    asg = [s for s in pool if isinstance(s, ast.Assign) and SP.nf_stmt(s) == 'mask = finite_mask']
    rets = [n.value for n in ast.walk(g.node) if isinstance(n, ast.Return) and n.value is not None]
    direct = bool(rets) and all((isinstance(v, ast.Name) and v.id == 'finite_mask') or (isinstance(v, ast.Constant) and v.value is None)
                                for v in rets) and any(isinstance(v, ast.Name) for v in rets)
    ok = len(asg) == 2 or (direct and not asg)
    res.oblige('D1', '_make_mask returns the union on both the mask-given and the no-mask path', ok, nontrivial=True)
    if not ok:
        res.add(Finding('D1', g.fullname, 'mask union returned', g.loc,
                        '_make_mask must return input mask | non-finite pixels on the path where a mask was given as well', {}))


def grouper_rules(repo, res):
    f = repo.get_function('photutils.psf.groupers.SourceGrouper._group_sources')
    expect_stmt(res, 'SPEC', f, 'xypos = ' + nf_text('np.transpose((x, y))'), 'positions clustered as (x, y) rows')
    expect_stmt(res, 'SPEC', f, 'group_id = ' + nf_text("fclusterdata(xypos, t=self.min_separation, criterion='distance')"),
                'single-linkage clusters at the minimum separation')
    # first-appearance renumbering, in either of its two spellings:
    #   mapping = defaultdict(lambda: len(mapping) + 1); np.array([mapping[g] for g in group_id])
    #   mapping = {}; for g in group_id: (if g not in mapping: mapping[g] = len(mapping) + 1); out.append(mapping[g])
    inl = Inliner(f.node)
    rets = [nf(e) for e, _ in inl.returns]
    form_a = nf_text('np.array([mapping[group] for group in group_id])') in rets and any(
        isinstance(s_, ast.Assign) and SP.nf_stmt(s_) == 'mapping = ' + nf_text('defaultdict(lambda: len(mapping) + 1)') for s_ in ast.walk(f.node))
    form_b = False
    for lp in [n for n in ast.walk(f.node) if isinstance(n, ast.For)]:
        if nf(lp.iter) != 'group_id' or not isinstance(lp.target, ast.Name):
            continue
        g_ = lp.target.id
        ifs = [b for b in lp.body if isinstance(b, ast.If)]
        apps = [b for b in lp.body if isinstance(b, ast.Expr) and isinstance(b.value, ast.Call) and unparse(b.value.func, 0).endswith('.append')]
        if len(ifs) == 1 and len(apps) == 1 and len(lp.body) == 2 and not ifs[0].orelse and len(ifs[0].body) == 1:
            t_ = nf(ifs[0].test)
            st_ = ifs[0].body[0]
            m_ = re.match(r'(?:notin\(|not\(in\()%s,(\w+)\)' % g_, t_)
            if m_ and isinstance(st_, ast.Assign) and SP.nf_stmt(st_) == f'{m_.group(1)}[{g_}] = ' + nf_text(f'len({m_.group(1)}) + 1') \
                    and nf(apps[0].value.args[0]) == f'{m_.group(1)}[{g_}]' \
                    and nf_text(f'np.array({unparse(apps[0].value.func.value, 0)})') in rets:
                form_b = True
    ok = form_a or form_b
    res.oblige('SPEC', 'group ids renumbered 1..G by first appearance only', ok, nontrivial=True)
    if not ok:
        res.add(Finding('SPEC', f.fullname, 'first-appearance renumbering', f.loc,
                        'SourceGrouper must return the fclusterdata ids renumbered 1..G by first appearance and nothing else '
                        '(counter starts at 1, every id looked up in the same mapping)', {}))


def fit_data_rules(repo, res):
    f = repo.get_function(f'{PP}._define_fit_data')
    pool = [s for s in ast.walk(f.node) if isinstance(s, (ast.Assign, ast.Expr))]
    for w, meaning in (
            (nf_text('(slc_lg, _)') + ' = ' + nf_text("overlap_slices(data.shape, self.fit_shape, (ycen, xcen), mode='trim')"),
             'fit window = fit_shape around (ycen, xcen), clipped to the image'),
            (nf_text('(yy, xx)') + ' = ' + nf_text('np.mgrid[slc_lg]'), 'pixel grid in (y, x) order'),
            ('inv_mask = ' + nf_text('~mask[yy, xx]'), 'unmasked pixels of the window'),
            (nf_text('cutout.append(data[yy, xx] - local_bkg)'), 'fit data = pixels minus this source\'s local background'),
            (nf_text('npixfit.append(len(xx))'), 'npixfit = number of unmasked fit pixels'),
            (nf_text("self._group_results['npixfit'].append(npixfit)"), 'npixfit recorded per group'),
            (nf_text("self._group_results['psfcenter_indices'].append(cen_index)"), 'centre indices recorded per group')):
        expect_stmt(res, 'SPEC', f, w, meaning, pool)
    g = repo.get_function('photutils.background.local_background.LocalBackground.__call__')
    expect_stmt(res, 'SPEC', g, 'values = ' + nf_text('apermask.get_values(data, mask=mask)'), 'local background uses unmasked annulus pixels only')


def _is_gather(node):
    """`[seq[i] for i in <ungroup_indices>]`: the permutation is the iterable of a comprehension whose element indexes a
    sequence with the loop variable (the gather form of _order_by_id, written out)."""
    g = getattr(node, '_parent', None)
    comp = getattr(g, '_parent', None)
    if not (isinstance(g, ast.comprehension) and g.iter is node and isinstance(g.target, ast.Name)
            and isinstance(comp, ast.ListComp) and len(comp.generators) == 1 and not g.ifs):
        return False
    e = comp.elt
    return isinstance(e, ast.Subscript) and isinstance(e.slice, ast.Name) and e.slice.id == g.target.id


def run(repo, tier):
    res = Result(PROP)
    res.explanation = (
        'Bookkeeping clause decided structurally: T-ORDER (every per-group list is passed through _ungroup exactly once before it meets '
        'the id-ordered table; the permutation is argsort of the grouped ids and is applied only by the gather in _order_by_id), USERCOL '
        '(no caller-supplied init_params column is overwritten: id, local_bkg, flux, group_id, extra params), D1 (fit mask = input mask | '
        'non-finite), SPEC (ids 1..N, fit window, local-background subtraction, grouper renumbering), FWD (IterativePSFPhotometry and '
        'LocalBackground forward every option), LP1/LP1b, T-AXIS, A1 on the psf photometry modules.')
    res.not_decided = 'recovery of x/y/flux on rendered scenes, flux scaling, flags vs geometry: numerical, no static bound in reach.'
    res.assumptions = ['scipy fclusterdata(criterion=distance) is single-linkage clustering', 'Table.group_by is a stable sort by group_id']
    order_rules(repo, res)
    init_table_rules(repo, res)
    grouper_rules(repo, res)
    fit_data_rules(repo, res)
    run_loops(repo, res, MODS, rules=('LP1', 'LP1b', 'LP2'))
    run_forward(repo, res, MODS)
    run_axis(repo, res, MODS)
    a1_collect(repo, res, modules=MODS)
    from .common import run_nonfinite
    run_nonfinite(repo, res, MODS)
    res.floor('T-ORDER', 12)
    res.floor('USERCOL', 5)
    res.floor('FWD', 15)
    res.floor('SPEC', 12)
    from .common import apply_specs, run_keypair
    PPM = 'photutils.psf.photometry.'
    apply_specs(repo, res, [
        (PPM + 'PSFPhotometry._check_init_units', 'stmt', 'init_params[colname] = values.to(self.data_unit)',
         'unit-ful init columns are converted to the data unit (their bare values are used afterwards)'),
        (PPM + 'IterativePSFPhotometry.__call__', 'stmt', "new_tbl['id'] += np.max(phot_tbl['id'])", 'ids of later iterations continue after the largest id'),
        (PPM + 'IterativePSFPhotometry.__call__', 'stmt', "new_tbl['group_id'] += np.max(phot_tbl['group_id'])", 'group ids continue after the largest group id'),
    ])
    run_keypair(repo, res, MODS)
    apply_specs(repo, res, [
        (PPM + 'PSFPhotometry._get_invalid_positions', 'stmt', 'positions = np.column_stack((y, x))',
         'positions stacked as (y, x) to be compared with (ny, nx) shapes'),
        (PPM + 'PSFPhotometry._define_fit_data', 'stmt', "local_bkg = row['local_bkg']", 'the local background of EACH source (row) is subtracted from its own cutout'),
    ])
    ic = repo.get_function(PPM + 'IterativePSFPhotometry.__call__')
    apps = [c_ for c_ in ast.walk(ic.node) if isinstance(c_, ast.Call) and unparse(c_.func, 0) == 'self.fit_results.append']
    okd = len(apps) >= 2 and all(nf(c_.args[0]) == nf_text('deepcopy(self._psfphot)') for c_ in apps)
    res.oblige('SPEC', 'IterativePSFPhotometry stores a deep copy of the worker after every iteration', okd, nontrivial=True)
    if not okd:
        res.add(Finding('SPEC', ic.fullname, 'fit_results snapshots', ic.loc,
                        'IterativePSFPhotometry.__call__ must append deepcopy(self._psfphot) after every iteration: the live worker is '
                        'overwritten by the next iteration, so all entries would alias the last one', {}))
    from .common import run_generic_pack
    run_generic_pack(repo, res, PROP, MODS)
    return res
