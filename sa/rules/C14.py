"""C14 - peak and star finders return exactly the sources their contract selects."""
from __future__ import annotations

import ast

from ..core import AnalysisError, norm_stmt_text, unparse
from ..report import Finding, Result
from ..expr import nf, nf_text
from .. import spec as SP
from .. import negzero as NZ
from ..forward import run_forward
from .common import run_loops, run_axis, expect_stmt
from .C05 import run_negzero
from .C10 import collect as a1_collect

PROP = 'C14'
MODS = {'photutils.detection.peakfinder', 'photutils.detection.core', 'photutils.detection.daofinder',
        'photutils.detection.irafstarfinder', 'photutils.detection.starfinder', 'photutils.utils._convolution'}
CATS = {'dao': 'photutils.detection.daofinder._DAOStarFinderCatalog',
        'iraf': 'photutils.detection.irafstarfinder._IRAFStarFinderCatalog',
        'star': 'photutils.detection.starfinder._StarFinderCatalog'}
FP = 'photutils.detection.peakfinder.find_peaks'


def find_peaks_rules(repo, res):
    f = repo.get_function(FP)
    pool = [s for s in ast.walk(f.node) if isinstance(s, (ast.Assign, ast.AugAssign))]
    want = [
        ('nan_mask = ' + nf_text('np.isnan(data)'), 'NaN pixels located'),
        ('data = ' + nf_text('np.copy(data)'), 'NaN fill happens on a copy'),
        (nf_text('data[nan_mask]') + ' = ' + nf_text('nanmin(data)'), 'NaN pixels filled with the data minimum (never a peak, never above a real maximum)'),
        ('peak_goodmask = ' + nf_text('data == data_max'), 'peak = pixel equal to its neighbourhood maximum'),
        ('peak_goodmask = ' + nf_text('np.logical_and(peak_goodmask, ~mask)'), 'masked pixels are removed after the maximum filter (mask not written into the data)'),
        ('peak_goodmask = ' + nf_text('np.logical_and(peak_goodmask, data > threshold)'), 'peaks strictly above the threshold'),
        (nf_text('(y_peaks, x_peaks)') + ' = ' + nf_text('peak_goodmask.nonzero()'), 'peak coordinates in (y, x) order'),
        ('peak_values = ' + nf_text('data[y_peaks, x_peaks]'), 'peak values read at [y, x]'),
        ('idx = ' + nf_text('np.argsort(peak_values)[::-1][:npeaks]'), 'top-N = descending sort cut at npeaks'),
        (nf_text('(ny, nx)') + ' = border_width', 'border widths unpacked as (ny, nx)'),
        (nf_text('peak_goodmask[:ny, :]') + ' = False', 'bottom border'), (nf_text('peak_goodmask[-ny:, :]') + ' = False', 'top border'),
        (nf_text('peak_goodmask[:, :nx]') + ' = False', 'left border'), (nf_text('peak_goodmask[:, -nx:]') + ' = False', 'right border'),
        ('ids = ' + nf_text('np.arange(len(x_peaks)) + 1'), 'ids 1..N'),
    ]
    for w, meaning in want:
        expect_stmt(res, 'SPEC', f, w, meaning, pool)
    # the data are never overwritten with the mask
    bad = [s for s in pool if isinstance(s, ast.Assign) and isinstance(s.targets[0], ast.Subscript)
           and unparse(s.targets[0].value, 0) == 'data' and 'nan_mask' not in unparse(s.targets[0].slice, 0)]
    res.oblige('SPEC', 'the image is modified only to fill NaN pixels (on the copy)', not bad, nontrivial=True)
    for s in bad:
        res.add(Finding('SPEC', f.fullname, norm_stmt_text(s), f'{f.module.relpath}:{s.lineno}',
                        'find_peaks writes into the image other than the NaN fill: masked/border pixels must be excluded from the '
                        'peak mask, not written into the data before the maximum filter', {}))
    # both maximum_filter calls use the same border treatment
    calls = SP.find_calls(f.node, 'maximum_filter')
    kws = [{k: nf(v) for k, v in SP.kwargs_of(c).items() if k in ('mode', 'cval')} for c in calls]
    ok = len(calls) == 2 and kws[0] == kws[1] == {'mode': "'constant'", 'cval': '0'} and all(nf(c.args[0]) == 'data' for c in calls)
    res.oblige('SIB', 'both maximum_filter calls: data, mode=constant, cval=0', ok, nontrivial=True, sample={'kwargs': kws})
    if not ok:
        res.add(Finding('SIB', f.fullname, 'maximum_filter calls', f.loc, f'find_peaks: the footprint and box_size branches must filter alike ({kws})', {}))
    # top-N applied before the None/empty return; sorted on peak_values
    # centroid refinement receives the same box/footprint/mask/error
    calls = SP.find_calls(f.node, 'centroid_sources')
    ok = len(calls) == 1 and [nf(a) for a in calls[0].args] == ['data', 'x_peaks', 'y_peaks'] and \
        {k: nf(v) for k, v in SP.kwargs_of(calls[0]).items()} == {'box_size': 'box_size', 'footprint': 'footprint', 'error': 'error',
                                                                 'mask': 'mask', 'centroid_func': 'centroid_func'}
    res.oblige('SPEC', 'centroid_sources(data, x_peaks, y_peaks, box_size/footprint/error/mask/centroid_func passed through)', ok, nontrivial=True)
    if not ok:
        res.add(Finding('SPEC', f.fullname, 'centroid refinement call', f.loc, 'find_peaks must refine with centroid_sources(data, x_peaks, y_peaks, ...) passing box_size, footprint, error, mask and centroid_func', {}))


def base_rules(repo, res):
    f = repo.get_function('photutils.detection.core.StarFinderBase._find_stars')
    pool = [s for s in ast.walk(f.node) if isinstance(s, ast.Assign)]
    for w, meaning in (('border_width = ' + nf_text('(yborder, xborder)'), 'border widths handed over in (y, x) order'),
                       ('yborder = ' + nf_text('(kernel.shape[0] - 1) // 2'), 'y half-size from shape[0]'),
                       ('xborder = ' + nf_text('(kernel.shape[1] - 1) // 2'), 'x half-size from shape[1]'),
                       ('yborder = ' + nf_text('kernel.yradius'), 'y radius'), ('xborder = ' + nf_text('kernel.xradius'), 'x radius'),
                       ('tbl = ' + nf_text('find_peaks(convolved_data, threshold, footprint=footprint, mask=mask, border_width=border_width)'),
                        'peaks of the convolved image above the threshold, masked, border excluded')):
        expect_stmt(res, 'SPEC', f, w, meaning, pool)
    SP.returns_match(repo, res, 'SPEC', 'photutils.detection.core.StarFinderBase._find_stars',
                     ["np.transpose((tbl['x_peak'], tbl['y_peak']))", 'None'], 'the (x, y) peak positions')


def kernel_rules(repo, res):
    """Elliptical Gaussian kernel: quadratic form a*dx^2 + 2*b*dx*dy + c*dy^2 rotated counter-clockwise by theta."""
    k = repo.get_function('photutils.detection.core._StarFinderKernel.__init__')
    pool = [s for s in ast.walk(k.node) if isinstance(s, ast.Assign)]
    for w, meaning in (
            ('self.a = ' + nf_text('(cost**2 / (2.0 * xsigma2)) + (sint**2 / (2.0 * ysigma2))'), 'x^2 coefficient'),
            ('self.b = ' + nf_text('0.5 * cost * sint * ((1.0 / xsigma2) - (1.0 / ysigma2))'), 'cross coefficient (counter-clockwise theta)'),
            ('self.c = ' + nf_text('(sint**2 / (2.0 * xsigma2)) + (cost**2 / (2.0 * ysigma2))'), 'y^2 coefficient'),
            ('self.elliptical_radius = ' + nf_text('self.a * (xx - self.xc)**2 + 2.0 * self.b * (xx - self.xc) * (yy - self.yc) + self.c * (yy - self.yc)**2'),
             'quadratic form on the grid'),
            ('self.ysigma = ' + nf_text('self.xsigma * self.ratio'), 'minor-axis sigma'),
            ('theta_radians = ' + nf_text('np.deg2rad(self.theta)'), 'theta in degrees'),
            (nf_text('(yy, xx)') + ' = ' + nf_text('np.mgrid[0:self.ny, 0:self.nx]'), 'grid in (y, x) order')):
        expect_stmt(res, 'SPEC', k, w, meaning, pool)


def comparisons_in(expr):
    """Flatten `a & b & c` into Compare nodes."""
    out = []
    def rec(e):
        if isinstance(e, ast.BinOp) and isinstance(e.op, ast.BitAnd):
            rec(e.left); rec(e.right)
        elif isinstance(e, ast.Compare):
            out.append(e)
        else:
            out.append(e)
    rec(expr)
    return out


EXPECT_FILTERS = {
    'dao': {('sharpness', '>=', 'sharplo'), ('sharpness', '<=', 'sharphi'), ('roundness1', '>=', 'roundlo'),
            ('roundness1', '<=', 'roundhi'), ('roundness2', '>=', 'roundlo'), ('roundness2', '<=', 'roundhi'), ('peak', '<=', 'peakmax')},
    'iraf': {('sharpness', '>=', 'sharplo'), ('sharpness', '<=', 'sharphi'), ('roundness', '>=', 'roundlo'),
             ('roundness', '<=', 'roundhi'), ('peak', '<=', 'peakmax')},
    'star': {('max_value', '<=', 'peakmax')},
}


def catalog_rules(repo, res):
    bodies = {}
    for key, cn in CATS.items():
        c = repo.get_class(cn)
        f = c.lookup('apply_filters')
        if f is None:
            raise AnalysisError(f'vanished anchor: {cn}.apply_filters')
        got = set()
        others = []
        for n in ast.walk(f.node):
            if isinstance(n, (ast.Assign, ast.AugAssign)) and unparse(n.targets[0] if isinstance(n, ast.Assign) else n.target) == 'mask':
                for cmp_ in comparisons_in(n.value):
                    if isinstance(cmp_, ast.Compare) and len(cmp_.ops) == 1 and unparse(cmp_.left, 0).startswith('newcat.') \
                            and unparse(cmp_.comparators[0], 0).startswith('newcat.'):
                        op = {'GtE': '>=', 'LtE': '<=', 'Gt': '>', 'Lt': '<'}.get(type(cmp_.ops[0]).__name__, '?')
                        got.add((cmp_.left.attr, op, cmp_.comparators[0].attr))
        ok = got == EXPECT_FILTERS[key]
        res.oblige('FILTER', f'{c.name}.apply_filters applies exactly the inclusive bounds of its contract', ok, nontrivial=True,
                   sample={'class': cn, 'comparisons': sorted(got)})
        if not ok:
            miss = sorted(EXPECT_FILTERS[key] - got)
            extra = sorted(got - EXPECT_FILTERS[key])
            res.add(Finding('FILTER', f.fullname, f'bounds filter missing={miss} unexpected={extra}', f.loc,
                            f'{c.name}.apply_filters: the bounds filter must be exactly the inclusive comparisons {sorted(EXPECT_FILTERS[key])}; '
                            f'missing {miss}, unexpected {extra}', {}))
        # finite filter: every attribute is a property of the class, and its mask indexes the catalog
        attrs = None
        for n in ast.walk(f.node):
            if isinstance(n, ast.Assign) and unparse(n.targets[0]) == 'attrs' and isinstance(n.value, ast.Tuple):
                attrs = [e.value for e in n.value.elts]
        members = c.all_methods()
        ok = attrs is not None and all(a in members for a in attrs) and {'xcentroid', 'ycentroid', 'flux'} <= set(attrs)
        res.oblige('FILTER', f'{c.name}: finite-value filter names existing measurements incl. centroid and flux', ok, nontrivial=True,
                   sample={'attrs': attrs})
        if not ok:
            res.add(Finding('FILTER', f.fullname, 'finite-value filter attributes', f.loc,
                            f'{c.name}.apply_filters: finite filter attributes {attrs} must be properties of the class and include the centroids and flux', {}))
        idx = [SP.nf_stmt(n) for n in ast.walk(f.node) if isinstance(n, ast.Assign) and unparse(n.targets[0]) == 'newcat']
        ok = 'newcat = self[mask]' in idx and ('newcat = newcat[mask]' in idx)
        res.oblige('FILTER', f'{c.name}: both filter masks index the catalog', ok, nontrivial=True)
        if not ok:
            res.add(Finding('FILTER', f.fullname, 'mask application', f.loc, f'{c.name}.apply_filters must index the catalog with both masks', {}))
        for m in ('select_brightest', 'apply_all_filters', 'reset_ids'):
            g = c.lookup(m)
            if g is None:
                raise AnalysisError(f'vanished anchor: {cn}.{m}')
            from ..axis import body_without_doc
            bodies.setdefault(m, {})[key] = [SP.nf_stmt(s) if not isinstance(s, ast.If) else 'if ' + nf(s.test) + ': ' + '; '.join(SP.nf_stmt(b) for b in s.body)
                                             for s in body_without_doc(g.node) if not isinstance(s, ast.Pass)]
    from .common import pathsum_spec
    DEFS = {
        'select_brightest': '''
def select_brightest(self):
    newcat = self
    if self.brightest is not None:
        idx = np.argsort(self.flux)[::-1][:self.brightest]
        newcat = self[idx]
    return newcat
''',
        'reset_ids': '''
def reset_ids(self):
    self.id = np.arange(len(self)) + 1
''',
        'apply_all_filters': '''
def apply_all_filters(self):
    cat = self.apply_filters()
    if cat is None:
        return None
    cat = cat.select_brightest()
    cat.reset_ids()
    return cat
''',
    }
    for m in ('select_brightest', 'reset_ids', 'apply_all_filters'):
        for key, cn in CATS.items():
            g = repo.get_class(cn).lookup(m)
            inl = None
            if m == 'apply_all_filters':
                # compared with select_brightest/reset_ids expanded on both sides (they may have been inlined)
                inl = {k: repo.get_class(cn).lookup(k).node for k in ('select_brightest', 'reset_ids')}
            pathsum_spec(res, 'SIB' if m == 'apply_all_filters' else 'SPEC', g, DEFS[m], inline=inl, meaning=
                         {'select_brightest': 'brightest = the N largest fluxes (all sources when brightest is None)',
                          'reset_ids': 'ids 1..N',
                          'apply_all_filters': 'filters, then brightest, then reset_ids; None when nothing passes the filters'}[m])
    got = bodies['apply_all_filters']['dao']
    order = [i for i, s in enumerate(got) if 'apply_filters' in s] + [i for i, s in enumerate(got) if 'select_brightest' in s] + \
        [i for i, s in enumerate(got) if 'reset_ids' in s]
    ok = len(order) == 3 and order == sorted(order)
    res.oblige('D2', 'apply_all_filters = filters, then brightest, then reset_ids', ok, nontrivial=True)
    if not ok:
        res.add(Finding('D2', f'{CATS["dao"]}.apply_all_filters', 'filter order', repo.get_class(CATS['dao']).module.relpath,
                        'apply_all_filters must filter, then select the brightest, then reset the ids', {}))


def run(repo, tier):
    res = Result(PROP)
    res.explanation = (
        'Selection predicates decided structurally: SPEC (find_peaks: equality with the neighbourhood maximum, mask conjoined after the '
        'filter and never written into the data, strict `>` threshold, border stores guarded against zero widths, top-N by descending '
        'sort, NaN fill with the minimum on a copy; _find_stars border order), NEGZERO, FILTER (exactly the inclusive bounds of each '
        'finder\'s contract on the matching measurement, finite-value filter, both masks index the catalog), SIB (the three catalogs '
        'agree on select_brightest/apply_all_filters/reset_ids; both maximum_filter calls agree), D2 (filters -> brightest -> reset_ids), '
        'FWD, LP1/LP1b, T-AXIS/T-MIRROR, A1.')
    res.not_decided = 'that the sharpness/roundness/flux measurements themselves are numerically right.'
    res.assumptions = ['scipy maximum_filter has its documented meaning']
    find_peaks_rules(repo, res)
    base_rules(repo, res)
    kernel_rules(repo, res)
    from .common import run_axis_dispatch
    if run_axis_dispatch(repo, res, MODS) < 1:
        raise AnalysisError('vanished anchor: axis dispatch in daofind_marginal_fit')
    catalog_rules(repo, res)
    run_negzero(repo, res, MODS, PROP)
    run_loops(repo, res, MODS, rules=('LP1', 'LP1b'))
    run_forward(repo, res, MODS)
    run_axis(repo, res, MODS)
    a1_collect(repo, res, modules=MODS)
    res.floor('SPEC', 22)
    res.floor('FILTER', 9)
    res.floor('SIB', 4)
    res.floor('NEGZERO', 2)
    res.floor('T-AXIS', 20)
    from .common import run_clone_pairs
    run_clone_pairs(repo, res, {m for m in repo.modules if m.startswith('photutils.detection') and '.tests' not in m})
    from .C15 import conversions
    conversions(repo, res)
    from .common import run_truthy_none
    if run_truthy_none(repo, res, MODS) < 1:
        raise AnalysisError('vanished anchor: optional numeric finder parameters')
    from .common import apply_specs
    apply_specs(repo, res, [
        ('photutils.detection.starfinder._StarFinderCatalog.bbox_xmin', 'ret', 'np.array([slc[1].start for slc in self.slices])',
         'x origin of the TRIMMED cutout (its slice start), not peak minus half kernel'),
        ('photutils.detection.starfinder._StarFinderCatalog.bbox_ymin', 'ret', 'np.array([slc[0].start for slc in self.slices])',
         'y origin of the trimmed cutout'),
    ])
    from .common import run_cache_pure
    run_cache_pure(repo, res, modules=MODS)
    from .common import run_generic_pack
    run_generic_pack(repo, res, PROP, MODS)
    return res
