"""C20 - isophote fitting: structural clauses (recovery of the geometry is not decided)."""
from __future__ import annotations

import ast

from ..core import AnalysisError, norm_stmt_text, unparse, enclosing_stmt
from ..report import Finding, Result
from ..expr import nf, nf_text, clone
from .. import spec as SP
from .common import run_axis, expect_stmt, run_deadstore, run_loops
from .C10 import collect as a1_collect

PROP = 'C20'
GEO = 'photutils.isophote.geometry.EllipseGeometry'
MODS = {'photutils.isophote.ellipse', 'photutils.isophote.fitter', 'photutils.isophote.sample', 'photutils.isophote.geometry',
        'photutils.isophote.harmonics', 'photutils.isophote.integrator', 'photutils.isophote.isophote', 'photutils.isophote.model'}


def _strip(e, mask_names):
    """Remove `[mask]` subscripts and array wrappers so that the vector form reads like the scalar one."""
    class T(ast.NodeTransformer):
        def visit_Subscript(self, node):
            self.generic_visit(node)
            if isinstance(node.slice, ast.Name) and node.slice.id in mask_names:
                return node.value
            if isinstance(node.slice, ast.UnaryOp) and isinstance(node.slice.op, ast.Invert) and isinstance(node.slice.operand, ast.Name) \
                    and node.slice.operand.id in mask_names:
                return node.value
            return node

        def visit_Call(self, node):
            self.generic_visit(node)
            if unparse(node.func, 0).split('.')[-1] in ('atleast_2d', 'atleast_1d', 'asarray') and len(node.args) == 1:
                return node.args[0]
            return node
    return T().visit(clone(e))


def lower_scalar(func):
    """[(cond nf, var, expr nf)] for the scalar twin."""
    out = []

    def walk(stmts, cond):
        for st in stmts:
            if isinstance(st, ast.Assign) and len(st.targets) == 1 and isinstance(st.targets[0], ast.Name):
                out.append((cond, st.targets[0].id, nf(st.value)))
            elif isinstance(st, ast.If):
                c = nf(st.test)
                walk(st.body, c if cond == 'true' else f'and({cond},{c})')
                if st.orelse:
                    if len(st.orelse) == 1 and isinstance(st.orelse[0], ast.If):
                        walk(st.orelse, cond)      # elif chain: conditions are written out in full
                    else:
                        walk(st.orelse, f'not({c})' if cond == 'true' else f'and({cond},not({c}))')
            elif isinstance(st, ast.Return):
                out.append((cond, '<return>', nf(st.value)))
    walk([s for s in func.body if not (isinstance(s, ast.Expr) and isinstance(s.value, ast.Constant))], 'true')
    return out


def lower_vector(func):
    out = []
    masks = {}
    for st in func.body:
        if isinstance(st, ast.Expr) and isinstance(st.value, ast.Constant):
            continue
        if isinstance(st, ast.Assign) and len(st.targets) == 1:
            t, v = st.targets[0], st.value
            if isinstance(t, ast.Name):
                # mask definitions
                if isinstance(v, (ast.Compare, ast.BinOp)) and (isinstance(v, ast.Compare) or isinstance(v.op, (ast.BitAnd, ast.BitOr))):
                    masks[t.id] = nf(v)
                    continue
                # pure initialisation of an array that is completely overwritten through complementary masks
                if isinstance(v, ast.Call) and unparse(v.func, 0).split('.')[-1] in ('ones', 'zeros', 'empty'):
                    continue
                out.append(('true', t.id, nf(_strip(v, set(masks)))))
            elif isinstance(t, ast.Subscript) and isinstance(t.value, ast.Name):
                sl = t.slice
                if isinstance(sl, ast.Name) and sl.id in masks:
                    c = masks[sl.id]
                elif isinstance(sl, ast.UnaryOp) and isinstance(sl.op, ast.Invert) and isinstance(sl.operand, ast.Name) and sl.operand.id in masks:
                    c = f'not({masks[sl.operand.id]})'
                else:
                    c = nf(sl)
                out.append((c, t.value.id, nf(_strip(v, set(masks)))))
        elif isinstance(st, ast.AugAssign) and isinstance(st.target, ast.Subscript) and isinstance(st.target.value, ast.Name):
            c = nf(st.target.slice)
            v = ast.BinOp(left=ast.Name(id=st.target.value.id, ctx=ast.Load()), op=st.op, right=st.value)
            out.append((c, st.target.value.id, nf(v)))
        elif isinstance(st, ast.If):
            c = nf(st.test)
            for s in st.body:
                if isinstance(s, ast.Assign) and isinstance(s.targets[0], ast.Name):
                    out.append((c, s.targets[0].id, nf(s.value)))
        elif isinstance(st, ast.Return):
            out.append(('true', '<return>', nf(st.value)))
    return out


def twins(repo, res):
    a = repo.method(GEO, '_to_polar_scalar')
    b = repo.method(GEO, '_to_polar_vectorized')
    la, lb = lower_scalar(a.node), lower_vector(b.node)
    # canonical numeric forms: 0.0 == 0
    sa, sb = sorted(set(la)), sorted(set(lb))
    ok = sa == sb
    res.oblige('TWIN', 'EllipseGeometry._to_polar_scalar and _to_polar_vectorized are the same guarded-update program', ok, nontrivial=True,
               sample={'scalar': la[:6], 'vector': lb[:6]})
    if not ok:
        only_a = [x for x in sa if x not in sb]
        only_b = [x for x in sb if x not in sa]
        res.add(Finding('TWIN', b.fullname, 'scalar/vector polar transform differ', b.loc,
                        f'the scalar and array forms of the ellipse coordinate transform disagree: only in scalar {only_a[:3]}, only in '
                        f'vector {only_b[:3]}', {}))
    g = repo.method(GEO, 'to_polar')
    rets = sorted(nf(r.value) for r in ast.walk(g.node) if isinstance(r, ast.Return))
    ok = rets == sorted([nf_text('self._to_polar_scalar(x, y)'), nf_text('self._to_polar_vectorized(x, y)')])
    res.oblige('TWIN', 'to_polar dispatches (x, y) unchanged to one of the twins', ok, nontrivial=True)
    if not ok:
        res.add(Finding('TWIN', g.fullname, 'dispatch', g.loc, 'to_polar must pass (x, y) unchanged to the scalar or the vector form', {}))


def fixed_parameters(repo, res):
    n = 0
    for f in repo.functions.values():
        if f.module.name not in MODS:
            continue
        for c in ast.walk(f.node):
            if isinstance(c, ast.Call) and isinstance(c.func, ast.Attribute) and c.func.attr == 'update' \
                    and 'sample' in unparse(c.func.value, 0).lower():
                n += 1
                ok = len(c.args) == 1 and 'fix' in unparse(c.args[0], 0).lower()
                res.oblige('FIXED', f'{f.qualname}: `{unparse(c, 70)}` hands the fixed-parameter flags to the sample', ok, nontrivial=True,
                           sample={'function': f.fullname, 'call': unparse(c, 80)})
                if not ok:
                    st = enclosing_stmt(c)
                    res.add(Finding('FIXED', f.fullname, norm_stmt_text(st), f'{f.module.relpath}:{c.lineno}',
                                    f'{f.qualname}: `{unparse(c, 80)}` updates a sample without the fixed-parameter flags; update() then '
                                    f'resets geometry.fix to all-False and later isophotes (whose geometry is seeded from this one) are '
                                    f'fitted with every parameter free', {}))
    # writer/reader table agreement: geometry.fix[i] masks harmonic i, which is corrected by _CORRECTORS[i]
    fm = repo.get_module('photutils.isophote.fitter')
    corr = [a_ for a_ in fm.tree.body if isinstance(a_, ast.Assign) and unparse(a_.targets[0], 0) == '_CORRECTORS']
    if len(corr) != 1 or not isinstance(corr[0].value, ast.List):
        raise AnalysisError('vanished anchor: fitter._CORRECTORS list')
    slot_of = {'Position': 'fix_center', 'Angle': 'fix_pa', 'Ellipticity': 'fix_eps'}
    slots = []
    for e in corr[0].value.elts:
        cname = unparse(e.func, 0) if isinstance(e, ast.Call) else unparse(e, 0)
        hit = [v for k, v in slot_of.items() if k in cname]
        if len(hit) != 1:
            raise AnalysisError(f'_CORRECTORS entry {cname} not recognised')
        slots.append(hit[0])
    nfix = 0
    for f in repo.functions.values():
        if f.module.name not in MODS:
            continue
        for a_ in ast.walk(f.node):
            if isinstance(a_, ast.Assign) and len(a_.targets) == 1 and isinstance(a_.targets[0], ast.Attribute) \
                    and a_.targets[0].attr == 'fix' and isinstance(a_.value, ast.Call) and a_.value.args \
                    and isinstance(a_.value.args[0], (ast.List, ast.Tuple)):
                got = [unparse(x, 0) for x in a_.value.args[0].elts]
                nfix += 1
                ok = got == slots
                res.oblige('T-SLOT', f'{f.qualname}: the fix flags are listed in the order of fitter._CORRECTORS', ok, nontrivial=True,
                           sample={'function': f.fullname, 'flags': got, 'correctors': slots})
                if not ok:
                    res.add(Finding('T-SLOT', f.fullname, norm_stmt_text(a_), f'{f.module.relpath}:{a_.lineno}',
                                    f'{f.qualname}: `{norm_stmt_text(a_)}` lists the fixed-parameter flags as {got}, but slot i masks the '
                                    f'harmonic corrected by fitter._CORRECTORS[i] = {slots}: fix_pa freezes the ellipticity and vice versa', {}))
    if nfix < 2:
        raise AnalysisError('vanished anchor: fewer than two literal fix arrays (EllipseGeometry.__init__, Ellipse.fit_image)')
    # the harmonic chosen for correction is taken from the amplitudes masked by the fixed parameters
    f = repo.method('photutils.isophote.fitter.EllipseFitter', 'fit')
    src = ast.unparse(f.node)
    ok = 'fixed_parameters' in src and ('np.ma.masked_array' in src or 'masked_array' in src)
    res.oblige('FIXED', 'EllipseFitter.fit masks the harmonic amplitudes of fixed parameters before choosing the correction', ok, nontrivial=True)
    if not ok:
        res.add(Finding('FIXED', f.fullname, 'harmonic selection', f.loc, 'the largest-harmonic selection must ignore fixed parameters', {}))
    return n


def list_and_model(repo, res):
    f = repo.method('photutils.isophote.ellipse.Ellipse', 'fit_image')
    body = f.node.body
    idx_sort = [i for i, s in enumerate(body) if isinstance(s, ast.Expr) and nf(s.value) == nf_text('isophote_list.sort()')]
    idx_ret = [i for i, s in enumerate(body) if isinstance(s, ast.Return) and 'IsophoteList(isophote_list)' in unparse(s.value, 0)]
    ok = len(idx_sort) == 1 and len(idx_ret) == 1 and idx_sort[0] < idx_ret[0]
    res.oblige('D2', 'fit_image sorts the isophote list before returning it', ok, nontrivial=True)
    if not ok:
        res.add(Finding('D2', f.fullname, 'final sort', f.loc, 'fit_image must sort the isophote list (by sma) before returning IsophoteList(isophote_list)', {}))
    lt = repo.method('photutils.isophote.isophote.Isophote', '__lt__')
    ok = any(isinstance(r, ast.Return) and nf(r.value) == nf_text('self.sma < other.sma') for r in ast.walk(lt.node))
    res.oblige('D2', 'Isophote ordering is by semi-major axis', ok, nontrivial=True)
    if not ok:
        res.add(Finding('D2', lt.fullname, 'ordering key', lt.loc, 'Isophote.__lt__ must compare sma', {}))
    # eps sign flip swaps the axes by 90 degrees, staying in the PA range
    c = repo.method('photutils.isophote.fitter.EllipseFitter', '_check_conditions')
    blk = [n for n in ast.walk(c.node) if isinstance(n, ast.If) and nf(n.test) == nf_text('sample.geometry.eps < 0.0')]
    ok = False
    if blk:
        inner = [n for n in blk[0].body if isinstance(n, ast.If)]
        ok = len(inner) == 1 and nf(inner[0].test) == nf_text('sample.geometry.pa < PI2') and \
            [SP.nf_stmt(s) for s in inner[0].body] == ['sample.geometry.pa Add= PI2'] and \
            [SP.nf_stmt(s) for s in inner[0].orelse] == ['sample.geometry.pa Sub= PI2']
        ok = ok and any(SP.nf_stmt(s) == 'sample.geometry.eps = ' + nf_text('min(-sample.geometry.eps, MAX_EPS)') for s in blk[0].body if isinstance(s, ast.Assign))
    res.oblige('SPEC', 'negative ellipticity: eps -> -eps and the position angle is rotated by +-90 deg', ok, nontrivial=True)
    if not ok:
        res.add(Finding('SPEC', c.fullname, 'eps sign flip / PA rotation', c.loc,
                        '_check_conditions: when eps < 0 the axes must be swapped: eps = min(-eps, MAX_EPS) and pa += pi/2 (pa < pi/2) '
                        'or pa -= pi/2 (otherwise); any other update leaves the PA un-rotated for part of the range', {}))
    m = repo.get_function('photutils.isophote.model.build_ellipse_model')
    tests = [n for n in ast.walk(m.node) if isinstance(n, ast.If) and 'shape[' in unparse(n.test, 0) and 'i' in unparse(n.test, 0)]
    ok = len(tests) == 1 and nf(tests[0].test) == nf_text('i > 0 and i < shape[1] - 1 and j > 0 and j < shape[0] - 1')
    res.oblige('T-AXIS', 'build_ellipse_model: column index i is bounded by shape[1], row index j by shape[0]', ok, nontrivial=True)
    if not ok:
        res.add(Finding('T-AXIS', m.fullname, 'in-frame test', m.loc,
                        'build_ellipse_model: the in-frame test must bound i (from x) by shape[1] and j (from y) by shape[0]', {}))
    for w, meaning in (('i = ' + nf_text('int(x)'), 'i is the column (x) index'), ('j = ' + nf_text('int(y)'), 'j is the row (y) index'),
                       ('x = ' + nf_text('r * np.cos(phi + pa) + x0'), 'x along the ellipse'), ('y = ' + nf_text('r * np.sin(phi + pa) + y0'), 'y along the ellipse'),
                       (nf_text('result[j, i]') + ' Add= ' + nf_text('(intens + harm) * (1.0 - fy) * (1.0 - fx)'), 'bilinear deposit at [row j, column i]')):
        expect_stmt(res, 'SPEC', m, w, meaning)
    # angular step: at most 0.75 pixel of arc (0.75 / r) so that no pixel on the ellipse is skipped
    expect_stmt(res, 'SPEC', m, 'phi = ' + nf_text('max(phi + 0.75 / r, geometry._phi_min)'), 'next angle = phi + 0.75/r (three quarters of a pixel along the ellipse)')
    expect_stmt(res, 'SPEC', m, 'r = ' + nf_text('max(geometry.radius(phi), 0.5)'), 'radius of the ellipse at the new angle')
    # sibling deposits: every pixel that receives intensity*W receives the weight W
    dep = {'result': {}, 'weight': {}}
    for a_ in ast.walk(m.node):
        if isinstance(a_, ast.AugAssign) and isinstance(a_.op, ast.Add) and isinstance(a_.target, ast.Subscript) \
                and isinstance(a_.target.value, ast.Name) and a_.target.value.id in dep:
            dep[a_.target.value.id][nf(a_.target.slice)] = a_.value
    ok = len(dep['result']) == 4 and set(dep['result']) == set(dep['weight']) and \
        all(nf(dep['result'][k]) == nf_text(f'(intens + harm) * ({ast.unparse(dep["weight"][k])})') for k in dep['result'])
    res.oblige('SIB', 'build_ellipse_model: the four bilinear deposits of intensity and of weight use the same pixel and the same factor', ok,
               nontrivial=True, sample={'pixels': sorted(dep['result'])})
    if not ok:
        res.add(Finding('SIB', m.fullname, 'bilinear deposits', m.loc,
                        'build_ellipse_model: result[p] += (intens + harm) * W and weight[p] += W must pair up on the same four pixels with '
                        'the same W; otherwise result/weight is not the interpolated intensity', {}))


def run(repo, tier):
    res = Result(PROP)
    res.explanation = (
        'Structural clauses decided: TWIN (the scalar and array forms of the ellipse coordinate transform are the same guarded-update '
        'program after lowering `if c: v = e` and `v[c] = e[c]` to (c, v, e) triples), FIXED (every sample.update() in the package hands '
        'over the fixed-parameter flags; the harmonic selection ignores fixed parameters), D2 (result list sorted by sma before it is '
        'returned; ordering key is sma), SPEC (eps sign flip rotates the PA by +-90 deg; model painting writes [row, column] with the '
        'matching bounds), A1 (the image reaches no in-place write anywhere in photutils.isophote), LP1/LP1b, T-AXIS, DEADSTORE.')
    res.not_decided = ('recovery of centre/ellipticity/PA/intensity within errors, convergence and stop codes, model reconstruction '
                       'accuracy: numerical, no static bound in reach.')
    res.assumptions = ['math.sqrt/np.sqrt, math.asin/np.arcsin, abs/np.abs are synonyms']
    twins(repo, res)
    fixed_parameters(repo, res)
    list_and_model(repo, res)
    run_loops(repo, res, MODS, rules=('LP1',))
    run_axis(repo, res, MODS)
    run_deadstore(repo, res, MODS)
    a1_collect(repo, res, modules=MODS)
    res.floor('TWIN', 2)
    res.floor('FIXED', 9)
    res.floor('SPEC', 6)
    res.floor('D2', 2)
    from .common import run_clone_pairs
    run_clone_pairs(repo, res, {m for m in repo.modules if m.startswith('photutils.isophote') and '.tests' not in m})
    from .common import apply_specs
    apply_specs(repo, res, [
        ('photutils.isophote.ellipse.Ellipse.fit_image', 'stmt', '(sma, step) = first_isophote.sample.geometry.reset_sma(step)',
         'the inward sweep starts from the FIRST FITTED isophote (sma0), not from the first-guess geometry'),
        ('photutils.isophote.ellipse.Ellipse.fit_image', 'stmt', 'first_isophote = isophote_list[0]', 'first fitted isophote'),
        ('photutils.isophote.integrator._AreaIntegrator.integrate', 'test',
         '(i1 in self._i_range) and (j1 in self._j_range) and (i2 in self._i_range) and (j2 in self._j_range)',
         'a sector is sampled only if all four corners of its pixel box lie inside the image (lower corners too: negative indices wrap around)'),
    ])
    apply_specs(repo, res, [
        ('photutils.isophote.ellipse.Ellipse.fit_image', 'test', 'sma <= max(minsma, 0.5)',
         'the inward sweep stops when the NEXT sma would fall below max(minsma, 0.5)'),
    ])
    fi = repo.get_function('photutils.isophote.ellipse.Ellipse.fit_isophote')
    geo = [nf(c_.args[3]) for c_ in SP.find_calls(fi.node, '_non_iterative') if len(c_.args) > 3]
    geo += [nf(SP.kwargs_of(c_)['geometry']) for c_ in SP.find_calls(fi.node, 'EllipseSample') if 'geometry' in SP.kwargs_of(c_)]
    okg = bool(geo) and all(g_ == 'geometry' for g_ in geo)
    res.oblige('SPEC', 'Ellipse.fit_isophote: non-iterative extraction uses the geometry of the last fitted isophote', okg, nontrivial=True,
               sample={'geometry_arguments': geo})
    if not okg:
        res.add(Finding('SPEC', fi.fullname, 'geometry of the non-iterative sample', fi.loc,
                        f'Ellipse.fit_isophote hands {geo} to the non-iterative extraction; it must be the local `geometry` (taken from the '
                        f'last fitted isophote), not the first-guess geometry of the Ellipse', {}))
    from .common import run_generic_pack
    run_generic_pack(repo, res, PROP, MODS)
    return res
