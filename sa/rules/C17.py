"""C17 - centroid functions locate symmetric sources exactly and act per source."""
from __future__ import annotations

import ast
import re

from ..core import AnalysisError, norm_stmt_text, unparse
from ..report import Finding, Result
from ..expr import nf, nf_text, Inliner
from .. import spec as SP
from .common import run_loops, run_axis, subscripts_using, expect_stmt
from .C10 import collect as a1_collect

PROP = 'C17'
MODS = {'photutils.centroids.core', 'photutils.centroids.gaussian', 'photutils.utils._round'}
CS = 'photutils.centroids.core.centroid_sources'
CQ = 'photutils.centroids.core.centroid_quadratic'


def paired_slicing(repo, res):
    f = repo.get_function(CS)
    subs = subscripts_using(f.node, {'data', 'mask', 'error', 'footprint_mask'})
    # the negated footprint cut directly: np.logical_not(footprint)[idx] / (~footprint)[idx]
    for n_ in ast.walk(f.node):
        if isinstance(n_, ast.Subscript) and isinstance(n_.ctx, ast.Load) and nf(n_.value) == 'not(footprint)':
            subs.append(('footprint_mask', nf(n_.slice), n_))
    want = {'data': 'slices_large', 'mask': 'slices_large', 'error': 'slices_large', 'footprint_mask': 'slices_small'}
    seen = set()
    for base, idx, node in subs:
        if base not in want:
            continue
        if idx in ('0', '1') or not idx.startswith('slices'):
            continue
        seen.add(base)
        ok = idx == want[base]
        res.oblige('LP4', f'centroid_sources: `{base}` is cut with `{want[base]}`', ok, nontrivial=True,
                   sample={'array': base, 'index': idx})
        if not ok:
            res.add(Finding('LP4', f.fullname, unparse(node), f'{f.module.relpath}:{node.lineno}',
                            f'centroid_sources: `{base}` must be cut with `{want[base]}` (image-sized arrays with the large slices, '
                            f'the footprint with the small slices); found `{unparse(node)}`: data, mask, error and footprint '
                            f'are then no longer registered to each other', {}))
    if not {'data', 'mask', 'footprint_mask'} <= seen:
        raise AnalysisError(f'centroid_sources: cutouts of data/mask/footprint not found (saw {sorted(seen)})')
    # the slices come from one overlap computation around (yp, xp)
    calls = SP.find_calls(f.node, 'overlap_slices')
    ok = len(calls) == 1 and [nf(a) for a in calls[0].args] == ['data.shape', 'footprint.shape', '(yp,xp)']
    res.oblige('LP4', 'centroid_sources: one overlap_slices(data.shape, footprint.shape, (yp, xp)) per source', ok, nontrivial=True)
    if not ok:
        res.add(Finding('LP4', f.fullname, 'overlap_slices call', f.loc,
                        'centroid_sources: slices must come from overlap_slices(data.shape, footprint.shape, (yp, xp))', {}))
    # offsets restored with the large-slice origin of the matching axis
    for lst, cen, k in (('xcentroids', 'xcen', 1), ('ycentroids', 'ycen', 0)):
        want_nf = nf_text(f'{lst}.append({cen} + slices_large[{k}].start)')
        expect_stmt(res, 'T-FRAME', f, want_nf, f'{lst} receives {cen} + slices_large[{k}].start (cutout -> image frame)')
    # the centroid function gets the cutout and the per-source keywords
    calls = SP.find_calls(f.node, 'centroid_func')
    ok = len(calls) == 1 and nf(calls[0].args[0]) == 'data_cutout' and any(k.arg is None for k in calls[0].keywords)
    res.oblige('LP4', 'centroid_func(data_cutout, **per-source keywords)', ok, nontrivial=True)
    if not ok:
        res.add(Finding('LP4', f.fullname, 'centroid_func call', f.loc, 'centroid_func must be called on the data cutout with the per-source keywords', {}))
    # the mask handed over is the union of the input-mask cutout and the footprint mask
    ok = False
    for n in ast.walk(f.node):
        if isinstance(n, ast.Assign) and len(n.targets) == 1 and unparse(n.targets[0]) == 'mask_cutout':
            if nf(n.value) == nf_text('np.logical_or(mask[slices_large], footprint_mask)'):
                ok = True
    res.oblige('D1', 'mask_cutout = input mask cutout | footprint mask', ok, nontrivial=True)
    if not ok:
        res.add(Finding('D1', f.fullname, 'mask_cutout', f.loc, 'centroid_sources: the per-source mask must be mask[slices_large] | footprint_mask', {}))
    # peak offsets (if given) are moved into the cutout frame with the matching axis
    for nm, k in (('xpeak', 1), ('ypeak', 0)):
        hit = [n for n in ast.walk(f.node) if isinstance(n, ast.Assign) and isinstance(n.targets[0], ast.Subscript)
               and isinstance(n.targets[0].slice, ast.Constant) and n.targets[0].slice.value == nm]
        ok = len(hit) == 1 and nf(hit[0].value) == nf_text(f'{nm} - slices_large[{k}].start')
        res.oblige('T-FRAME', f'{nm} is shifted by slices_large[{k}].start', ok, nontrivial=True)
        if not ok:
            res.add(Finding('T-FRAME', f.fullname, f'{nm} shift', f.loc, f'centroid_sources: `{nm}` must be shifted by slices_large[{k}].start', {}))


def quadratic_vertex(repo, res):
    f = repo.get_function(CQ)
    specs = [
        ('det', '4 * c20 * c02 - c11**2', 'determinant of the quadratic form'),
        ('xm', '(c01 * c11 - 2.0 * c02 * c10) / det', 'x of the vertex'),
        ('ym', '(c10 * c11 - 2.0 * c20 * c01) / det', 'y of the vertex'),
    ]
    for name, spec, meaning in specs:
        defs = [n for n in ast.walk(f.node) if isinstance(n, ast.Assign) and len(n.targets) == 1
                and isinstance(n.targets[0], ast.Name) and n.targets[0].id == name]
        ok = len(defs) == 1 and nf(defs[0].value) == nf_text(spec)
        res.oblige('SPEC', f'centroid_quadratic: {name} = {spec} ({meaning})', ok, nontrivial=True,
                   sample={'name': name, 'nf': nf(defs[0].value) if defs else None})
        if not ok:
            res.add(Finding('SPEC', f.fullname, f'{name} formula', f.loc,
                            f'centroid_quadratic: `{name}` must be `{spec}` ({meaning}); found '
                            f'`{unparse(defs[0].value) if defs else None}`', {}))
    # coefficient order must match the design matrix column order
    want = nf_text('np.vstack((np.ones_like(x), x, y, x * y, x * x, y * y)).T')
    expect_stmt(res, 'SPEC', f, 'coeff_matrix = ' + want, 'design matrix columns are (1, x, y, xy, xx, yy)')
    expect_stmt(res, 'SPEC', f, nf_text('(_, c10, c01, c11, c20, c02)') + ' = c', 'coefficients unpacked in the same order as the columns')
    # defensive copy + NaN fill on the copy
    expect_stmt(res, 'SPEC', f, 'data = ' + nf_text('np.asanyarray(data, dtype=float).copy()'), 'works on a float copy of the data')
    g = repo.get_function('photutils.centroids.core.centroid_com')
    expect_stmt(res, 'SPEC', g, 'data = ' + nf_text('data.copy()'), 'centroid_com works on a copy of the data')
    inl = Inliner(g.node)
    rets = [nf(e) for e, _ in inl.returns]
    want = nf_text('np.array([np.sum(indices[axis] * data) / total for axis in range(data.ndim)])[::-1]')
    ok = any(r == want for r in rets) and any(r == nf_text('np.array((np.nan, np.nan))') for r in rets)
    res.oblige('SPEC', 'centroid_com returns sum(index*data)/sum(data) per axis, reversed to (x, y)', ok, nontrivial=True)
    if not ok:
        res.add(Finding('SPEC', g.fullname, 'centroid formula', g.loc,
                        'centroid_com must return the intensity-weighted mean index per axis in (x, y) order (NaN pair when the total is 0)', {}))
    expect_stmt(res, 'SPEC', g, 'indices = ' + nf_text('np.ogrid[tuple(slice(0, i) for i in data.shape)]'),
                'centroid_com index grids span the full cutout from 0')
    expect_stmt(res, 'SPEC', g, 'total = ' + nf_text('np.sum(data)'), 'centroid_com total = sum of the cleaned data')


def gaussian_rules(repo, res):
    f = repo.get_function('photutils.centroids.gaussian.centroid_1dg')
    # after combining the masks, the error carries the combined mask into the marginal sums
    expect_stmt(res, 'D2', f, 'error.mask = data.mask', 'centroid_1dg: the error array carries the combined mask (masked pixels do not enter the marginal errors)')
    for name in ('centroid_1dg', 'centroid_2dg'):
        g = repo.get_function(f'photutils.centroids.gaussian.{name}')
        src = [SP.nf_stmt(s) for s in ast.walk(g.node) if isinstance(s, ast.AugAssign)]
        for want in ('data.mask BitOr= mask', 'data.mask BitOr= error.mask'):
            ok = want in src
            res.oblige('D2', f'{name}: {want}', ok, nontrivial=True)
            if not ok:
                res.add(Finding('D2', g.fullname, want, g.loc, f'{name}: the input mask / error mask must be OR-ed into the data mask', {}))
    # both marginals are treated alike: every loop/comprehension over the axis index covers (0, 1)
    bad = []
    n_axis_iters = 0
    for n in ast.walk(f.node):
        it = tgt = None
        if isinstance(n, ast.For):
            it, tgt, scope = n.iter, n.target, n
        elif isinstance(n, ast.comprehension):
            it, tgt, scope = n.iter, n.target, getattr(n, '_parent', None)
        if it is None or not isinstance(tgt, ast.Name) or scope is None:
            continue
        v = tgt.id
        is_axis = False
        for c in ast.walk(scope):
            if isinstance(c, ast.keyword) and c.arg == 'axis' and isinstance(c.value, ast.Name) and c.value.id == v:
                is_axis = True
            if isinstance(c, ast.Subscript) and isinstance(c.slice, ast.Name) and c.slice.id == v \
                    and re.match(r'^(xy_|bad_idx)', unparse(c.value, 0)):
                is_axis = True
        if not is_axis:
            continue
        n_axis_iters += 1
        if nf(it) not in ('(0,1)', 'range(2)', 'range(data.ndim)', '[0,1]'):
            bad.append((n, it))
    res.oblige('T-MIRROR', f'centroid_1dg: each of the {n_axis_iters} per-axis loops covers both axes (0, 1)', not bad and n_axis_iters >= 3,
               nontrivial=True, sample={'axis_loops': n_axis_iters})
    if n_axis_iters < 3:
        raise AnalysisError('centroid_1dg: per-axis loops not found')
    for n, it in bad:
        res.add(Finding('T-MIRROR', f.fullname, f'per-axis loop over {unparse(it)}', f'{f.module.relpath}:{getattr(it, "lineno", f.node.lineno)}',
                        f'centroid_1dg: a per-axis loop iterates `{unparse(it)}` instead of both axes (0, 1), so rows and columns '
                        f'(x and y marginals) are treated differently and the result does not commute with transposition', {}))


def run(repo, tier):
    res = Result(PROP)
    res.explanation = (
        'Per-source clause decided for all position lists: LP1 (no dict entry is read before being rewritten in an iteration while the '
        'body stores per-source values into it), LP1b (no pre-loop array or view of one is modified in place with per-source values), '
        'LP4 (data/mask/error are cut with slices_large, the footprint with slices_small, from one overlap_slices call), T-FRAME '
        '(offsets restored/shifted with the matching slice origin), T-AXIS/T-MIRROR over the centroid modules (x/y pairing and '
        'copy-paste signatures), A1 (inputs reach no in-place write), SPEC (moment formula, quadratic vertex formula, design-matrix order), '
        'D2 (mask unions in the Gaussian centroids).')
    res.not_decided = 'exactness on symmetric/quadratic inputs beyond the formulas\' normal forms; convergence of the Gaussian fits.'
    res.assumptions = ['overlap_slices(large, small, pos) returns (slices into large, slices into small)']
    run_loops(repo, res, MODS)
    paired_slicing(repo, res)
    quadratic_vertex(repo, res)
    gaussian_rules(repo, res)
    run_axis(repo, res, MODS)
    a1_collect(repo, res, modules={'photutils.centroids.core', 'photutils.centroids.gaussian'})
    from .common import run_nonfinite
    run_nonfinite(repo, res, MODS)
    res.floor('loops-examined', 2)
    res.floor('LP4', 5)
    res.floor('SPEC', 8)
    res.floor('T-AXIS', 10)
    res.floor('T-MIRROR', 8)
    res.exhaustive_rules = ['LP1/LP1b over every loop of the centroid modules']
    from .common import run_round
    run_round(repo, res, MODS)
    from .common import run_scale_free, apply_specs
    run_scale_free(repo, res, MODS)
    apply_specs(repo, res, [
        ('photutils.centroids.gaussian.centroid_1dg', 'test', 'np.any(data.mask)',
         'rows/columns that are fully masked for ANY reason (input mask, non-finite data or error, MaskedArray input) get zero weight'),
        ('photutils.centroids.core.centroid_quadratic', 'test', 'det <= 0 or ((c20 > 0.0 and c02 >= 0.0) or (c20 >= 0.0 and c02 > 0.0))',
         'no maximum iff the Hessian determinant is <= 0 or the curvature is non-negative (exact comparison: scale-free)'),
    ])
    from .common import run_unravel, run_truthy_none
    run_unravel(repo, res, MODS)
    run_truthy_none(repo, res, MODS)
    apply_specs(repo, res, [
        ('photutils.centroids.gaussian.centroid_2dg', 'test', 'data.mask is not np.ma.nomask',
         'masked pixels get zero weight whether or not an error array is given'),
    ])
    c2 = repo.get_function('photutils.centroids.gaussian.centroid_2dg')
    zw = [a_ for a_ in ast.walk(c2.node) if isinstance(a_, ast.Assign) and SP.nf_stmt(a_) == nf_text('weights[data.mask]') + ' = 0']
    from .common import guard_only
    if len(zw) != 1:
        raise AnalysisError('vanished anchor: zero weight for masked pixels in centroid_2dg')
    guard_only(res, 'GUARD', c2, zw[0], {'data.mask is not np.ma.nomask'}, 'the zero weight of masked pixels',
               'without an error array masked pixels enter the fit as zero-filled points with full weight')
    from .common import run_generic_pack
    run_generic_pack(repo, res, PROP, MODS)
    return res
