"""C01 - aperture masks: the Python plumbing around the overlap kernels.

The Cython kernels (photutils/geometry/*.pyx) cannot be rebuilt in this
sandbox and their areas are numerical; they are NOT decided.  What is decided
is the structure every mask depends on: the minimal bounding box, the pixel
edges handed to the kernels, the overlap slices, annulus = outer - inner with
identical grids, the method translation table and the cache invalidation of
bbox/extents.
"""
from __future__ import annotations

import ast

from ..core import AnalysisError, norm_stmt_text, unparse
from ..report import Finding, Result
from ..expr import nf, nf_text
from .. import spec as SP
from .common import run_axis, expect_stmt, run_deadstore
from .C09 import run_L4
from .C10 import collect as a1_collect

PROP = 'C01'
BB = 'photutils.aperture.bounding_box.BoundingBox'
MODS = {'photutils.aperture.bounding_box', 'photutils.aperture.core', 'photutils.aperture.mask', 'photutils.aperture.circle',
        'photutils.aperture.ellipse', 'photutils.aperture.rectangle'}


def disjuncts(test):
    if isinstance(test, ast.BoolOp) and isinstance(test.op, ast.Or):
        out = []
        for v in test.values:
            out.extend(disjuncts(v))
        return out
    return [nf(test)]


def bbox_rules(repo, res):
    f = repo.method(BB, 'from_float')
    for name, spec in (('ixmin', 'math.floor(xmin + 0.5)'), ('ixmax', 'math.ceil(xmax + 0.5)'),
                       ('iymin', 'math.floor(ymin + 0.5)'), ('iymax', 'math.ceil(ymax + 0.5)')):
        expect_stmt(res, 'SPEC', f, f'{name} = ' + nf_text(spec), f'{name} = {spec} (0-indexed pixel-centre convention, exclusive upper index)')
    SP.returns_match(repo, res, 'SPEC', f'{BB}.from_float', ['cls(ixmin, ixmax, iymin, iymax)',
                      'cls(math.floor(xmin + 0.5), math.ceil(xmax + 0.5), math.floor(ymin + 0.5), math.ceil(ymax + 0.5))'], 'the box in (ixmin, ixmax, iymin, iymax) order')
    g = repo.method(BB, 'get_overlap_slices')
    ifs = [n for n in ast.walk(g.node) if isinstance(n, ast.If) and any(isinstance(b, ast.Return) for b in n.body)
           and 'shape[' in unparse(n.test, 0)]
    want = sorted([nf_text('xmin >= shape[1]'), nf_text('ymin >= shape[0]'), nf_text('xmax <= 0'), nf_text('ymax <= 0')])
    got = sorted(disjuncts(ifs[0].test)) if ifs else None
    ok = got == want
    res.oblige('SPEC', 'no overlap iff the box lies beyond an image edge on either axis (exclusive upper index: xmax <= 0)', ok, nontrivial=True,
               sample={'disjuncts': got})
    if not ok:
        res.add(Finding('SPEC', g.fullname, 'no-overlap test', g.loc,
                        f'get_overlap_slices: the no-overlap test must be exactly {want} (None iff there are no common pixels); found {got}', {}))
    for name, spec in (('slices_large', '(slice(max(ymin, 0), min(ymax, shape[0])), slice(max(xmin, 0), min(xmax, shape[1])))'),
                       ('slices_small', '(slice(max(-ymin, 0), min(ymax - ymin, shape[0] - ymin)), slice(max(-xmin, 0), min(xmax - xmin, shape[1] - xmin)))')):
        expect_stmt(res, 'SPEC', g, f'{name} = ' + nf_text(spec), f'{name}: common pixels in (y, x) order; small = large - box origin')
    for name, attr in (('xmin', 'ixmin'), ('xmax', 'ixmax'), ('ymin', 'iymin'), ('ymax', 'iymax')):
        expect_stmt(res, 'SPEC', g, f'{name} = self.{attr}', f'{name} is the box {attr}')
    SP.returns_match(repo, res, 'SPEC', f'{BB}.extent', ['(self.ixmin - 0.5, self.ixmax - 0.5, self.iymin - 0.5, self.iymax - 0.5)'],
                     'pixel-edge extent (xmin, xmax, ymin, ymax)')
    SP.returns_match(repo, res, 'SPEC', f'{BB}.shape', ['(self.iymax - self.iymin, self.ixmax - self.ixmin)'], '(ny, nx)')


def aperture_rules(repo, res):
    PA = 'photutils.aperture.core.PixelAperture'
    f = repo.method(PA, '_bbox')
    for name, spec in (('xmin', 'self._positions[:, 0] - x_delta'), ('xmax', 'self._positions[:, 0] + x_delta'),
                       ('ymin', 'self._positions[:, 1] - y_delta'), ('ymax', 'self._positions[:, 1] + y_delta')):
        expect_stmt(res, 'SPEC', f, f'{name} = ' + nf_text(spec), f'{name} of the shape around each position')
    expect_stmt(res, 'SPEC', f, nf_text('(x_delta, y_delta)') + ' = self._xy_extents', 'half-extents unpacked as (x, y)')
    SP.returns_match(repo, res, 'SPEC', f'{PA}._bbox',
                     ['[BoundingBox.from_float(x0, x1, y0, y1) for x0, x1, y0, y1 in zip(xmin, xmax, ymin, ymax, strict=True)]'],
                     'the minimal integer box of each position')
    SP.returns_match(repo, res, 'SPEC', f'{PA}._centered_edges',
                     ['[(bbox.ixmin - 0.5 - position[0], bbox.ixmax - 0.5 - position[0], bbox.iymin - 0.5 - position[1], '
                      'bbox.iymax - 0.5 - position[1]) for position, bbox in zip(self._positions, self._bbox, strict=True)]'],
                     'per position the pixel edges (xmin, xmax, ymin, ymax) of its box recentred on the aperture (= extent - position)')
    # method translation table, decided by finite-domain abstract interpretation of the function (sa/consteval.py):
    # for every (mode, rectangle) the returned (use_exact, subpixels) pair, `subpixels` kept symbolic
    from .. import consteval as CE
    t = repo.method(PA, '_translate_mask_mode')
    S = CE.Sym('subpixels')
    want_tab = {('center', False): (0, 1), ('subpixel', False): (0, S), ('exact', False): (1, 1),
                ('center', True): (0, 1), ('subpixel', True): (0, S), ('exact', True): (0, 32)}
    params = t.params
    if params[:3] != ['mode', 'subpixels', 'rectangle']:
        raise AnalysisError(f'vanished anchor: _translate_mask_mode parameters are {params}')
    valid_sub = {'isinstance(subpixels, int)': True, 'subpixels <= 0': False, 'subpixels > 0': True, 'subpixels < 1': False,
                 'subpixels >= 1': True}
    for (mode, rect), want in want_tab.items():
        try:
            outs = CE.run_all(t.node, {'mode': mode, 'subpixels': S, 'rectangle': rect}, valid_sub)
        except CE.Unsupported as exc:
            raise AnalysisError(f'_translate_mask_mode uses a construct the table interpreter does not know: {exc}')
        bad_out = [(o, a) for o, a in outs if o != ('RET', want)]
        ok = not bad_out
        got = bad_out[0][0] if bad_out else outs[0][0]
        if bad_out and len(outs) > 1:
            extra = {k: v for k, v in bad_out[0][1].items() if k not in valid_sub}
            got = (got, 'when', extra)
        res.oblige('TABLE', f'_translate_mask_mode({mode!r}, subpixels, rectangle={rect}) -> {want}', ok, nontrivial=True,
                   sample={'mode': mode, 'rectangle': rect, 'returns': repr(got)})
        if not ok:
            res.add(Finding('TABLE', t.fullname, f'{mode}/{rect}', t.loc,
                            f'_translate_mask_mode(mode={mode!r}, rectangle={rect}) yields {got!r} for a valid subpixels value; the '
                            f'method table requires (use_exact, subpixels) = {want!r} (center -> one subpixel, subpixel -> as given, '
                            f'exact -> exact, rectangles: exact -> 32x32 subpixels)', {}))
    outs = CE.run_all(t.node, {'mode': 'bogus', 'subpixels': S, 'rectangle': False}, valid_sub)
    got = outs[0][0]
    ok = all(o == (CE.RAISE,) for o, _ in outs)
    res.oblige('TABLE', '_translate_mask_mode rejects an unknown mode', ok, nontrivial=True)
    if not ok:
        res.add(Finding('TABLE', t.fullname, 'unknown mode', t.loc, f'_translate_mask_mode accepts an unknown mode (returns {got!r})', {}))
    # shapes: annulus = outer - inner on identical grids; (nx, ny) order from bbox.shape
    for mod, cls, kern, outer, inner in (
            ('circle', 'CircularMaskMixin', 'circular_overlap_grid', ['radius'], ['self.r_in']),
            ('ellipse', 'EllipticalMaskMixin', 'elliptical_overlap_grid', ['a', 'b', 'theta_rad'], ['self.a_in', 'self.b_in', 'theta_rad']),
            ('rectangle', 'RectangularMaskMixin', 'rectangular_overlap_grid', ['w', 'h', 'theta_rad'], ['self.w_in', 'self.h_in', 'theta_rad'])):
        m = repo.method(f'photutils.aperture.{mod}.{cls}', 'to_mask')
        calls = SP.find_calls(m.node, kern)
        if len(calls) != 2:
            raise AnalysisError(f'{cls}.to_mask: expected two {kern} calls')
        a0, a1 = [[nf(x) for x in c.args] for c in calls]
        grid = ['edges[0]', 'edges[1]', 'edges[2]', 'edges[3]', 'nx', 'ny']
        tail = a0[6 + len(outer):]
        ok = a0[:6] == grid and a1[:6] == grid and a0[6:6 + len(outer)] == outer and a1[6:6 + len(inner)] == inner \
            and a1[6 + len(inner):] == tail
        res.oblige('SIB', f'{cls}.to_mask: outer and inner kernels get the same grid/method arguments', ok, nontrivial=True,
                   sample={'outer': a0, 'inner': a1})
        if not ok:
            res.add(Finding('SIB', m.fullname, f'{kern} calls', m.loc,
                            f'{cls}.to_mask: annulus = outer - inner requires identical grid arguments (edges[0..3], nx, ny) and method '
                            f'arguments; outer {a0} vs inner {a1}', {}))
        expect_stmt(res, 'SIB', m, nf_text('(ny, nx)') + ' = bbox.shape', f'{cls}.to_mask: bbox.shape unpacked as (ny, nx)')
        subs = [s for s in ast.walk(m.node) if isinstance(s, ast.AugAssign) and isinstance(s.op, ast.Sub) and unparse(s.target) == 'mask']
        ok = len(subs) == 1
        res.oblige('SIB', f'{cls}.to_mask: inner mask subtracted from the outer one', ok, nontrivial=True)
        if not ok:
            res.add(Finding('SIB', m.fullname, 'annulus subtraction', m.loc, f'{cls}.to_mask: `mask -= inner` not found', {}))
        expect_stmt(res, 'SIB', m, nf_text('masks.append(ApertureMask(mask, bbox))'), f'{cls}.to_mask: mask paired with its own bbox')
    extent_rules(repo, res)
    # mask helpers
    AM = 'photutils.aperture.mask.ApertureMask'
    ti = repo.method(AM, 'to_image')
    expect_stmt(res, 'SPEC', ti, nf_text('image[slices_large]') + ' = ' + nf_text('self.data[slices_small]'), 'to_image: weights written at the common pixels')
    cu = repo.method(AM, 'cutout')
    expect_stmt(res, 'SPEC', cu, nf_text('cutout[slices_small]') + ' = ' + nf_text('data[slices_large]'), 'cutout: data read at the common pixels')
    SP.returns_match(repo, res, 'SPEC', f'{AM}.get_overlap_slices', ['self.bbox.get_overlap_slices(shape)'], 'the overlap slices of its bounding box')



def angle_unit_rules(repo, res):
    """`theta` is stored as an angular Quantity in the caller's unit (ScalarAngleOrValue keeps deg as deg):
    every bare number taken from it must go through `.to(<unit>)` first."""
    n = 0
    for mn in ('photutils.aperture.ellipse', 'photutils.aperture.rectangle', 'photutils.aperture.core', 'photutils.aperture.circle'):
        repo.get_module(mn)
        for f in [g for g in repo.functions.values() if g.module.name == mn]:
            for node in ast.walk(f.node):
                if not (isinstance(node, ast.Attribute) and node.attr == 'value'):
                    continue
                base = node.value
                names = {x.id for x in ast.walk(base) if isinstance(x, ast.Name)} | \
                        {x.attr for x in ast.walk(base) if isinstance(x, ast.Attribute)}
                if not any('theta' in nm for nm in names):
                    continue
                n += 1
                ok = isinstance(base, ast.Call) and isinstance(base.func, ast.Attribute) and base.func.attr in ('to', 'to_value') \
                    and len(base.args) >= 1
                res.oblige('UNIT', f'{f.qualname}: `{unparse(node, 60)}` converts the angle to a stated unit before dropping it', ok,
                           nontrivial=True, sample={'function': f.fullname, 'expr': unparse(node, 80)})
                if not ok:
                    res.add(Finding('UNIT', f.fullname, unparse(node, 80), f'{f.module.relpath}:{node.lineno}',
                                    f'{f.qualname}: `{unparse(node, 80)}` takes the bare number of the angle `theta` without converting it '
                                    f'to a stated unit: theta is stored in the caller\'s unit (e.g. deg), so the geometry is computed from '
                                    f'a number in the wrong unit', {}))
    res.floor('UNIT', 9)


def extent_rules(repo, res):
    r = repo.method('photutils.aperture.rectangle.RectangularMaskMixin', '_calc_extents')
    for name, spec in (('x_extent1', 'abs((half_width * cos_theta) - (half_height * sin_theta))'),
                       ('x_extent2', 'abs((half_width * cos_theta) + (half_height * sin_theta))'),
                       ('y_extent1', 'abs((half_width * sin_theta) + (half_height * cos_theta))'),
                       ('y_extent2', 'abs((half_width * sin_theta) - (half_height * cos_theta))'),
                       ('x_extent', 'max(x_extent1, x_extent2)'), ('y_extent', 'max(y_extent1, y_extent2)'),
                       ('half_width', 'width / 2.0'), ('half_height', 'height / 2.0')):
        expect_stmt(res, 'SPEC', r, f'{name} = ' + nf_text(spec), f'rectangle {name}: half-extent over both corner pairs (any rotation sign)')
    e = repo.method('photutils.aperture.ellipse.EllipticalMaskMixin', '_calc_extents')
    for name, spec in (('semimajor_x', 'semimajor_axis * cos_theta'), ('semimajor_y', 'semimajor_axis * sin_theta'),
                       ('semiminor_x', 'semiminor_axis * -sin_theta'), ('semiminor_y', 'semiminor_axis * cos_theta'),
                       ('x_extent', 'np.sqrt(semimajor_x**2 + semiminor_x**2)'), ('y_extent', 'np.sqrt(semimajor_y**2 + semiminor_y**2)')):
        expect_stmt(res, 'SPEC', e, f'{name} = ' + nf_text(spec), f'ellipse {name}')
    for cn, spec in (('photutils.aperture.circle.CircularAperture', '(self.r, self.r)'),
                     ('photutils.aperture.circle.CircularAnnulus', '(self.r_out, self.r_out)'),
                     ('photutils.aperture.ellipse.EllipticalAperture', 'self._calc_extents(self.a, self.b, self.theta)'),
                     ('photutils.aperture.ellipse.EllipticalAnnulus', 'self._calc_extents(self.a_out, self.b_out, self.theta)'),
                     ('photutils.aperture.rectangle.RectangularAperture', 'self._calc_extents(self.w, self.h, self.theta)'),
                     ('photutils.aperture.rectangle.RectangularAnnulus', 'self._calc_extents(self.w_out, self.h_out, self.theta)')):
        SP.returns_match(repo, res, 'SPEC', f'{cn}._xy_extents', [spec], 'half-extents of the (outer) shape')


AP = 'photutils.aperture.'
EXTRA_SPECS = [
    (AP + 'circle.CircularAperture.area', 'ret', 'math.pi * self.r ** 2', 'pi r^2'),
    (AP + 'circle.CircularAnnulus.area', 'ret', 'math.pi * (self.r_out ** 2 - self.r_in ** 2)', 'pi (r_out^2 - r_in^2)'),
    (AP + 'ellipse.EllipticalAperture.area', 'ret', 'math.pi * self.a * self.b', 'pi a b'),
    (AP + 'ellipse.EllipticalAnnulus.area', 'ret', 'math.pi * (self.a_out * self.b_out - self.a_in * self.b_in)',
     'pi (a_out b_out - a_in b_in): outer minus inner ellipse, each with its own semi-axes'),
    (AP + 'rectangle.RectangularAperture.area', 'ret', 'self.w * self.h', 'w h'),
    (AP + 'rectangle.RectangularAnnulus.area', 'ret', 'self.w_out * self.h_out - self.w_in * self.h_in', 'outer minus inner rectangle'),
    (AP + 'bounding_box.BoundingBox.intersection', 'test', 'ixmax < ixmin or iymax < iymin', 'no intersection iff the boxes are disjoint along x OR along y'),
    (AP + 'bounding_box.BoundingBox.intersection', 'stmt', 'ixmin = max(self.ixmin, other.ixmin)', 'intersection lower x'),
    (AP + 'bounding_box.BoundingBox.intersection', 'stmt', 'ixmax = min(self.ixmax, other.ixmax)', 'intersection upper x'),
    (AP + 'bounding_box.BoundingBox.intersection', 'stmt', 'iymin = max(self.iymin, other.iymin)', 'intersection lower y'),
    (AP + 'bounding_box.BoundingBox.intersection', 'stmt', 'iymax = min(self.iymax, other.iymax)', 'intersection upper y'),
    (AP + 'bounding_box.BoundingBox.intersection', 'ret', 'BoundingBox(ixmin=ixmin, ixmax=ixmax, iymin=iymin, iymax=iymax) ||| None ||| '
     'BoundingBox(ixmin=max(self.ixmin, other.ixmin), ixmax=min(self.ixmax, other.ixmax), iymin=max(self.iymin, other.iymin), iymax=min(self.iymax, other.iymax))',
     'the overlap box or None'),
    (AP + 'bounding_box.BoundingBox.union', 'ret',
     'BoundingBox(ixmin=min((self.ixmin, other.ixmin)), ixmax=max((self.ixmax, other.ixmax)), iymin=min((self.iymin, other.iymin)), iymax=max((self.iymax, other.iymax))) ||| '
     'BoundingBox(ixmin=min(self.ixmin, other.ixmin), ixmax=max(self.ixmax, other.ixmax), iymin=min(self.iymin, other.iymin), iymax=max(self.iymax, other.iymax))',
     'the smallest box containing both'),
    (AP + 'bounding_box.BoundingBox.shape', 'ret', '(self.iymax - self.iymin, self.ixmax - self.ixmin)', '(ny, nx)'),
    (AP + 'bounding_box.BoundingBox.center', 'ret', '(0.5 * (self.iymax - 1 + self.iymin), 0.5 * (self.ixmax - 1 + self.ixmin))', '(y, x) centre of the pixel box'),
]
SKY_SPECS = [
    (AP + 'core.SkyAperture._to_pixel_params', 'stmt', 'value = (value / pixscale).to(u.pixel).value', 'angular sizes divided by the pixel scale as Quantities and converted to pixels'),
    (AP + 'core.SkyAperture._to_pixel_params', 'stmt', 'value = (value + angle).to(u.radian)', 'theta offset by the WCS rotation, in radians'),
    (AP + 'core.PixelAperture._to_sky_params', 'stmt', 'value = (value * u.pix * pixscale).to(u.arcsec)', 'pixel sizes times the pixel scale, to arcsec'),
    (AP + 'core.PixelAperture._to_sky_params', 'stmt', 'value = value - angle.to(u.rad)', 'theta minus the WCS rotation'),
]


def extra_rules(repo, res):
    from .common import apply_specs
    apply_specs(repo, res, EXTRA_SPECS)


def sky_rules(repo, res):
    from .common import apply_specs
    apply_specs(repo, res, SKY_SPECS)

def run(repo, tier):
    res = Result(PROP)
    res.explanation = (
        'Decided: the Python plumbing every mask depends on, for all centres/sizes/shapes: SPEC normal forms of the minimal bounding box '
        '(floor(x+0.5)/ceil(x+0.5)), the recentred pixel edges (= extent - position), the overlap slices and the no-overlap test, the shape '
        'half-extents (rectangle over both corner pairs, ellipse, circle); SIB (annulus = outer - inner with identical grid and method '
        'arguments, (nx, ny) order, mask paired with its bbox), TABLE (method translation: center/subpixel/exact, rectangle exact -> 32), '
        'L4 (bbox/extent caches dropped on every parameter assignment; _lazyproperties enumerates all members), T-AXIS/T-MIRROR, DEADSTORE, A1.')
    res.not_decided = ('NOT decided: that the Cython kernels (area_arc, triangle/circle overlap, quadrant case analysis, sub-pixel samplers) '
                       'compute the true overlap fractions, weights in [0,1], sum = area. The .pyx sources cannot be compiled here (no Cython), '
                       'an edit to them changes no behaviour in this sandbox, and no sound static bound on their arithmetic is in reach.')
    res.assumptions = ['the compiled geometry kernels take (xmin, xmax, ymin, ymax, nx, ny, shape..., use_exact, subpixels)']
    bbox_rules(repo, res)
    aperture_rules(repo, res)
    angle_unit_rules(repo, res)
    extra_rules(repo, res)
    sky_rules(repo, res)
    run_L4(repo, res)
    run_axis(repo, res, MODS)
    run_deadstore(repo, res, MODS)
    a1_collect(repo, res, modules=MODS)
    res.floor('SPEC', 40)
    res.floor('SIB', 12)
    res.floor('TABLE', 7)
    res.floor('L4', 15)
    res.floor('T-AXIS', 50)
    from .common import run_clone_pairs
    run_clone_pairs(repo, res, {m for m in repo.modules if m.startswith('photutils.aperture') and '.tests' not in m})
    from .common import run_no_cached_property
    run_no_cached_property(repo, res, {m for m in repo.modules if m.startswith('photutils.aperture')})
    from .common import run_generic_pack
    run_generic_pack(repo, res, PROP, MODS)
    return res
