"""C04 - detect_sources is exact connected-component labelling above threshold."""
from __future__ import annotations

import ast

from ..core import AnalysisError, norm_stmt_text, unparse
from ..report import Finding, Result
from ..expr import nf, nf_text, Inliner
from .. import spec as SP
from .. import loops as LP
from ..paths import EventSets
from ..forward import run_forward
from .common import expect_stmt
from .C05 import external_writers
from .C10 import collect as a1_collect

PROP = 'C04'
DS = 'photutils.segmentation.detect._detect_sources'
DET = 'photutils.segmentation.detect.detect_sources'


def labeller_input(repo, res):
    f = repo.get_function(DS)
    pool = [s for s in ast.walk(f.node) if isinstance(s, (ast.Assign, ast.AugAssign))]
    expect_stmt(res, 'SPEC', f, 'segment_img = ' + nf_text('data > threshold'),
                'candidate pixels = data strictly above the threshold (NaN compares False)', pool)
    expect_stmt(res, 'SPEC', f, 'segment_img BitAnd= inverse_mask', 'masked pixels removed before labelling', pool)
    expect_stmt(res, 'SPEC', f, nf_text('(segment_img, nlabels)') + ' = ' + nf_text('ndi_label(segment_img, structure=footprint)'),
                'scipy labelling of the boolean candidate image with the connectivity footprint', pool)
    expect_stmt(res, 'SPEC', f, 'labels = ' + nf_text('np.arange(nlabels, dtype=segment_img.dtype) + 1'), 'raw labels 1..nlabels', pool)
    expect_stmt(res, 'SPEC', f, 'slices = ' + nf_text('find_objects(segment_img)'), 'one slice per raw label', pool)
    # what reaches the comparison is the input data (no clean-up that turns NaN into numbers)
    for n in ast.walk(f.node):
        if isinstance(n, ast.Assign) and any(isinstance(t, ast.Name) and t.id in ('data', 'threshold') for t in n.targets):
            res.add(Finding('SPEC', f.fullname, norm_stmt_text(n), f'{f.module.relpath}:{n.lineno}',
                            '_detect_sources rebinds data/threshold before the comparison; NaN pixels must compare False, not be replaced', {}))
    # pruning loop
    loops = [l for l in LP.loops_of(f.node) if isinstance(l, ast.For) and nf(l.iter) == nf_text('zip(labels, slices, strict=True)')]
    if len(loops) != 1:
        raise AnalysisError('_detect_sources: pruning loop over zip(labels, slices) not found')
    loop = loops[0]
    body_nf = [SP.nf_stmt(s) for s in ast.walk(loop) if isinstance(s, (ast.Assign, ast.Expr))]
    for w, meaning in (('cutout = ' + nf_text('segment_img[slc]'), 'cutout is a view of the label image'),
                       ('segment_mask = ' + nf_text('cutout == label'), 'pixels of exactly this label'),
                       (nf_text('cutout[segment_mask]') + ' = 0', 'small components are zeroed in the label image'),
                       (nf_text('segm_labels.append(label)'), 'kept label recorded'),
                       (nf_text('segm_slices.append(slc)'), 'kept slice recorded')):
        ok = w in body_nf
        res.oblige('PRUNE', f'pruning loop: {meaning}', ok, nontrivial=True)
        if not ok:
            res.add(Finding('PRUNE', f.fullname, meaning, f'{f.module.relpath}:{loop.lineno}',
                            f'_detect_sources pruning loop: {meaning} - `{w}` not found', {}))
    tests = [n.test for n in ast.walk(loop) if isinstance(n, ast.If)]
    ok = len(tests) == 1 and nf(tests[0]) == nf_text('np.count_nonzero(segment_mask) < npixels')
    res.oblige('PRUNE', 'components with fewer than npixels pixels (strictly) are removed', ok, nontrivial=True,
               sample={'test': nf(tests[0]) if tests else None})
    if not ok:
        res.add(Finding('PRUNE', f.fullname, 'size test', f'{f.module.relpath}:{loop.lineno}',
                        '_detect_sources keeps exactly the components with at least npixels pixels: the removal test must be '
                        '`count_nonzero(segment_mask) < npixels`', {}))
    bad, sets = LP.check_lp3(f.node, loop, {'segm_labels', 'segm_slices'})
    okp = not bad
    res.oblige('LP3', 'kept labels and kept slices are appended together on every path', okp, nontrivial=True,
               sample={'append_sets': [sorted(s) for s in sets]})
    if not okp:
        res.add(Finding('LP3', f.fullname, 'parallel appends', f'{f.module.relpath}:{loop.lineno}',
                        f'_detect_sources: segm_labels and segm_slices receive different numbers of entries on some path {sorted(map(sorted, bad))}', {}))
    # None only after a zero-count test
    rets = [n for n in ast.walk(f.node) if isinstance(n, ast.Return) and (n.value is None or (isinstance(n.value, ast.Constant) and n.value.value is None))]
    for r in rets:
        p = getattr(r, '_parent', None)
        ok = isinstance(p, ast.If) and (nf(p.test) == nf_text('np.count_nonzero(segment_img) == 0') or
                                        nf(p.test) == nf_text('len(labels) == 1'))
        res.oblige('D2', '`return None` only when no candidate pixel / no component is left', ok, nontrivial=True)
        if not ok:
            res.add(Finding('D2', f.fullname, 'return None guard', f'{f.module.relpath}:{r.lineno}',
                            '_detect_sources returns None on a path that is not guarded by a zero-count test', {}))
    # relabel branch
    relabel = [n for n in ast.walk(f.node) if isinstance(n, ast.If) and nf(n.test) == 'relabel']
    if len(relabel) != 1:
        raise AnalysisError('_detect_sources: `if relabel:` not found')
    rb = relabel[0]
    inner = [n for n in rb.body if isinstance(n, ast.If)]
    ok = len(inner) == 1 and nf(inner[0].test) == nf_text('len(labels) != nlabels')
    res.oblige('RELABEL', 'array is relabelled whenever a component was pruned (len(labels) != number kept)', ok, nontrivial=True,
               sample={'test': nf(inner[0].test) if inner else None})
    if not ok:
        res.add(Finding('RELABEL', f.fullname, 'relabel condition', f'{f.module.relpath}:{rb.lineno}',
                        '_detect_sources must relabel (and recompute the seeded labels) whenever any component was pruned: the '
                        'condition must compare the raw label count with the number of kept labels', {}))
    expect_stmt(res, 'RELABEL', f, 'nlabels = ' + nf_text('len(segm_labels)'), 'nlabels = number of kept components',
                [s for s in ast.walk(rb) if isinstance(s, ast.Assign)])
    if inner:
        pool2 = [s for s in ast.walk(inner[0]) if isinstance(s, ast.Assign)]
        expect_stmt(res, 'RELABEL', f, 'label_map = ' + nf_text('np.zeros(np.max(labels) + 1, dtype=segment_img.dtype)'), 'relabel map over all raw labels, array dtype', pool2)
        expect_stmt(res, 'RELABEL', f, 'labels = ' + nf_text('np.arange(nlabels, dtype=segment_img.dtype) + 1'), 'new labels 1..N', pool2)
        expect_stmt(res, 'RELABEL', f, nf_text('label_map[segm_labels]') + ' = labels', 'kept raw labels map to 1..N in raster order', pool2)
        expect_stmt(res, 'RELABEL', f, 'segment_img = ' + nf_text('label_map[segment_img]'), 'map applied to the array', pool2)
    ok = len(rb.orelse) == 1 and SP.nf_stmt(rb.orelse[0]) == 'labels = segm_labels'
    res.oblige('RELABEL', 'without relabel the seeded labels are the kept raw labels', ok, nontrivial=True)
    if not ok:
        res.add(Finding('RELABEL', f.fullname, 'labels without relabel', f'{f.module.relpath}:{rb.lineno}',
                        '_detect_sources: with relabel=False the labels handed on must be the kept raw labels', {}))
    # seeds: the object is built from the final array, labels and kept slices
    for w, meaning in ((nf_text('segm._data') + ' = segment_img', 'returned object holds the final label array'),
                       (nf_text("segm.__dict__['labels']") + ' = labels', 'seeded labels are the final labels'),
                       (nf_text("segm.__dict__['slices']") + ' = segm_slices', 'seeded slices are the kept slices'),
                       (nf_text("segm.__dict__['_deblend_label_map']") + ' = {}', 'deblend map starts empty')):
        expect_stmt(res, 'SEED', f, w, meaning)


def wrapper(repo, res):
    f = repo.get_function(DET)
    expect_stmt(res, 'SPEC', f, 'inverse_mask = ' + nf_text('np.logical_not(mask)'), 'inverse mask = not mask')
    expect_stmt(res, 'SPEC', f, 'footprint = ' + nf_text('_make_binary_structure(data.ndim, connectivity)'), 'footprint from the requested connectivity')
    calls = SP.find_calls(f.node, '_detect_sources')
    ok = len(calls) == 1 and [nf(a) for a in calls[0].args] == ['data', 'threshold', 'npixels', 'footprint', 'inverse_mask'] \
        and {k.arg: nf(k.value) for k in calls[0].keywords} == {'relabel': 'True', 'return_segmimg': 'True'}
    res.oblige('SPEC', 'detect_sources calls _detect_sources(data, threshold, npixels, footprint, inverse_mask, relabel=True, return_segmimg=True)', ok, nontrivial=True)
    if not ok:
        res.add(Finding('SPEC', f.fullname, '_detect_sources call', f.loc, 'detect_sources must hand its arguments unchanged to _detect_sources with relabel=True', {}))
    # warn iff None
    warn_if = [n for n in ast.walk(f.node) if isinstance(n, ast.If) and nf(n.test) == nf_text('segm is None')]
    ok = len(warn_if) == 1 and any('NoDetectionsWarning' in unparse(s, 0) for s in warn_if[0].body)
    # ... and that is the only way to return None
    rn = [r for r in ast.walk(f.node) if isinstance(r, ast.Return) and (r.value is None or (isinstance(r.value, ast.Constant) and r.value.value is None))]
    ok = ok and len(rn) <= 1 and all(any(r is x for b in warn_if[0].body for x in ast.walk(b)) for r in rn)
    res.oblige('D2', 'NoDetectionsWarning iff the result is None', ok, nontrivial=True)
    if not ok:
        res.add(Finding('D2', f.fullname, 'no-detection warning', f.loc, 'detect_sources must warn exactly when it returns None', {}))
    g = repo.get_function('photutils.segmentation.utils._make_binary_structure')
    from .common import pathsum_spec
    pathsum_spec(res, 'SPEC', g, '''
def _make_binary_structure(ndim, connectivity):
    if ndim == 1:
        footprint = np.array((1, 1, 1))
    elif ndim == 2:
        if connectivity == 4:
            footprint = np.array(((0, 1, 0), (1, 1, 1), (0, 1, 0)))
        elif connectivity == 8:
            footprint = np.ones((3, 3), dtype=int)
        else:
            raise ValueError('Invalid connectivity')
    else:
        footprint = generate_binary_structure(ndim, 1)
    return footprint
''', 'connectivity 4 = von Neumann cross, 8 = full 3x3 (2-D); anything else raises; other dimensions use the scipy structure')
    src = {nf(n.value) for n in ast.walk(g.node) if isinstance(n, (ast.Assign, ast.Return)) and n.value is not None}
    for w, meaning in ((nf_text('np.array(((0, 1, 0), (1, 1, 1), (0, 1, 0)))'), '4-connectivity = von Neumann cross'),
                       (nf_text('np.ones((3, 3), dtype=int)'), '8-connectivity = full 3x3')):
        ok = w in src
        res.oblige('SPEC', f'_make_binary_structure: {meaning}', ok, nontrivial=True)
        if not ok:
            res.add(Finding('SPEC', g.fullname, meaning, g.loc, f'_make_binary_structure: {meaning} not found', {}))
    conn = [n for n in ast.walk(g.node) if isinstance(n, ast.If) and 'connectivity' in unparse(n.test, 0)]
    tests = sorted(nf(n.test) for n in conn)
    ok = tests == sorted([nf_text('connectivity == 4'), nf_text('connectivity == 8')])
    res.oblige('SPEC', 'connectivity 4 and 8 select the cross and the full structure; anything else raises', ok, nontrivial=True,
               sample={'tests': tests})
    if not ok:
        res.add(Finding('SPEC', g.fullname, 'connectivity dispatch', g.loc, '_make_binary_structure must dispatch on connectivity == 4 / == 8', {}))
    # detect_threshold = background + nsigma * error
    h = repo.get_function('photutils.segmentation.detect.detect_threshold')
    expect_stmt(res, 'SPEC', h, 'threshold = ' + nf_text('np.broadcast_to(background, data.shape) + np.broadcast_to(error * nsigma, data.shape)'),
                'detect_threshold = background + nsigma * error, pixel-wise')


def run(repo, tier):
    res = Result(PROP)
    res.explanation = (
        'Structure of the detector decided for all inputs: SPEC (the labeller input is `data > threshold` and-ed with the inverse mask, '
        'labelled with the connectivity footprint; footprints are the von Neumann / Moore structures; detect_threshold = background + '
        'nsigma*error), PRUNE/LP3 (components with count < npixels are zeroed; kept labels and slices appended together on every path), '
        'RELABEL (relabel whenever something was pruned; kept raw labels -> 1..N in raster order, array dtype), SEED/D3 (the returned '
        'object is seeded with the final array, labels and kept slices; only the two fast paths may seed), D2 (None only after a '
        'zero-count test; warning iff None), FWD (SourceFinder forwards connectivity/npixels/...).')
    res.not_decided = 'that scipy.ndimage.label is a correct raster-ordered connected-component labeller.'
    res.assumptions = ['scipy ndimage.label / find_objects have their documented meaning']
    labeller_input(repo, res)
    wrapper(repo, res)
    external_writers(repo, res)
    run_forward(repo, res, {'photutils.segmentation.finder', 'photutils.segmentation.detect'})
    res.floor('SPEC', 12)
    res.floor('PRUNE', 6)
    res.floor('RELABEL', 6)
    res.floor('SEED', 4)
    res.floor('FWD', 6)
    from .common import run_label_eq
    run_label_eq(repo, res, {'photutils.segmentation.core', 'photutils.segmentation.catalog'})
    res.floor('LABEL-EQ', 3)
    from .common import run_cast_to_data_dtype
    run_cast_to_data_dtype(repo, res, {'photutils.segmentation.detect', 'photutils.segmentation.finder'})
    from .common import run_generic_pack
    run_generic_pack(repo, res, PROP, ())
    return res
