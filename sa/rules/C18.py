"""C18 - rendered model images are the exact superposition of their sources."""
from __future__ import annotations

import ast

from ..core import AnalysisError, norm_stmt_text, unparse
from ..report import Finding, Result
from ..expr import nf, nf_text
from .. import spec as SP
from ..forward import run_forward
from .common import run_loops, run_axis, expect_stmt
from .C10 import collect as a1_collect, get_alias

PROP = 'C18'
MMI = 'photutils.datasets.images.make_model_image'
MODS = {'photutils.datasets.images', 'photutils.psf.simulation', 'photutils.datasets.model_params'}


def render_loop(repo, res):
    f = repo.get_function(MMI)
    loops = [n for n in ast.walk(f.node) if isinstance(n, ast.For) and unparse(n.iter, 0) == 'enumerate(params_table)']
    if len(loops) != 1:
        raise AnalysisError('make_model_image: row loop `for i, source in enumerate(params_table)` not found')
    loop = loops[0]
    # every mapped parameter is set on every iteration, first thing in the body
    first = loop.body[0]
    ok = isinstance(first, ast.For) and nf(first.iter) == nf_text('params_map.items()') and len(first.body) == 1 \
        and SP.nf_stmt(first.body[0]) == nf_text('setattr(model, key, source[param])') \
        and nf(first.target) == '(key,param)'
    res.oblige('ROW', 'every mapped parameter is assigned from the row at the start of each iteration', ok, nontrivial=True)
    if not ok:
        res.add(Finding('ROW', f.fullname, 'per-row parameter assignment', f'{f.module.relpath}:{loop.lineno}',
                        'make_model_image: each iteration must start by setting every mapped model parameter from the current row '
                        '(otherwise a row inherits values of the previous row)', {}))
    want = [
        ('x0 = ' + nf_text('getattr(model, x_name).value'), 'x0 read back from the model parameter named x_name'),
        ('y0 = ' + nf_text('getattr(model, y_name).value'), 'y0 read back from the model parameter named y_name'),
        (nf_text('(slc_lg, _)') + ' = ' + nf_text("overlap_slices(shape, mod_shape, (y0, x0), mode='trim')"),
         "window = overlap_slices(shape, mod_shape, (y0, x0), mode='trim') (clipped to the image, (y, x) order)"),
        (nf_text('(yy, xx)') + ' = ' + nf_text('np.mgrid[slc_lg]'), 'pixel grid of the window in (y, x) order'),
        ('subimg = ' + nf_text('model(xx, yy)'), 'model evaluated as model(x, y)'),
        (nf_text('image[slc_lg]') + ' Add= ' + nf_text('subimg + local_bkg[i]'),
         'window accumulated into the image with this row\'s local background'),
        ('x_range = ' + nf_text('(slc_lg[1].start, slc_lg[1].stop)'), 'x_range from the x slice'),
        ('y_range = ' + nf_text('(slc_lg[0].start, slc_lg[0].stop)'), 'y_range from the y slice'),
        ('mod_shape = ' + nf_text('model_shape[i]'), 'per-row model_shape taken from row i'),
        ('model = ' + nf_text('model.copy()'), 'the input model is copied before parameters are assigned'),
        ('image = ' + nf_text('np.zeros(shape, dtype=float)'), 'accumulation starts from zeros'),
    ]
    pool = [s for s in ast.walk(f.node) if isinstance(s, (ast.Assign, ast.AugAssign))]
    for w, meaning in want:
        expect_stmt(res, 'SPEC', f, w, meaning, pool)
    # skip rows that do not overlap: the NoOverlapError handler only continues
    handlers = [h for n in ast.walk(loop) if isinstance(n, ast.Try) for h in n.handlers
                if h.type is not None and unparse(h.type, 0) == 'NoOverlapError']
    ok = len(handlers) == 1 and len(handlers[0].body) == 1 and isinstance(handlers[0].body[0], ast.Continue)
    res.oblige('SPEC', 'NoOverlapError => continue (and nothing else)', ok, nontrivial=True)
    if not ok:
        res.add(Finding('SPEC', f.fullname, 'NoOverlapError handler', f.loc, 'rows that miss the image must just be skipped', {}))
    # model_shape is validated but never clamped to the image (the window is clipped instead)
    for c in SP.find_calls(f.node, 'as_pair'):
        if c.args and isinstance(c.args[0], ast.Constant) and c.args[0].value == 'model_shape':
            kws = sorted(k.arg for k in c.keywords)
            ok = 'upper_bound' not in kws
            res.oblige('SPEC', 'model_shape is not clamped by an upper bound', ok, nontrivial=True, sample={'keywords': kws})
            if not ok:
                res.add(Finding('SPEC', f.fullname, unparse(c, 100), f'{f.module.relpath}:{c.lineno}',
                                'make_model_image: model_shape is clamped to an upper bound; a window larger than the image must be '
                                'clipped by overlap_slices(mode=trim) around the source, not shrunk', {}))
    # parameter-name mapping precedence: x/y names, then same-named columns, then the user's params_map (last wins)
    order = []
    for st in f.node.body:
        for n in ast.walk(st):
            if isinstance(n, ast.Call) and unparse(n.func, 0) == 'xypos_map.update':
                order.append(nf(n.args[0]) if n.args else '')
    ok = len(order) == 2 and order[-1] == 'params_map' and 'params_to_set' in order[0]
    res.oblige('SPEC', 'user params_map is applied last (takes precedence over same-named columns)', ok, nontrivial=True,
               sample={'update_order': order})
    if not ok:
        res.add(Finding('SPEC', f.fullname, 'params_map precedence', f.loc,
                        f'make_model_image: the user\'s params_map must be applied after the automatic same-name mapping; update order is {order}', {}))
    expect_stmt(res, 'SPEC', f, 'xypos_map = ' + nf_text('{x_name: x_name, y_name: y_name}'), 'mapping starts from x_name/y_name')
    expect_stmt(res, 'SPEC', f, 'params_to_set = ' + nf_text('set(params_table.colnames) & set(model.param_names)'),
                'automatic mapping = columns that are model parameter names')
    # local background column or zeros
    expect_stmt(res, 'SPEC', f, 'local_bkg = ' + nf_text("params_table['local_bkg']"), 'local_bkg taken from the table column')
    expect_stmt(res, 'SPEC', f, 'local_bkg = ' + nf_text('np.zeros(len(params_table))'), 'local_bkg defaults to zero per row')
    # no first-row special case remains keyed on the index
    bad = [n for n in ast.walk(loop) if isinstance(n, ast.Compare) and isinstance(n.left, ast.Name) and n.left.id == 'i'
           and isinstance(n.comparators[0], ast.Constant) and n.comparators[0].value == 0]
    return loop


def mixin_rules(repo, res):
    d, ft = get_alias(repo)
    cls = repo.get_class('photutils.psf.photometry.ModelImageMixin')
    for name in ('make_model_image', 'make_residual_image'):
        f = cls.lookup(name)
        if f is None:
            raise AnalysisError(f'vanished anchor: ModelImageMixin.{name}')
        sm = d.summary(f)
        ok = not sm.mutf and not sm.selfset
        res.oblige('A2', f'ModelImageMixin.{name} modifies no stored state', ok, nontrivial=True,
                   sample={'fields_mutated': sorted(sm.mutf), 'attrs_set': sorted(sm.selfset)})
        for fld, sites in list(sm.mutf.items()) + list(sm.selfset.items()):
            for s in sites.values():
                res.add(Finding('A2', s.finfo.fullname, norm_stmt_text(s.stmt), s.loc,
                                f'ModelImageMixin.{name} modifies stored fit results (`self.{fld}`) in place: {s.describe()}; '
                                f'a later call (e.g. include_localbkg=False) then still sees the change', {}))
    f = cls.lookup('make_model_image')
    # the table is copied before the local_bkg column is added, on every path that adds it
    # the table that receives the local_bkg column is a fresh copy (the statement before the column store, in the same block)
    ok = False
    for par in ast.walk(f.node):
        for fld in ('body', 'orelse'):
            blk = getattr(par, fld, None)
            if not isinstance(blk, list):
                continue
            for i_, st_ in enumerate(blk):
                if isinstance(st_, ast.Assign) and unparse(st_.targets[0], 0) == "model_params['local_bkg']":
                    prev = [p_ for p_ in blk[:i_] if isinstance(p_, ast.Assign) and unparse(p_.targets[0], 0) == 'model_params']
                    ok = bool(prev) and isinstance(prev[-1].value, ast.Call) and isinstance(prev[-1].value.func, ast.Attribute) \
                        and prev[-1].value.func.attr == 'copy' and not prev[-1].value.args
    res.oblige('SPEC', 'ModelImageMixin.make_model_image: the parameter table is copied before the local_bkg column is added', ok, nontrivial=True)
    if not ok:
        res.add(Finding('SPEC', f.fullname, 'copy before local_bkg', f.loc,
                        'ModelImageMixin.make_model_image: the table that receives the local_bkg column must be a fresh `.copy()` made in the '
                        'same branch (otherwise the stored fit parameters gain a column)', {}))
    expect_stmt(res, 'SPEC', f, nf_text("model_params['local_bkg']") + ' = local_bkgs', 'local_bkg column set from the stored local backgrounds')
    g = cls.lookup('make_residual_image')
    calls = SP.find_calls(g.node, 'np.subtract')
    ok = len(calls) == 1 and [nf(a) for a in calls[0].args] == ['data', 'residual'] and \
        nf(SP.kwargs_of(calls[0]).get('out')) == 'residual'
    res.oblige('SPEC', 'residual = data - model image', ok, nontrivial=True)
    if not ok:
        res.add(Finding('SPEC', g.fullname, 'residual subtraction', g.loc, 'make_residual_image must compute data minus the model image', {}))
    calls = SP.find_calls(g.node, 'self.make_model_image')
    ok = len(calls) == 1 and nf(calls[0].args[0]) == 'data.shape'
    res.oblige('SPEC', 'model image rendered with the shape of the data', ok, nontrivial=True)
    if not ok:
        res.add(Finding('SPEC', g.fullname, 'model image shape', g.loc, 'the model image must be rendered at data.shape', {}))


def overlap_wrapper_rules(repo, res):
    """astropy's overlap_slices tests `small_array_shape` against a tuple; an ndarray shape (as_pair returns one) makes that test
    ambiguous exactly when a window edge is 0.  WHO-MAY-CALL: only photutils.utils.cutouts._overlap_slices calls the astropy
    function; MUST-PASS: the wrapper turns a non-scalar shape into a tuple before the call."""
    n = 0
    for m in repo.modules.values():
        if '.tests' in m.name:
            continue
        for st in ast.walk(m.tree):
            if isinstance(st, ast.ImportFrom) and st.module and st.module.startswith('astropy') \
                    and any(a.name == 'overlap_slices' for a in st.names):
                n += 1
                ok = m.name == 'photutils.utils.cutouts'
                res.oblige('WHO', f'{m.name} does not import astropy overlap_slices directly', ok, nontrivial=True)
                if not ok:
                    res.add(Finding('WHO', m.name, 'imports astropy overlap_slices', f'{m.relpath}:{st.lineno}',
                                    f'{m.name} calls astropy.nddata.overlap_slices directly; shapes coming from as_pair are ndarrays and '
                                    f'must go through photutils.utils.cutouts._overlap_slices (tuple conversion, NoOverlapError at the edge)', {}))
    w = repo.get_function('photutils.utils.cutouts._overlap_slices')
    calls = [c for c in ast.walk(w.node) if isinstance(c, ast.Call) and unparse(c.func, 0) == 'overlap_slices']
    if len(calls) != 1 or len(calls[0].args) < 2:
        raise AnalysisError('vanished anchor: overlap_slices call in photutils.utils.cutouts._overlap_slices')
    arg = calls[0].args[1]
    conv = [a_ for a_ in ast.walk(w.node) if isinstance(a_, ast.Assign) and len(a_.targets) == 1 and isinstance(arg, ast.Name)
            and unparse(a_.targets[0], 0) == arg.id and isinstance(a_.value, ast.Call) and unparse(a_.value.func, 0) == 'tuple'
            and a_.lineno < calls[0].lineno]
    ok = (isinstance(arg, ast.Call) and unparse(arg.func, 0) == 'tuple')
    if conv:
        from .common import enclosing_if_atoms
        atoms = enclosing_if_atoms(conv[0], w.node)
        ok = all('isscalar' in a_ for a_ in atoms)
    res.oblige('MUST-PASS', '_overlap_slices hands astropy a tuple shape (non-scalar shapes converted on every path)', ok, nontrivial=True)
    if not ok:
        res.add(Finding('MUST-PASS', w.fullname, 'tuple conversion of small_array_shape', f'{w.module.relpath}:{calls[0].lineno}',
                        '_overlap_slices passes `small_array_shape` to astropy without converting it to a tuple: for an ndarray shape and a '
                        'source whose window ends exactly at pixel 0, astropy raises ValueError (ambiguous truth value) instead of '
                        'NoOverlapError, so make_model_image and the other callers fail instead of skipping the source', {}))
    if n < 1:
        raise AnalysisError('vanished anchor: import of astropy overlap_slices')


def run(repo, tier):
    res = Result(PROP)
    res.explanation = (
        'Superposition structure decided for all tables: ROW (every mapped parameter assigned from the row at the start of each iteration), '
        'LP1/LP1b/LP2 (no state carried between rows other than the returned accumulator; no first-row special case that a skipped row '
        'can miss), SPEC (window = overlap_slices(shape, mod_shape, (y0, x0), mode=trim); accumulate subimg + local_bkg[i] into image[slc]; '
        'mapping precedence; NoOverlap => continue; residual = data - model), A1 (input model and table never written), A2 (the photometry '
        'objects\' stored fit results are not modified when rendering), FWD (options forwarded), T-AXIS.')
    res.not_decided = 'the discretisation values themselves (astropy discretize_model / model evaluation).'
    res.assumptions = ['astropy overlap_slices / discretize_model have their documented meaning']
    render_loop(repo, res)
    mixin_rules(repo, res)
    overlap_wrapper_rules(repo, res)
    run_loops(repo, res, MODS | {'photutils.psf.photometry'}, rules=('LP1', 'LP1b', 'LP2'))
    run_axis(repo, res, MODS)
    run_forward(repo, res, MODS | {'photutils.psf.photometry'})
    a1_collect(repo, res, modules=MODS)
    # the mixin's public methods are entries of the psf module
    res.floor('SPEC', 18)
    res.floor('ROW', 1)
    res.floor('loops-examined', 10)
    res.floor('LP2', 2)
    res.exhaustive_rules = ['LP1/LP1b/LP2 over every loop of the rendering modules']
    from .common import guard_only
    mm = cls.lookup('make_model_image') if False else repo.get_class('photutils.psf.photometry.ModelImageMixin').lookup('make_model_image')
    st_ = [a_ for a_ in ast.walk(mm.node) if isinstance(a_, ast.Assign) and unparse(a_.targets[0], 0) == "model_params['local_bkg']"]
    if len(st_) != 1:
        raise AnalysisError('vanished anchor: local_bkg column store in ModelImageMixin.make_model_image')
    guard_only(res, 'GUARD', mm, st_[0], {'include_localbkg'}, 'adding the local backgrounds to the rendered table',
               'local backgrounds supplied by the user (no estimator configured) are dropped from the model/residual image')
    mk = repo.get_function('photutils.datasets.images.make_model_image')
    st_ = [a_ for a_ in ast.walk(mk.node) if isinstance(a_, ast.Assign) and unparse(a_.targets[0], 0) == 'model_shape'
           and "params_table['model_shape']" in unparse(a_.value, 0)]
    if len(st_) != 1:
        raise AnalysisError('vanished anchor: model_shape column read in make_model_image')
    guard_only(res, 'GUARD', mk, st_[0], {"'model_shape' in params_table.colnames"}, 'taking the per-row model_shape column',
               'the documented precedence (column overrides keyword) is lost when the keyword is also given')
    ic = repo.get_function('photutils.psf.photometry.IterativePSFPhotometry.__call__')
    apps = [c_ for c_ in ast.walk(ic.node) if isinstance(c_, ast.Call) and unparse(c_.func, 0) == 'self.fit_results.append']
    okd = len(apps) >= 2 and all(nf(c_.args[0]) == nf_text('deepcopy(self._psfphot)') for c_ in apps)
    res.oblige('SPEC', 'IterativePSFPhotometry stores a deep copy of the worker after every iteration', okd, nontrivial=True)
    if not okd:
        res.add(Finding('SPEC', ic.fullname, 'fit_results snapshots', ic.loc,
                        'IterativePSFPhotometry.__call__ must append deepcopy(self._psfphot) after every iteration: make_model_image '
                        'renders the sources of every stored iteration', {}))
    from .common import run_generic_pack
    run_generic_pack(repo, res, PROP, MODS)
    return res
