"""C02 - aperture sums are mask-weighted sums over unmasked in-image pixels."""
from __future__ import annotations

import ast

from ..core import AnalysisError, norm_stmt_text, unparse, ClassInfo
from ..report import Finding, Result
from ..expr import nf, nf_text, rename
from .. import spec as SP
from .. import loops as LP
from ..forward import run_forward
from .common import run_loops, run_axis, expect_stmt
from .C10 import collect as a1_collect, get_alias

PROP = 'C02'
MODS = {'photutils.aperture.core', 'photutils.aperture.mask', 'photutils.aperture.photometry',
        'photutils.aperture.converters', 'photutils.utils._wcs_helpers'}
AM = 'photutils.aperture.mask.ApertureMask'
PA = 'photutils.aperture.core.PixelAperture'


def overlap_cutouts(repo, res):
    f = repo.method(AM, '_get_overlap_cutouts')
    pool = [s for s in ast.walk(f.node) if isinstance(s, (ast.Assign, ast.AugAssign, ast.Return))]
    for w, meaning in (
            (nf_text('(slc_large, slc_small)') + ' = ' + nf_text('self.get_overlap_slices(shape)'), 'one overlap computation yields both slices'),
            ('aper_weights = ' + nf_text('self.data[slc_small]'), 'weights are the mask cutout (small slices)'),
            ('pixel_mask = ' + nf_text('aper_weights > 0'), 'good pixels = positive weight'),
            ('pixel_mask BitAnd= ' + nf_text('~mask[slc_large]'), 'input mask (large slices) removes pixels from the good-pixel mask'),
            ('return ' + nf_text('(slc_large, aper_weights, pixel_mask)'), 'returns (slices, weights, good-pixel mask) in that order'),
            ('return ' + nf_text('(None, None, None)'), 'no overlap returns three Nones')):
        expect_stmt(res, 'SPEC', f, w, meaning, pool)
    g = repo.method(AM, 'get_values')
    rets = [nf(n.value) for n in ast.walk(g.node) if isinstance(n, ast.Return) and n.value is not None]
    ok = nf_text('(data[slc_large] * aper_weights)[pixel_mask]') in rets and nf_text('np.array([])') in rets
    res.oblige('SPEC', 'get_values returns (data[slc_large] * weights)[good pixels] (empty array without overlap)', ok, nontrivial=True)
    if not ok:
        res.add(Finding('SPEC', g.fullname, 'get_values result', g.loc, 'ApertureMask.get_values must return (data[slc_large] * aper_weights)[pixel_mask]', {}))


def photometry_loop(repo, res):
    f = repo.method(PA, 'do_photometry')
    loops = [l for l in LP.loops_of(f.node) if isinstance(l, ast.For) and nf(l.iter) == 'apermasks']
    if len(loops) != 1:
        raise AnalysisError('do_photometry: loop over apermasks not found')
    loop = loops[0]
    pool = [s for s in ast.walk(loop) if isinstance(s, (ast.Assign, ast.Expr))]
    want = [
        (nf_text('(slc_large, aper_weights, pixel_mask)') + ' = ' + nf_text('apermask._get_overlap_cutouts(data.shape, mask=mask)'),
         'slices, weights and good-pixel mask of this aperture (shared by data and error)'),
        ('values = ' + nf_text('(data[slc_large] * aper_weights)[pixel_mask]'), 'weighted data values on the good pixels'),
        ('variance = ' + nf_text('(error[slc_large]**2 * aper_weights)[pixel_mask]'), 'weighted variance on the same pixels'),
        (nf_text('aperture_sums.append(values.sum())'), 'sum of the weighted values'),
        (nf_text('aperture_sum_errs.append(np.sqrt(variance.sum()))'), 'error = sqrt of the summed variance'),
        (nf_text('aperture_sums.append(np.nan)'), 'NaN sum when the box misses the image'),
        (nf_text('aperture_sum_errs.append(np.nan)'), 'NaN error when the box misses the image'),
    ]
    for w, meaning in want:
        expect_stmt(res, 'SPEC', f, w, meaning, pool)
    # the variance is the data expression with data -> error**2 (same slices, weights, mask)
    vals = [s for s in pool if isinstance(s, ast.Assign) and unparse(s.targets[0]) == 'values']
    var = [s for s in pool if isinstance(s, ast.Assign) and unparse(s.targets[0]) == 'variance']
    if vals and var:
        a = nf(vals[0].value).replace('data[slc_large]', 'pow(error[slc_large],2)')
        ok = a == nf(var[0].value)
        res.oblige('MIRROR', 'variance is computed on exactly the pixels/weights of the sum', ok, nontrivial=True)
        if not ok:
            res.add(Finding('MIRROR', f.fullname, norm_stmt_text(var[0]), f'{f.module.relpath}:{var[0].lineno}',
                            'do_photometry: data and error are not cut/weighted/masked identically', {}))
    # no-overlap test is exactly `slc_large is None`: the NaN append runs under that condition only, the sum under its negation only
    # (decided on path conditions, so `if ...: append(nan); continue` and `if ...: append(nan) else: ...` are the same)
    from ..guards import guard_of
    nan_st = [s_ for s_ in pool if isinstance(s_, ast.Expr) and nf(s_.value) == nf_text('aperture_sums.append(np.nan)')]
    sum_st = [s_ for s_ in pool if isinstance(s_, ast.Expr) and nf(s_.value) == nf_text('aperture_sums.append(values.sum())')]
    tests = [guard_of(s_, loop) for s_ in nan_st + sum_st]
    ok = len(nan_st) == 1 and len(sum_st) == 1 \
        and tests[0] == ('and', [('atom', 'slc_large is None')]) and tests[1] == ('and', [('not', ('atom', 'slc_large is None'))])
    res.oblige('SPEC', 'NaN exactly when the bounding box misses the image (`slc_large is None`)', ok, nontrivial=True,
               sample={'conditions': [str(t_) for t_ in tests]})
    if not ok:
        res.add(Finding('SPEC', f.fullname, 'no-overlap test', f'{f.module.relpath}:{loop.lineno}',
                        'do_photometry must return NaN only when the aperture box misses the image (`slc_large is None`); a fully '
                        'masked or zero-weight overlap sums to 0, not NaN', {}))
    bad, sets = LP.check_lp3(f.node, loop, {'aperture_sums'})
    # unit strip / re-attach pairing
    expect_stmt(res, 'D2', f, 'aperture_sums LShift= unit', 'units re-attached to the sums')
    expect_stmt(res, 'D2', f, 'aperture_sum_errs LShift= unit', 'units re-attached to the errors')
    expect_stmt(res, 'SPEC', f, 'apermasks = ' + nf_text('self.to_mask(method=method, subpixels=subpixels)'), 'masks built with the requested method')
    # area_overlap
    g = repo.method(PA, 'area_overlap')
    gp = [s for s in ast.walk(g.node) if isinstance(s, (ast.Assign, ast.Expr))]
    for w, meaning in (
            (nf_text('(slc_large, slc_small)') + ' = ' + nf_text('apermask.get_overlap_slices(data.shape)'), 'overlap slices of this aperture'),
            ('aper_weights = ' + nf_text('apermask.data[slc_small]'), 'weights cutout'),
            (nf_text('aper_weights[mask[slc_large]]') + ' = ' + nf_text('0.0'), 'masked pixels contribute no area'),
            ('area = ' + nf_text('np.sum(aper_weights)'), 'area = sum of the remaining weights'),
            ('area = ' + nf_text('np.nan'), 'NaN area without overlap'),
            ('apermasks = ' + nf_text('self.to_mask(method=method, subpixels=subpixels)'), 'masks built with the requested method')):
        expect_stmt(res, 'SPEC', g, w, meaning, gp)


def pure_methods(repo, res):
    d, ft = get_alias(repo)
    n = 0
    for cn in (AM, PA):
        base = repo.get_class(cn)
        for c in repo.classes.values():
            if not c.is_subclass_of(cn):
                continue
            for fs in c.methods.values():
                for f in fs:
                    if f.name == '__init__' or f.is_setter:
                        continue
                    sm = d.summary(f)
                    n += 1
                    ok = not sm.mutf
                    res.oblige('A2', f'{f.qualname} modifies no stored array of its object in place', ok,
                               nontrivial=not f.is_property, sample={'method': f.fullname} if not f.is_property and n % 9 == 0 else None)
                    for fld, sites in sm.mutf.items():
                        for s in sites.values():
                            res.add(Finding('A2', s.finfo.fullname, norm_stmt_text(s.stmt), s.loc,
                                            f'{f.qualname} modifies `self.{fld}` in place ({s.describe()}): the mask/aperture object '
                                            f'gives different results on its next use', {}))


def table_assembly(repo, res):
    f = repo.get_function('photutils.aperture.photometry.aperture_photometry')
    expect_stmt(res, 'SPEC', f, 'apertures = ' + nf_text('[aper.to_pixel(wcs) for aper in apertures]'), 'sky apertures are converted with to_pixel(wcs)')
    # every aperture handed to do_photometry comes from the converted list
    loops = [l for l in LP.loops_of(f.node) if isinstance(l, ast.For) and nf(l.iter) == nf_text('enumerate(apertures)')]
    ok = False
    for l in loops:
        calls = SP.find_calls(l, 'do_photometry')
        if calls:
            c = calls[0]
            ok = unparse(c.func.value, 0) == 'aper' and nf(c.args[0]) == 'data'
            last = l
    res.oblige('SPEC', 'do_photometry is called on each converted aperture with the data', ok, nontrivial=True)
    if not ok:
        res.add(Finding('SPEC', f.fullname, 'do_photometry loop', f.loc, 'aperture_photometry must call aper.do_photometry(data, ...) for each converted aperture', {}))
    # identical-position check precedes the measurement loop
    chk = [n for n in ast.walk(f.node) if isinstance(n, ast.If) and 'array_equal' in unparse(n.test, 0)]
    ok = len(chk) == 1 and loops and chk[0].lineno < last.lineno
    res.oblige('D2', 'identical-position check precedes the measurement loop', bool(ok), nontrivial=True)
    if not ok:
        res.add(Finding('D2', f.fullname, 'identical-position check', f.loc, 'the identical-positions check must precede the photometry loop', {}))
    for w, meaning in (("tbl['xcenter'] = " + nf_text('xypos_pixel[0]'), 'xcenter column = x positions'),
                       ("tbl['ycenter'] = " + nf_text('xypos_pixel[1]'), 'ycenter column = y positions'),
                       ('tbl[sum_key] = aper_sum', 'sum column'), ('tbl[sum_err_key] = aper_sum_err', 'error column')):
        expect_stmt(res, 'SPEC', f, w.replace("tbl['xcenter']", nf_text("tbl['xcenter']")).replace("tbl['ycenter']", nf_text("tbl['ycenter']")), meaning)


def run(repo, tier):
    res = Result(PROP)
    res.explanation = (
        'Registration structure decided for all inputs: SPEC (one overlap computation per aperture yields slices, weights and the '
        'good-pixel mask; sums, variances and areas are taken with the large slices on exactly those pixels; NaN iff the box misses the '
        'image), MIRROR (variance = data expression with data -> error**2), A2 (no method of ApertureMask/PixelAperture modifies its own '
        'stored weights, so a mask gives the same result on every use), LP1/LP1b (no state carried between apertures/positions), FWD '
        '(method/subpixels/mask/error forwarded, incl. the NDData recursion), D2 (unit re-attach, position check), T-AXIS, A1.')
    res.not_decided = 'the numeric sums, linearity and the overlap weights themselves (C01).'
    res.assumptions = ['numpy boolean indexing selects exactly the True pixels']
    overlap_cutouts(repo, res)
    photometry_loop(repo, res)
    # the overlap slices every sum/area depends on (shared with C01)
    from .C01 import bbox_rules
    bbox_rules(repo, res)
    # every result of area_overlap / do_photometry comes out of the per-aperture loop (no analytic short cut)
    SP.returns_match(repo, res, 'SPEC', f'{PA}.area_overlap', ['areas[0]', 'areas'], 'the summed mask weights of the loop (scalar or array)')
    SP.returns_match(repo, res, 'SPEC', f'{PA}.do_photometry', ['(aperture_sums, aperture_sum_errs)'], 'the sums and errors accumulated by the loop')
    pure_methods(repo, res)
    table_assembly(repo, res)
    run_loops(repo, res, MODS, rules=('LP1', 'LP1b'))
    run_forward(repo, res, MODS)
    # the sums are taken over the aperture's weight map: its geometry plumbing (bounding box, recentred edges, half-extents,
    # method table, unit handling of theta and of sky apertures, cache invalidation on parameter assignment) is part of C02 too
    from . import C01 as G
    from .C09 import run_L4
    G.bbox_rules(repo, res)
    G.aperture_rules(repo, res)
    G.angle_unit_rules(repo, res)
    G.extra_rules(repo, res)
    G.sky_rules(repo, res)
    run_L4(repo, res)
    run_axis(repo, res, MODS | {'photutils.aperture.bounding_box'})
    a1_collect(repo, res, modules=MODS)
    res.floor('SPEC', 25)
    res.floor('A2', 50)
    res.floor('FWD', 10)
    res.floor('loops-examined', 8)
    from .common import run_clone_pairs
    run_clone_pairs(repo, res, {m for m in repo.modules if m.startswith('photutils.aperture') and '.tests' not in m})
    for mod_, cls_ in (('circle', 'CircularMaskMixin'), ('ellipse', 'EllipticalMaskMixin'), ('rectangle', 'RectangularMaskMixin')):
        tm = repo.method(f'photutils.aperture.{mod_}.{cls_}', 'to_mask')
        apps = [c_ for c_ in ast.walk(tm.node) if isinstance(c_, ast.Call) and unparse(c_.func, 0) == 'masks.append']
        okm = len(apps) == 1 and nf(apps[0].args[0]) == nf_text('ApertureMask(mask, bbox)')
        res.oblige('SPEC', f'{cls_}.to_mask: one ApertureMask(mask, bbox) per position, each with its own weight array', okm, nontrivial=True)
        if not okm:
            res.add(Finding('SPEC', tm.fullname, 'one fresh mask per position', tm.loc,
                            f'{cls_}.to_mask must append exactly ApertureMask(mask, bbox) once per position: masks that share one weight '
                            f'array see each other\'s in-place edits (area_overlap zeroes masked pixels in place)', {}))
    from .common import run_generic_pack
    run_generic_pack(repo, res, PROP, MODS)
    return res
