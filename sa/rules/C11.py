"""C11 - Background2D maps: mask-blindness plumbing and dispatch structure (values not decided)."""
from __future__ import annotations

import ast
import re

from ..core import AnalysisError, norm_stmt_text, unparse
from ..report import Finding, Result
from ..expr import nf, nf_text, rename
from .. import spec as SP
from ..forward import run_forward
from .common import run_loops, run_axis, expect_stmt, run_deadstore
from .C10 import collect as a1_collect
from . import lazyrules as LR

PROP = 'C11'
B2D = 'photutils.background.background_2d.Background2D'
MODS = {'photutils.background.background_2d', 'photutils.background.core', 'photutils.background.interpolators',
        'photutils.utils._stats', 'photutils.utils.interpolation'}


def box_blocks(repo, res):
    f = repo.method(B2D, '_calculate_stats')
    asg = {}
    for n in ast.walk(f.node):
        if isinstance(n, ast.Assign) and len(n.targets) == 1 and isinstance(n.targets[0], ast.Name):
            asg.setdefault(n.targets[0].id, []).append(n)
    want = {'core': '[:y1, :x1]', 'row': '[y1:, :x1]', 'col': '[:y1, x1:]', 'corner': '[y1:, x1:]'}
    for pre, sl in want.items():
        dname = pre if pre == 'core' else f'{pre}_data'
        mname = f'{pre}_mask'
        d0 = asg.get(dname, [None])[0]
        m0 = asg.get(mname, [None])[0]
        # NaN fill with the matching mask before the statistics
        fills = [n for n in ast.walk(f.node) if isinstance(n, ast.Assign) and isinstance(n.targets[0], ast.Subscript)
                 and unparse(n.targets[0].value, 0) == dname and nf(n.value) == nf_text('np.nan')]
        direct = m0 is None and len(fills) == 1          # the mask cut is used in place: `X_data[mask[region]] = np.nan`
        if d0 is None or (m0 is None and not direct):
            raise AnalysisError(f'_calculate_stats: block `{pre}` not found')
        dsrc = unparse(d0.value, 0)
        msrc = unparse(fills[0].targets[0].slice, 0) if direct else unparse(m0.value, 0)
        ok_d = f'self._data{sl}.copy()' in dsrc
        ok_m = msrc in (f'mask{sl}', f'reshape_as_blocks(mask{sl}, self.box_size)')
        res.oblige('LP4', f'_calculate_stats {pre} block: data and mask cut with the same region {sl}, data copied', ok_d and ok_m,
                   nontrivial=True, sample={'block': pre, 'data': dsrc, 'mask': msrc})
        if not (ok_d and ok_m):
            res.add(Finding('LP4', f.fullname, f'{pre} block region', f'{f.module.relpath}:{d0.lineno}',
                            f'_calculate_stats: the {pre} block must take `self._data{sl}.copy()` and `mask{sl}` (same region, on a '
                            f'copy); found data `{dsrc}` and mask `{msrc}`: masked pixels of another region would be blanked', {}))
        ok = len(fills) == 1 and (direct or unparse(fills[0].targets[0].slice, 0) == mname)
        res.oblige('LP4', f'_calculate_stats {pre} block: masked pixels set to NaN with its own mask', ok, nontrivial=True)
        if not ok:
            res.add(Finding('LP4', f.fullname, f'{pre} block NaN fill', f'{f.module.relpath}:{d0.lineno}',
                            f'_calculate_stats: `{dname}[{mname}] = np.nan` not found: masked pixel values would enter the box statistics', {}))
    calls = SP.find_calls(f.node, 'self._compute_box_statistics')
    args = sorted(unparse(c.args[0], 0) for c in calls)
    ok = args == ['col_data', 'core', 'corner_data', 'row_data']
    res.oblige('LP4', 'box statistics are computed for the core, extra-row, extra-column and corner blocks', ok, nontrivial=True)
    if not ok:
        res.add(Finding('LP4', f.fullname, 'box statistics calls', f.loc, f'_calculate_stats: statistics calls are {args}', {}))
    expect_stmt(res, 'SPEC', f, 'mask = ' + nf_text('self._combine_all_masks(~np.isfinite(self._data))'), 'non-finite pixels are always masked')
    # stacked in matching order: bkg / bkgrms / ngood siblings
    for a in ('bkg', 'bkgrms', 'ngood'):
        for tmpl in ('{a} = np.vstack([{a}, row_{a}[:, 0]])', '{a} = np.hstack([{a}, col_{a}])', 'col_{a} = np.vstack((col_{a}, crn_{a}))'):
            w = tmpl.format(a=a)
            t, v = w.split(' = ', 1)
            expect_stmt(res, 'SIB', f, t + ' = ' + nf_text(v), f'{a}: edge statistics appended like its siblings')


def box_statistics(repo, res):
    f = repo.method(B2D, '_compute_box_statistics')
    pool = [s for s in ast.walk(f.node) if isinstance(s, ast.Assign)]
    # boxes are sigma-clipped once, before both estimators: through the private helper or directly
    clip_forms = ('data = ' + nf_text('self._sigmaclip_boxes(data, axis=axis)'),
                  'data = ' + nf_text('self.sigma_clip(data, axis=axis, masked=False, copy=False)'))
    okc = any(SP.nf_stmt(s_) in clip_forms for s_ in pool)
    res.oblige('SPEC', '_compute_box_statistics: boxes are sigma-clipped once', okc, nontrivial=True)
    if not okc:
        res.add(Finding('SPEC', f.fullname, 'boxes are sigma-clipped once', f.loc,
                        '_compute_box_statistics: boxes are sigma-clipped once - none of ' + ' / '.join(clip_forms) + ' found', {}))
    for w, meaning in (('bkg = ' + nf_text('self.bkg_estimator(data, axis=axis)'), 'background estimator on the clipped box pixels'),
                       ('bkgrms = ' + nf_text('self.bkgrms_estimator(data, axis=axis)'), 'rms estimator on the same pixels'),
                       ('ngood = ' + nf_text('np.count_nonzero(~np.isnan(data), axis=axis)'), 'number of good pixels per box'),
                       ('box_mask = ' + nf_text('ngood <= self._good_npixels_threshold'), 'boxes with too few good pixels are excluded')):
        expect_stmt(res, 'SPEC', f, w, meaning, pool)
    # every exclusion applied to bkg is applied to bkgrms (mirror), in both the array and the scalar branch
    for s in pool:
        t = s.targets[0]
        base = t.value if isinstance(t, ast.Subscript) else t
        if isinstance(base, ast.Name) and base.id == 'bkg' and nf(s.value) in (nf_text('np.nan'), nf_text('np.float32(np.nan)')):
            want = SP.nf_stmt(rename(s, {'bkg': 'bkgrms'}))
            ok = any(SP.nf_stmt(x) == want for x in pool)
            res.oblige('MIRROR', f'_compute_box_statistics: `{norm_stmt_text(s)}` has its bkgrms twin', ok, nontrivial=True)
            if not ok:
                res.add(Finding('MIRROR', f.fullname, norm_stmt_text(s), f'{f.module.relpath}:{s.lineno}',
                                f'_compute_box_statistics excludes a box from the background (`{norm_stmt_text(s)}`) but not from the '
                                f'background RMS: the rms mesh keeps the raw statistic of an excluded box', {}))
    SP.returns_tuple_slots(repo, res, 'T-SLOT', f'{B2D}._compute_box_statistics', ['bkg', 'bkgrms', 'ngood'], '(bkg, bkgrms, ngood)')


def masks_and_fill(repo, res):
    f = repo.method(B2D, '_combine_all_masks')
    expect_stmt(res, 'D1', f, 'total_mask = ' + nf_text('np.logical_or(input_mask, mask)'), 'total mask = input masks | non-finite mask (new array)')
    rets = sorted(nf(n.value) for n in ast.walk(f.node) if isinstance(n, ast.Return) and n.value is not None)
    ok = rets == ['mask', 'total_mask']
    res.oblige('D1', '_combine_all_masks returns the union on every path', ok, nontrivial=True, sample={'returns': rets})
    if not ok:
        res.add(Finding('D1', f.fullname, 'returned masks', f.loc, f'_combine_all_masks must return the non-finite mask or its union with the input masks; returns {rets}', {}))
    g = repo.method(B2D, '_combine_input_masks')
    expect_stmt(res, 'D1', g, 'mask = ' + nf_text('np.logical_or(self._mask, self.coverage_mask)'), 'input mask | coverage mask')
    h = repo.method(B2D, '_calculate_image')
    expect_stmt(res, 'D2', h, nf_text('data[self.coverage_mask]') + ' = ' + nf_text('self.fill_value'), 'coverage-masked pixels receive fill_value after interpolation')
    expect_stmt(res, 'D2', h, 'data = ' + nf_text('self.interpolator(data, **self._interp_kwargs)'), 'mesh interpolated to the full image')
    for prop, mesh in (('background', 'background_mesh'), ('background_rms', 'background_rms_mesh')):
        p = repo.method(B2D, prop)
        SP.returns_match(repo, res, 'D2', f'{B2D}.{prop}', [f'self._calculate_image(self.{mesh})'], f'the full-size map of {mesh}')


def dispatch(repo, res):
    m = repo.get_module('photutils.utils._stats')
    src = m.source
    tree = m.tree
    bn = npf = None
    for n in ast.walk(tree):
        if isinstance(n, ast.Assign) and len(n.targets) == 1 and isinstance(n.targets[0], ast.Name) \
                and isinstance(n.value, (ast.Dict, ast.DictComp)):
            if isinstance(n.value, ast.Dict):
                keys = sorted(k.value for k in n.value.keys if isinstance(k, ast.Constant))
            else:
                # {name: ... for name in <literal tuple, possibly through a module-level name>}
                g_ = n.value.generators[0]
                it = g_.iter
                if isinstance(it, ast.Name):
                    lit = [a_.value for a_ in ast.walk(tree) if isinstance(a_, ast.Assign) and len(a_.targets) == 1
                           and isinstance(a_.targets[0], ast.Name) and a_.targets[0].id == it.id]
                    it = lit[0] if len(lit) == 1 else it
                if not (len(n.value.generators) == 1 and not g_.ifs and isinstance(it, (ast.Tuple, ast.List))
                        and isinstance(n.value.key, ast.Name) and isinstance(g_.target, ast.Name) and n.value.key.id == g_.target.id):
                    continue
                keys = sorted(e.value for e in it.elts if isinstance(e, ast.Constant))
            if n.targets[0].id == 'bn_funcs':
                bn = keys
            if n.targets[0].id == 'np_funcs':
                npf = keys
    ok = bn is not None and bn == npf
    res.oblige('SIB', 'bottleneck and numpy dispatch tables have the same keys', ok, nontrivial=True, sample={'keys': bn})
    if not ok:
        res.add(Finding('SIB', 'photutils.utils._stats', 'dispatch tables', m.relpath, f'bn_funcs keys {bn} != np_funcs keys {npf}', {}))
    # the dispatcher, by path summary: bottleneck for 8-byte floats only (it accumulates float32 in single precision)
    from .. import pathsum as PS
    wr = [n for n in ast.walk(tree) if isinstance(n, ast.FunctionDef) and n.name == 'wrapped']
    if len(wr) != 1:
        raise AnalysisError('vanished anchor: photutils.utils._stats._dtype_dispatch.wrapped')
    ref = PS.parse_ref('''
def wrapped(*args, **kwargs):
    if args[0].dtype.str[1:] == 'f8':
        return bn_funcs[func_name](*args, **kwargs)
    return np_funcs[func_name](*args, **kwargs)
''')
    try:
        diff = PS.compare(wr[0], ref)
    except PS.TooComplex as exc:
        raise AnalysisError(f'_dtype_dispatch.wrapped: path summary not computable ({exc})')
    ok = diff is None
    res.oblige('SPEC', 'only float64 arrays are dispatched to bottleneck (float32 accumulates inaccurately there)', ok, nontrivial=True)
    if not ok:
        res.add(Finding('SPEC', 'photutils.utils._stats._dtype_dispatch', 'dispatch condition', m.relpath,
                        "the bottleneck dispatch must be restricted to 8-byte floats (`dtype.str[1:] == 'f8'`): bottleneck accumulates "
                        f'float32 in single precision, so a constant float32 image would no longer give RMS 0 ({diff})', {}))
    # every public nan-function is bound in both branches
    names = ['nansum', 'nanmin', 'nanmax', 'nanmean', 'nanmedian', 'nanstd', 'nanvar']
    for nm in names:
        cnt = len([n for n in ast.walk(tree) if isinstance(n, ast.Assign) and isinstance(n.targets[0], ast.Name) and n.targets[0].id == nm])
        ok = cnt == 2
        res.oblige('SIB', f'{nm} is defined with and without bottleneck', ok, nontrivial=False)
        if not ok:
            res.add(Finding('SIB', 'photutils.utils._stats', nm, m.relpath, f'{nm} must be bound in both the bottleneck and the numpy branch', {}))
        # bound to the function of the same name
    for n in ast.walk(tree):
        if isinstance(n, ast.Assign) and isinstance(n.targets[0], ast.Name) and n.targets[0].id in names:
            v = unparse(n.value, 0)
            ok = v in (f"_dtype_dispatch('{n.targets[0].id}')", f'np.{n.targets[0].id}')
            res.oblige('SIB', f'{n.targets[0].id} bound to the statistic of the same name', ok, nontrivial=True)
            if not ok:
                res.add(Finding('SIB', 'photutils.utils._stats', norm_stmt_text(n), f'{m.relpath}:{n.lineno}',
                                f'`{norm_stmt_text(n)}` binds a nan-statistic to a different function', {}))


def run(repo, tier):
    res = Result(PROP)
    res.explanation = (
        'Mask-blindness plumbing decided structurally: LP4 (each of the four box blocks takes a COPY of the same region of data and mask and '
        'NaN-fills it with its own mask before the statistics), MIRROR/T-SLOT (every exclusion applied to the background mesh is applied to '
        'the RMS mesh; (bkg, bkgrms, ngood) slot order), D1 (masks are unions on every path, built as new arrays), D2 (coverage fill after '
        'interpolation on every path), SIB/SPEC (bottleneck/numpy dispatch tables agree; only float64 goes to bottleneck), DEADSTORE '
        '(no assigned-but-unread local: catches misspelt targets), L1/L3 instances of C09 that live here, FWD, A1.')
    res.not_decided = ('finiteness of the maps, exact reproduction of a constant image, shift/scale equivariance, clipping range of the zoom '
                       'interpolator and the IDW values: numerical, not decided.')
    res.assumptions = ['astropy reshape_as_blocks returns a view; SigmaClip(masked=False, copy=False) works on the copy made by the block']
    box_blocks(repo, res)
    box_statistics(repo, res)
    masks_and_fill(repo, res)
    dispatch(repo, res)
    run_deadstore(repo, res, MODS)
    lcs = LR.lazy_classes(repo, only={B2D})
    LR.run_L1(repo, res, PROP, lcs)
    LR.run_L3(repo, res, PROP, lcs)
    run_forward(repo, res, MODS)
    run_axis(repo, res, MODS)
    a1_collect(repo, res, modules={'photutils.background.background_2d', 'photutils.background.interpolators', 'photutils.background.core'})
    from .common import run_nonfinite, run_scale_free, guard_only
    run_nonfinite(repo, res, MODS)
    run_scale_free(repo, res, MODS)
    # the clip of the zoomed map to the range of the mesh depends on `clip` alone
    zi = repo.method('photutils.background.interpolators.BkgZoomInterpolator', '__call__')
    clips = [c for c in SP.find_calls(zi.node, 'clip')]
    if len(clips) != 1:
        raise AnalysisError('vanished anchor: BkgZoomInterpolator.__call__ np.clip call')
    guard_only(res, 'GUARD', zi, clips[0], {'self.clip'}, 'the clip of the interpolated map to [min, max] of the mesh',
               'with clip=True the full map can leave the range of the mesh (spline overshoot; negative RMS)')
    expect_stmt(res, 'SPEC', zi, nf_text('np.clip(result, minval, maxval, out=result)'), 'map clipped to the mesh range')
    expect_stmt(res, 'SPEC', zi, 'minval = ' + nf_text('np.min(data)'), 'lower clip bound = minimum of the mesh')
    expect_stmt(res, 'SPEC', zi, 'maxval = ' + nf_text('np.max(data)'), 'upper clip bound = maximum of the mesh')
    # selective filter: the boxes to filter are chosen from the BACKGROUND mesh for both meshes
    sf = repo.method(B2D, '_selective_filter')
    cmps = [c for c in ast.walk(sf.node) if isinstance(c, ast.Compare) and 'filter_threshold' in unparse(c, 0)]
    if len(cmps) != 1:
        raise AnalysisError('vanished anchor: Background2D._selective_filter threshold comparison')
    from ..expr import Inliner
    lhs = cmps[0].left
    src = unparse(lhs, 0)
    if isinstance(lhs, ast.Name):
        defs = [a for a in ast.walk(sf.node) if isinstance(a, ast.Assign) and len(a.targets) == 1
                and isinstance(a.targets[0], ast.Name) and a.targets[0].id == lhs.id]
        if len(defs) == 1:
            src = unparse(defs[0].value, 0)
    ok = '_bkg_stats' in src and isinstance(cmps[0].ops[0], ast.Gt) and nf(cmps[0].comparators[0]) == 'self.filter_threshold'
    res.oblige('SPEC', '_selective_filter selects the boxes whose BACKGROUND value exceeds filter_threshold', ok, nontrivial=True,
               sample={'compared': src})
    if not ok:
        res.add(Finding('SPEC', sf.fullname, 'selective filter selection', f'{sf.module.relpath}:{cmps[0].lineno}',
                        f'Background2D._selective_filter compares `{src}` with filter_threshold: the boxes to filter are documented to be '
                        f'those whose background (self._bkg_stats) exceeds it, for the background and the RMS mesh alike', {}))
    res.floor('LP4', 9)
    res.floor('MIRROR', 2)
    res.floor('SIB', 20)
    res.floor('DEADSTORE', 100)
    res.floor('L3', 8)
    res.floor('SCALE', 40)
    from .common import apply_specs
    BW = 'photutils.extern.biweight.'
    apply_specs(repo, res, [
        ('photutils.background.background_2d.Background2D._validate_array', 'rawstmt', 'array = np.asanyarray(array)',
         'input arrays keep their subclass (a MaskedArray keeps its mask, which is merged into the mask later)'),
        (BW + 'biweight_location', 'stmt', 'u = d / (c * mad)', 'deviations scaled by c * MAD (no substitute scale)'),
        (BW + 'biweight_location', 'ret', 'M ||| M.squeeze(axis=axis) ||| value ||| where_func(mad.squeeze(axis=axis) == 0, M.squeeze(axis=axis), value) ||| M.squeeze(axis=axis) + sum_func(d * u, axis=axis) / sum_func(u, axis=axis)',
         'the median where MAD == 0, the biweight location elsewhere'),
    ])
    from .common import run_clone_pairs
    run_clone_pairs(repo, res, {m for m in repo.modules if m.startswith('photutils.background') and '.tests' not in m})
    from .common import run_loopvar_used, run_no_overwrite_input
    run_loopvar_used(repo, res, MODS)
    run_no_overwrite_input(repo, res, MODS)
    fg = repo.method(B2D, '_filter_grid')
    tests = [n_.test for n_ in ast.walk(fg.node) if isinstance(n_, ast.If)]
    okf = any('self.filter_threshold < self._min_bkg_stats' in unparse(t_, 0).replace('(', '').replace(')', '') for t_ in tests)
    res.oblige('SPEC', '_filter_grid filters the whole mesh iff the threshold is below the smallest BACKGROUND statistic', okf, nontrivial=True)
    if not okf:
        res.add(Finding('SPEC', fg.fullname, 'whole-mesh filter decision', fg.loc,
                        '_filter_grid must compare filter_threshold with self._min_bkg_stats (minimum of the background statistics) for '
                        'both meshes; comparing with the mesh it was handed filters the RMS mesh at other boxes than the background mesh', {}))
    apply_specs(repo, res, [(B2D + '.__init__', 'stmt', 'self._min_bkg_stats = nanmin(self._bkg_stats)',
                             'smallest BACKGROUND statistic kept for the filter decision')])
    if repo.functions.get(B2D + '._sigmaclip_boxes') is not None:
        apply_specs(repo, res, [(B2D + '._sigmaclip_boxes', 'stmt', 'data = self.sigma_clip(data, axis=axis, masked=False, copy=False)',
                                 'boxes clipped along the axis (or axes) the caller names: the corner box is ONE sample')])
    from .common import run_generic_pack
    run_generic_pack(repo, res, PROP, MODS)
    return res
