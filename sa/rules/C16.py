"""C16 - ApertureStats values equal direct statistics of the aperture pixel set."""
from __future__ import annotations

import ast
import re

from ..core import AnalysisError, norm_stmt_text, unparse, enclosing_stmt
from ..report import Finding, Result
from ..expr import nf, nf_text
from ..lazy import LazyClass, self_attr
from .. import spec as SP
from .. import guards as G
from ..forward import run_forward
from .common import run_loops, run_axis, expect_stmt
from .C10 import collect as a1_collect, get_alias
from .C08 import scalar_rules

PROP = 'C16'
AS = 'photutils.aperture.stats.ApertureStats'
MODS = {'photutils.aperture.stats', 'photutils.utils._moments', 'photutils.morphology.non_parametric'}
SUM_FAMILY_PUBLIC = ('sum', 'sum_err', 'sum_aper_area', 'data_sumcutout', 'error_sumcutout')
SLOTS = ['data', 'variance', 'mask', 'weight', 'overlap']


def family_rules(repo, res):
    cls = repo.get_class(AS)
    lc = LazyClass(repo, cls)

    def family(name):
        d = lc.deps(name)
        c = '@_aperture_cutouts_center' in d or name == '_aperture_cutouts_center'
        s = '@_aperture_cutouts' in d or name == '_aperture_cutouts'
        return c, s
    for pub in SUM_FAMILY_PUBLIC:
        f = lc.members.get(pub)
        if f is None:
            raise AnalysisError(f'vanished anchor: ApertureStats.{pub}')
        for node in ast.walk(f.node):
            a = self_attr(node)
            if a is None or not isinstance(node.ctx, ast.Load) or a not in lc.members:
                continue
            c, s = family(a)
            if not c or s:
                continue          # not a centre-only member
            g = G.guard_of(node, f.node)
            ok = any("self.sum_method == 'center'" in at for at in G.atoms(g))
            res.oblige('T-FAMILY', f'ApertureStats.{pub}: centre-family `{a}` used only when sum_method is center', ok, nontrivial=True,
                       sample={'property': pub, 'member': a})
            if not ok:
                st = enclosing_stmt(node)
                res.add(Finding('T-FAMILY', f.fullname, norm_stmt_text(st), f'{f.module.relpath}:{node.lineno}',
                                f'ApertureStats.{pub} (sum_method family) reads `{a}`, which is derived from the "center"-method cutouts: '
                                f'a small aperture with positive exact weights but no pixel centre inside gets the wrong mask/NaN', {}))
    # sum-family public properties do depend on the sum-method cutouts
    for pub in SUM_FAMILY_PUBLIC:
        c, s = family(pub)
        res.oblige('T-FAMILY', f'ApertureStats.{pub} derives from the sum_method cutouts', s, nontrivial=True)
        if not s:
            res.add(Finding('T-FAMILY', f'{AS}.{pub}', 'no dependence on _aperture_cutouts', lc.members[pub].loc,
                            f'ApertureStats.{pub} no longer derives from the sum_method aperture cutouts', {}))
    # T-SLOT: consumers index the cutout tuples with the slot their name says
    want = {'_mask_cutout_center': 2, '_mask_cutout': 2, 'data_cutout': 0, 'data_sumcutout': 0, '_variance_cutout_center': 1,
            '_variance_cutout': 1, '_weight_cutout_center': 3, '_weight_cutout': 3, '_overlap': 4}
    for name, k in want.items():
        f = lc.members.get(name)
        if f is None:
            raise AnalysisError(f'vanished anchor: ApertureStats.{name}')
        src = 'self._aperture_cutouts_center' if (name.endswith('_center') or name in ('data_cutout', '_overlap')) else 'self._aperture_cutouts'
        pat = nf_text(f'list(zip(*{src}, strict=True))[{k}]')
        hits = [n for n in ast.walk(f.node) if isinstance(n, ast.Subscript) and nf(n) == pat]
        ok = len(hits) == 1
        res.oblige('T-SLOT', f'ApertureStats.{name} takes slot {k} ({SLOTS[k]}) of {src}', ok, nontrivial=True)
        if not ok:
            res.add(Finding('T-SLOT', f.fullname, f'slot {k} of {src}', f.loc,
                            f'ApertureStats.{name} must take slot {k} ({SLOTS[k]}) of `{src}` (tuple order data, variance, mask, weight, overlap)', {}))
    f = lc.members['_make_aperture_cutouts']
    rets = [n for n in ast.walk(f.node) if isinstance(n, ast.Return)]
    ok = len(rets) == 1 and nf(rets[0].value) == nf_text('list(zip(data_cutouts, variance_cutouts, mask_cutouts, weight_cutouts, overlaps, strict=True))')
    res.oblige('T-SLOT', '_make_aperture_cutouts returns (data, variance, mask, weight, overlap) tuples', ok, nontrivial=True)
    if not ok:
        res.add(Finding('T-SLOT', f.fullname, 'return tuple order', f.loc, '_make_aperture_cutouts must zip (data, variance, mask, weight, overlap) in that order', {}))
    for lst, val in (('data_cutouts', 'data_cutout'), ('variance_cutouts', 'variance_cutout'), ('mask_cutouts', 'mask_cutout'),
                     ('weight_cutouts', 'weight_cutout'), ('overlaps', 'overlap')):
        expect_stmt(res, 'T-SLOT', f, nf_text(f'{lst}.append({val})'), f'{lst} receives {val}')


def cutout_rules(repo, res):
    f = repo.method(AS, '_make_aperture_cutouts')
    loops = [n for n in ast.walk(f.node) if isinstance(n, ast.For)]
    if len(loops) != 1:
        raise AnalysisError('_make_aperture_cutouts: per-aperture loop not found')
    loop = loops[0]
    branch = [n for n in loop.body if isinstance(n, ast.If)]
    if not branch or nf(branch[0].test) != nf_text('slc_large is None'):
        raise AnalysisError('_make_aperture_cutouts: no-overlap branch not found')
    ov = branch[0].orelse
    pool = [s for st in ov for s in ast.walk(st) if isinstance(s, (ast.Assign, ast.AugAssign))]
    want = [
        ('data_mask = ' + nf_text('~np.isfinite(data_cutout)'), 'non-finite data pixels are masked'),
        ('data_mask BitOr= ' + nf_text('self._mask[slc_large]'), 'input mask (large slices) joined'),
        ('aperweight_cutout = ' + nf_text('apermask.data[slc_small]'), 'aperture weights cut with the small slices'),
        ('weight_cutout = ' + nf_text('aperweight_cutout * ~data_mask'), 'weights zeroed where masked'),
        ('mask_cutout = ' + nf_text('(aperweight_cutout == 0) | data_mask'), 'total mask = outside aperture | data mask'),
        ('data_cutout = ' + nf_text('data_cutout.copy()'), 'the local-background-subtracted cutout is copied before weighting'),
        ('data_cutout Mult= ' + nf_text('~mask_cutout'), 'masked pixels zeroed (no sigma clip)'),
        ('sigclip_mask = ' + nf_text('data_sigclip.mask & ~mask_cutout'), 'pixels rejected by the sigma clip only'),
        ('weight_cutout Mult= ' + nf_text('~sigclip_mask'), 'clipped pixels get zero weight'),
        ('mask_cutout = ' + nf_text('data_sigclip.mask'), 'clip mask folded into the total mask'),
        ('data_cutout Mult= aperweight_cutout', 'aperture weights applied to the data'),
        ('variance = ' + nf_text('self._error[slc_large]**2'), 'variance from the error cutout (large slices)'),
        ('variance_cutout = ' + nf_text('variance * aperweight_cutout * ~mask_cutout'), 'variance weighted and masked like the data'),
    ]
    for w, meaning in want:
        expect_stmt(res, 'SPEC', f, w, meaning, pool)
    # ORDER: the weights are applied after the sigma clip has seen the unweighted values
    idx_clip = idx_w = None
    early_weight = False
    for i, st in enumerate(ov):
        src = ast.unparse(st)
        if 'self.sigma_clip(' in src and idx_clip is None:
            idx_clip = i
        for s in ast.walk(st):
            if isinstance(s, ast.AugAssign) and SP.nf_stmt(s) == 'data_cutout Mult= aperweight_cutout':
                idx_w = i
            if isinstance(s, ast.Assign) and unparse(s.targets[0]) == 'data_cutout' and 'aperweight_cutout' in unparse(s.value, 0):
                early_weight = True
    ok = idx_clip is not None and idx_w is not None and idx_w > idx_clip and not early_weight
    res.oblige('ORDER', 'aperture weights are multiplied in after the sigma clip', ok, nontrivial=True,
               sample={'clip_stmt_index': idx_clip, 'weight_stmt_index': idx_w})
    if not ok:
        res.add(Finding('ORDER', f.fullname, 'weights vs sigma clip order', f'{f.module.relpath}:{loop.lineno}',
                        '_make_aperture_cutouts: the aperture weights must be applied to the data after the sigma clip (the clip has to '
                        'see unweighted pixel values, otherwise pixels are rejected because of their fractional weight)', {}))
    # no-overlap branch yields NaN / False for all five slots
    nb = {unparse(s.targets[0]): nf(s.value) for s in branch[0].body if isinstance(s, ast.Assign)}
    wantn = {'overlap': 'False', 'data_cutout': nf_text('np.array([np.nan])'), 'variance_cutout': nf_text('np.array([np.nan])'),
             'mask_cutout': nf_text('np.array([False])'), 'weight_cutout': nf_text('np.array([np.nan])')}
    ok = nb == wantn
    res.oblige('SPEC', 'no-overlap apertures yield NaN data/variance/weight, False mask, overlap False', ok, nontrivial=True, sample={'branch': nb})
    if not ok:
        res.add(Finding('SPEC', f.fullname, 'no-overlap branch', f'{f.module.relpath}:{branch[0].lineno}',
                        f'_make_aperture_cutouts: the no-overlap branch must set all five slots to NaN/False placeholders; found {nb}', {}))
    # local background subtracted exactly once, on a float copy of the cutout
    g = repo.method(AS, '_data_cutouts')
    expect_stmt(res, 'SPEC', g, 'cutout = ' + nf_text('self._data[slices[0]].astype(float, copy=True) - local_bkg'),
                'per-aperture cutout = float copy of the data minus this position\'s local background')
    h = repo.method(AS, '_moment_data_cutout')
    expect_stmt(res, 'SPEC', h, nf_text('arr_[arr.mask]') + ' = ' + nf_text('0.0'), 'masked pixels contribute zero to the moments')
    expect_stmt(res, 'SPEC', h, 'data = ' + nf_text('deepcopy(self.data_cutout)'), 'moments work on a deep copy of the cutouts')
    # sums go through _get_values (NaN for apertures without an unmasked pixel)
    sm = repo.method(AS, 'sum')
    expect_stmt(res, 'SPEC', sm, 'data_values = ' + nf_text('self._get_values(self.data_sumcutout)'), 'sum: unmasked weighted values (NaN placeholder when none)')
    expect_stmt(res, 'SPEC', sm, 'result = ' + nf_text('np.array([np.sum(arr) for arr in data_values])'), 'sum over those values')
    se = repo.method(AS, 'sum_err')
    expect_stmt(res, 'SPEC', se, 'var_values = ' + nf_text('[arr.compressed() if len(arr.compressed()) > 0 else np.array([np.nan]) for arr in variance]'),
                'sum_err: unmasked variances (NaN placeholder when none)')
    expect_stmt(res, 'SPEC', se, 'err = ' + nf_text('np.sqrt([np.sum(arr) for arr in var_values])'), 'sum_err = sqrt of the summed variance')
    gv = repo.method(AS, '_get_values')
    SP.returns_match(repo, res, 'SPEC', f'{AS}._get_values', ['[arr.compressed() if len(arr.compressed()) > 0 else np.array([np.nan]) for arr in array]'],
                     'compressed values, a single NaN for completely masked apertures')
    cs = repo.method(AS, '_calculate_stats')
    expect_stmt(res, 'SPEC', cs, 'result = ' + nf_text('np.array([stat_func(arr) for arr in self._data_values_center])'), 'statistics over the centre-method unmasked values')
    # centroid re-based with the origin of the (clipped) cutout
    c = repo.method(AS, 'centroid')
    src = ast.unparse(c.node)
    ok = '_overlap_slices' in src and 'slc_large[1].start' in src and 'slc_large[0].start' in src and 'bbox_xmin' not in src
    res.oblige('T-FRAME', 'centroid = cutout centroid + origin of the clipped cutout (overlap slices start, x from axis 1)', ok, nontrivial=True)
    if not ok:
        res.add(Finding('T-FRAME', c.fullname, 'centroid origin', c.loc,
                        'ApertureStats.centroid must re-base the cutout-relative centroid with the start of the overlap slices '
                        '(x: slc_large[1].start, y: slc_large[0].start); the aperture bounding-box origin is wrong for apertures '
                        'clipped at the left/bottom image edge', {}))
    from ..expr import Inliner
    rets = Inliner(c.node).returns
    want_ret = nf_text('self.cutout_centroid + np.array([(np.nan, np.nan) if slc_large is None else (slc_large[1].start, slc_large[0].start) '
                       'for slc_large, _ in self._overlap_slices])')
    ok = len(rets) == 1 and nf(rets[0][0]) == want_ret
    res.oblige('T-FRAME', 'centroid returns cutout_centroid + origin', ok, nontrivial=True)
    if not ok:
        res.add(Finding('T-FRAME', c.fullname, 'centroid return', c.loc, 'ApertureStats.centroid must return cutout_centroid + origin', {}))


def run(repo, tier):
    res = Result(PROP)
    res.explanation = (
        'Pixel-set plumbing decided structurally: T-FAMILY (sum-method properties never read centre-method masks outside the '
        'sum_method == center branch), T-SLOT (each cutout consumer takes the slot its name says from the (data, variance, mask, '
        'weight, overlap) tuples), SPEC/ORDER (mask = non-finite | input mask; weights zeroed where masked; sigma-clip mask folded in; '
        'aperture weights applied after the clip; variance weighted/masked like the data; NaN placeholders without overlap; local '
        'background subtracted once on a float copy; masked pixels zeroed for the moments), T-FRAME (centroid re-based with the clipped '
        'cutout origin), SCALAR-SHAPE (shared with C08), LP1/LP1b (no state carried between positions), T-AXIS/T-MIRROR, FWD, A1.')
    res.not_decided = 'the statistics themselves (mean/median/biweight/moment arithmetic).'
    res.assumptions = ['SigmaClip on a MaskedArray returns a MaskedArray whose mask includes the input mask']
    family_rules(repo, res)
    cutout_rules(repo, res)
    scalar_rules(repo, res, AS)
    run_loops(repo, res, MODS, rules=('LP1', 'LP1b'))
    run_forward(repo, res, MODS)
    run_axis(repo, res, MODS)
    a1_collect(repo, res, modules={'photutils.aperture.stats'})
    from .common import run_nonfinite
    run_nonfinite(repo, res, MODS)
    res.floor('T-FAMILY', 5)
    res.floor('T-SLOT', 14)
    res.floor('SPEC', 15)
    from .common import run_clones, run_loop_twin
    if run_clones(repo, res) < 25:
        raise AnalysisError('vanished anchor: cloned shape/moment methods of SourceCatalog and ApertureStats')
    run_loop_twin(repo, res, {'photutils.segmentation.catalog', 'photutils.aperture.stats'})
    from .common import apply_specs, run_cast_to_data_dtype
    ASD = 'photutils.aperture.stats.ApertureStats.'
    apply_specs(repo, res, [
        (ASD + '_aperture_masks', 'stmt', 'aperture_masks = self._pixel_aperture.to_mask(method=self.sum_method, subpixels=self.subpixels)',
         'the masks of the configured sum_method/subpixels'),
        (ASD + '_aperture_masks', 'nret', '1', 'one exit: no shortcut through the centre masks (subpixels is ignored for exact, so subpixels == 1 does not mean centre)'),
        (ASD + '_aperture_masks_center', 'stmt', "aperture_masks = self._pixel_aperture.to_mask(method='center')", 'the centre-method masks'),
        (ASD + '_aperture_masks_center', 'nret', '1', 'one exit'),
    ])
    run_cast_to_data_dtype(repo, res, {'photutils.aperture.stats', 'photutils.aperture.core', 'photutils.aperture.photometry', 'photutils.aperture.mask'})
    apply_specs(repo, res, [
        (ASD + 'cutout_centroid', 'stmt', 'ycentroid = moments[:, 1, 0] / moments[:, 0, 0]', 'y centroid = m10 / m00 (any sign of m00)'),
        (ASD + 'cutout_centroid', 'stmt', 'xcentroid = moments[:, 0, 1] / moments[:, 0, 0]', 'x centroid = m01 / m00 (any sign of m00)'),
    ])
    # the property goes through BoundingBox.from_float / get_overlap_slices: C01's rules for them are its rules too
    from .C01 import bbox_rules as _c01_bbox_rules
    _c01_bbox_rules(repo, res)
    from .common import run_generic_pack
    run_generic_pack(repo, res, PROP, MODS)
    return res
