"""Undo behaviour-preserving refactorings before the rules run (in memory, on the parsed tree).

The rules and specs speak about the code in the shape of the reference tree.  Two refactorings change that shape without
changing behaviour and are undone here, guided by the reference table of `sa/canon.py` (which functions and which locals
the reference tree has):

* extract-helper: a private function/method that the reference tree does not have and that is called from a reference
  function is inlined at its call sites (parameters substituted, `return` turned into the assignment/return/expression of the
  call site; only when every `return` is in tail position);
* introduce-temporary: a local the reference function does not have, assigned once from an expression whose inputs are not
  reassigned before its uses, is substituted into its uses (also `a, b = pair` tuple unpackings).

Everything is conservative: when a precondition fails the code is left as it is, and the rules see it as written.  What was
undone is recorded (`Repo.normalizations`) and shown in the evidence.
"""
from __future__ import annotations

import ast
import copy

from . import canon


def _clone(n):
    # not copy.deepcopy: expr_context nodes (ast.Load()) are shared singletons that carry a `_parent` back link from
    # earlier modules, through which deepcopy would copy whole module trees
    from .expr import clone
    return clone(n)


def _docless(body):
    if body and isinstance(body[0], ast.Expr) and isinstance(body[0].value, ast.Constant) and isinstance(body[0].value.value, str):
        return body[1:]
    return body


def _params(fn):
    a = fn.args
    return [x.arg for x in a.posonlyargs + a.args], [x.arg for x in a.kwonlyargs], a


class _Subst(ast.NodeTransformer):
    def __init__(self, mapping):
        self.mapping = mapping

    def visit_Name(self, node):
        if node.id in self.mapping and isinstance(node.ctx, ast.Load):
            return _clone(self.mapping[node.id])
        if node.id in self.mapping and isinstance(self.mapping[node.id], ast.Name):
            return ast.Name(id=self.mapping[node.id].id, ctx=node.ctx)
        return node


def _bind_args(helper, call, is_method, static):
    """param -> argument expression (None when the call does not fit)."""
    pos, kwonly, a = _params(helper)
    if is_method and not static:
        pos = pos[1:]
    if any(isinstance(x, ast.Starred) for x in call.args) or any(k.arg is None for k in call.keywords) or a.vararg or a.kwarg:
        return None
    if len(call.args) > len(pos):
        return None
    m = {}
    for p, v in zip(pos, call.args):
        m[p] = v
    for k in call.keywords:
        if k.arg in m or k.arg not in pos + kwonly:
            return None
        m[k.arg] = k.value
    # defaults
    defaults = dict(zip([x.arg for x in (a.posonlyargs + a.args)][len(a.posonlyargs + a.args) - len(a.defaults):], a.defaults))
    for x, d in zip(a.kwonlyargs, a.kw_defaults):
        if d is not None:
            defaults[x.arg] = d
    for p in pos + kwonly:
        if p not in m:
            if p in defaults:
                m[p] = defaults[p]
            else:
                return None
    return m


def _always_exits(stmts):
    if not stmts:
        return False
    last = stmts[-1]
    if isinstance(last, (ast.Return, ast.Raise)):
        return True
    if isinstance(last, ast.If):
        return _always_exits(last.body) and _always_exits(last.orelse)
    return False


def _has_return(node):
    return any(isinstance(x, ast.Return) for x in ast.walk(node))


def _returns_to(stmts, make):
    """Rewrite tail-position returns with make(expr) -> [stmts]; None if a return is not in tail position."""
    out = []
    for i, st in enumerate(stmts):
        if isinstance(st, ast.Return):
            out.extend(make(st.value if st.value is not None else ast.Constant(value=None)))
            return out          # anything after a return is dead
        if isinstance(st, ast.If) and (_has_return(st)):
            rest = stmts[i + 1:]
            if _always_exits(st.body) and not any(isinstance(x, ast.Raise) for x in st.body[-1:]):
                body = _returns_to(st.body, make)
                orelse = _returns_to(list(st.orelse) + rest, make)
                if body is None or orelse is None:
                    return None
                out.append(ast.If(test=st.test, body=body or [ast.Pass()], orelse=orelse))
                return out
            if _always_exits(st.body) and isinstance(st.body[-1], ast.Raise) and not _has_return(ast.Module(body=st.body, type_ignores=[])):
                out.append(st)
                continue
            return None
        if _has_return(st):
            return None         # return inside a loop / try / with
        out.append(st)
    return out


def _locals_of(fn):
    return {x.id for x in ast.walk(fn) if isinstance(x, ast.Name) and isinstance(x.ctx, ast.Store)}


def relocate_back(tree, modname, ref_functions, log):
    """A private function that moved between a class body (as a staticmethod) and the module level, unchanged in name:
    move it back to where the reference has it and address it as the reference does."""
    funcs = dict(canon._functions(tree, modname))
    present = set(funcs)
    missing = {}
    for q in ref_functions:
        if q.startswith(modname + '.') and q not in present and '<locals>' not in q:
            rest = q[len(modname) + 1:]
            if rest.count('.') <= 1:
                missing.setdefault(rest.rsplit('.', 1)[-1], []).append(q)
    if not missing:
        return
    classes = {c.name: c for c in tree.body if isinstance(c, ast.ClassDef)}
    for q, fn in list(funcs.items()):
        if q in ref_functions or '<locals>' in q:
            continue
        name = q.rsplit('.', 1)[-1]
        if not name.startswith('_') or name.startswith('__') or len(missing.get(name, ())) != 1:
            continue
        target = missing[name][0]
        t_owner = target[len(modname) + 1:].rsplit('.', 1)[0] if '.' in target[len(modname) + 1:] else None
        c_owner = q[len(modname) + 1:].rsplit('.', 1)[0] if '.' in q[len(modname) + 1:] else None
        static = any(isinstance(d, ast.Name) and d.id == 'staticmethod' for d in fn.decorator_list)
        if c_owner is None and t_owner in classes:
            # module level -> staticmethod of the class
            tree.body.remove(fn)
            fn.decorator_list = [ast.Name(id='staticmethod', ctx=ast.Load())] + list(fn.decorator_list)
            classes[t_owner].body.append(fn)
            for cname, cnode in classes.items():
                for c in ast.walk(cnode):
                    if isinstance(c, ast.Call) and isinstance(c.func, ast.Name) and c.func.id == name:
                        base = 'self' if cname == t_owner else t_owner
                        c.func = ast.copy_location(ast.Attribute(value=ast.Name(id=base, ctx=ast.Load()), attr=name,
                                                                 ctx=ast.Load()), c.func)
            for top in tree.body:
                if not isinstance(top, ast.ClassDef):
                    for c in ast.walk(top):
                        if isinstance(c, ast.Call) and isinstance(c.func, ast.Name) and c.func.id == name:
                            c.func = ast.copy_location(ast.Attribute(value=ast.Name(id=t_owner, ctx=ast.Load()), attr=name,
                                                                     ctx=ast.Load()), c.func)
            ast.fix_missing_locations(tree)
            log.append(('relocate', target, f'module-level {name} -> {t_owner}.{name}'))
        elif c_owner in classes and t_owner is None and static:
            classes[c_owner].body.remove(fn)
            fn.decorator_list = [d for d in fn.decorator_list if not (isinstance(d, ast.Name) and d.id == 'staticmethod')]
            idx = tree.body.index(classes[c_owner])
            tree.body.insert(idx, fn)
            for c in ast.walk(tree):
                if isinstance(c, ast.Call) and isinstance(c.func, ast.Attribute) and c.func.attr == name \
                        and isinstance(c.func.value, ast.Name) and c.func.value.id in ('self', 'cls', c_owner):
                    c.func = ast.copy_location(ast.Name(id=name, ctx=ast.Load()), c.func)
            ast.fix_missing_locations(tree)
            log.append(('relocate', target, f'{c_owner}.{name} -> module-level {name}'))


def inline_helpers(tree, modname, ref_functions, log):
    """Inline calls to private helpers the reference tree does not know."""
    funcs = dict(canon._functions(tree, modname))
    new_helpers = {}
    old_private = {}
    for q, fn in funcs.items():
        if '<locals>' in q:
            continue
        name = q.rsplit('.', 1)[-1]
        if not name.startswith('_') or name.startswith('__'):
            continue
        if q in ref_functions:
            old_private[q] = fn
        else:
            new_helpers[q] = fn
    ref_calls = canon.table().get('__calls__', {})
    for q, fn in funcs.items():
        if q not in ref_functions:
            continue
        owner = q.rsplit('.', 1)[0]          # module or module.Class
        # helpers to inline here: the new ones, and existing private helpers this function did not call in the reference tree
        called_before = set(ref_calls.get(q, ()))
        # a helper of the reference that no longer exists was inlined into this function: its callees are now called here
        present = {x.rsplit('.', 1)[-1] for x in funcs}
        for hname in list(called_before):
            if hname not in present:
                for hq, hc in ref_calls.items():
                    if hq.rsplit('.', 1)[-1] == hname and hq.rsplit('.', 1)[0] in (owner, modname):
                        called_before |= set(hc)
        cand = dict(new_helpers)
        for hq, hfn in old_private.items():
            hname = hq.rsplit('.', 1)[-1]
            if hname not in called_before and hq != q and (hq.rsplit('.', 1)[0] in (owner, modname)):
                cand[hq] = hfn
        if not cand:
            continue
        names = {h.rsplit('.', 1)[-1] for h in cand}
        if not any(isinstance(c, ast.Call) and ((isinstance(c.func, ast.Attribute) and c.func.attr in names)
                                                or (isinstance(c.func, ast.Name) and c.func.id in names)) for c in ast.walk(fn)):
            continue
        changed = True
        rounds = 0
        while changed and rounds < 4:
            changed = _inline_in(fn, owner, modname, cand, log, q)
            rounds += 1
    # a new helper every use of which was inlined is no longer part of the program the rules look at
    for hq, hfn in new_helpers.items():
        name = hq.rsplit('.', 1)[-1]
        used = False
        for x in ast.walk(tree):
            if x is hfn:
                continue
            if (isinstance(x, ast.Name) and x.id == name) or (isinstance(x, ast.Attribute) and x.attr == name) \
                    or (isinstance(x, ast.Constant) and x.value == name):
                if not any(y is x for y in ast.walk(hfn)):
                    used = True
                    break
        if used:
            continue
        for parent in ast.walk(tree):
            body = getattr(parent, 'body', None)
            if isinstance(body, list) and any(y is hfn for y in body) and len(body) > 1:
                body[:] = [y for y in body if y is not hfn]
                log.append(('drop-inlined-helper', hq, name))
                break


def _resolve(call, owner, modname, new_helpers):
    f = call.func
    if isinstance(f, ast.Name):
        q = f'{modname}.{f.id}'
        if q in new_helpers:
            return new_helpers[q], False, False
    if isinstance(f, ast.Attribute) and isinstance(f.value, ast.Name):
        base = f.value.id
        q = f'{owner}.{f.attr}'
        if base in ('self', 'cls') and q in new_helpers:
            h = new_helpers[q]
            static = any(isinstance(d, ast.Name) and d.id == 'staticmethod' for d in h.decorator_list)
            return h, True, static
        if base in ('self', 'cls') and owner != modname:
            # a helper added to a base class of the same module and called through self from a subclass
            cands = [hq for hq in new_helpers if hq.rsplit('.', 1)[-1] == f.attr and hq.startswith(modname + '.')
                     and hq.count('.') == owner.count('.') + 1]
            if len(cands) == 1:
                h = new_helpers[cands[0]]
                static = any(isinstance(d, ast.Name) and d.id == 'staticmethod' for d in h.decorator_list)
                return h, True, static
        if owner.endswith('.' + base) and q in new_helpers:
            h = new_helpers[q]
            static = any(isinstance(d, ast.Name) and d.id == 'staticmethod' for d in h.decorator_list)
            if static:
                return h, True, True
    return None, False, False


def _prepared_body(h, binding, caller_locals):
    """Helper body with parameters substituted (Name args renamed, other args bound by an assignment first)."""
    pre = []
    mapping = {}
    stored = {x.id for x in ast.walk(h) if isinstance(x, ast.Name) and isinstance(x.ctx, ast.Store)}
    for p, v in binding.items():
        if isinstance(v, (ast.Name, ast.Constant)) or (isinstance(v, ast.Attribute) and p not in stored):
            mapping[p] = v
        elif p in stored:
            pre.append(ast.Assign(targets=[ast.Name(id=p, ctx=ast.Store())], value=_clone(v)))
        else:
            mapping[p] = v
    body = [_clone(s) for s in _docless(h.body)]
    sub = _Subst(mapping)
    body = [sub.visit(s) for s in body]
    return pre + body


def _inline_in(fn, owner, modname, new_helpers, log, q):
    changed = False
    for parent in ast.walk(fn):
        for fld in ('body', 'orelse', 'finalbody'):
            blk = getattr(parent, fld, None)
            if not isinstance(blk, list) or not blk or not isinstance(blk[0], ast.stmt):
                continue
            i = 0
            while i < len(blk):
                st = blk[i]
                call = None
                kind = None
                if isinstance(st, ast.Assign) and isinstance(st.value, ast.Call):
                    call, kind = st.value, 'assign'
                elif isinstance(st, ast.Expr) and isinstance(st.value, ast.Call):
                    call, kind = st.value, 'expr'
                elif isinstance(st, ast.Return) and isinstance(st.value, ast.Call):
                    call, kind = st.value, 'return'
                h = None
                if call is not None:
                    h, is_m, static = _resolve(call, owner, modname, new_helpers)
                if h is not None:
                    binding = _bind_args(h, call, is_m, static)
                    if binding is not None:
                        body = _prepared_body(h, binding, None)
                        if kind == 'assign':
                            tg = st.targets

                            def make(e, tg=tg):
                                if len(tg) == 1 and ast.dump(tg[0]).replace('Store()', 'Load()') == ast.dump(e):
                                    return []
                                return [ast.Assign(targets=[_clone(t) for t in tg], value=e)]
                        elif kind == 'expr':
                            def make(e):
                                return [] if isinstance(e, (ast.Constant, ast.Name)) else [ast.Expr(value=e)]
                        else:
                            def make(e):
                                return [ast.Return(value=e)]
                        new = _returns_to(body, make)
                        if new is None and kind != 'return' and not _has_return(ast.Module(body=body, type_ignores=[])):
                            new = body
                        if new is not None:
                            if kind == 'expr' and not _has_return(ast.Module(body=body, type_ignores=[])):
                                new = body
                            if kind == 'assign':
                                new = _result_into_target(new, st.targets)
                            blk[i:i + 1] = new or [ast.Pass()]
                            log.append(('inline-helper', q, h.name))
                            changed = True
                            i += len(new or [1])
                            continue
                # calls nested in expressions: single-expression helpers only
                for node in ast.walk(st):
                    for f2, val in ast.iter_fields(node):
                        vals = val if isinstance(val, list) else [val]
                        for k, c in enumerate(vals):
                            if isinstance(c, ast.Call) and not (c is call):
                                h2, is_m, static = _resolve(c, owner, modname, new_helpers)
                                if h2 is None:
                                    continue
                                expr = _single_expr(h2, c, is_m, static)
                                if expr is None:
                                    # multi-statement helper called inside a simple statement: hoist the call into a
                                    # temporary first (`t = helper(...)`), the statement-level inliner then takes over
                                    if isinstance(st, (ast.Expr, ast.Assign, ast.AugAssign, ast.Return)) and _unconditional(st, c) \
                                            and not getattr(st, '_hoisted', False):
                                        tmp = f'_hoisted_{h2.name.strip("_")}'
                                        hoist = ast.Assign(targets=[ast.Name(id=tmp, ctx=ast.Store())], value=c)
                                        if isinstance(val, list):
                                            val[k] = ast.Name(id=tmp, ctx=ast.Load())
                                        else:
                                            setattr(node, f2, ast.Name(id=tmp, ctx=ast.Load()))
                                        blk.insert(i, hoist)
                                        ast.fix_missing_locations(fn)
                                        return True
                                    continue
                                if isinstance(val, list):
                                    val[k] = expr
                                else:
                                    setattr(node, f2, expr)
                                log.append(('inline-helper-expr', q, h2.name))
                                changed = True
                i += 1
    if changed:
        ast.fix_missing_locations(fn)
    return changed


def _result_into_target(new, targets):
    """`r = A; r = r.copy(); r[m] = v; T = r`  (an inlined helper that builds its result in a local r)  ->
    `T = A.copy(); T[m] = v`: the helper's result variable becomes the caller's target."""
    if not new or len(targets) != 1 or not isinstance(targets[0], ast.Name):
        return new
    T = targets[0].id
    last = new[-1]
    if not (isinstance(last, ast.Assign) and len(last.targets) == 1 and isinstance(last.targets[0], ast.Name)
            and last.targets[0].id == T and isinstance(last.value, ast.Name)):
        return new
    r = last.value.id
    head = new[:-1]
    if r == T or not head or any(isinstance(x, ast.Name) and x.id == T for s_ in head for x in ast.walk(s_)):
        return new
    if any(isinstance(s_, (ast.If, ast.For, ast.While, ast.Try, ast.With, ast.Return)) for s_ in head):
        return new
    if not any(isinstance(x, ast.Name) and x.id == r and isinstance(x.ctx, ast.Store) for s_ in head for x in ast.walk(s_)):
        return new
    for s_ in head:
        for x in ast.walk(s_):
            if isinstance(x, ast.Name) and x.id == r:
                x.id = T
    # x = A; x = E(x)  ->  x = E(A)   (A a plain path or subscript: evaluated once either way)
    out = []
    for s_ in head:
        prev = out[-1] if out else None
        if prev is not None and isinstance(prev, ast.Assign) and isinstance(s_, ast.Assign) and len(prev.targets) == 1 \
                and len(s_.targets) == 1 and isinstance(prev.targets[0], ast.Name) and isinstance(s_.targets[0], ast.Name) \
                and prev.targets[0].id == s_.targets[0].id == T and _is_path_or_sub(prev.value):
            uses = [x for x in ast.walk(s_.value) if isinstance(x, ast.Name) and x.id == T]
            if len(uses) == 1:
                out[-1] = ast.Assign(targets=[ast.Name(id=T, ctx=ast.Store())], value=_Subst({T: prev.value}).visit(s_.value))
                continue
        out.append(s_)
    return out


def _is_path_or_sub(v):
    while isinstance(v, (ast.Attribute, ast.Subscript)):
        if isinstance(v, ast.Subscript) and any(isinstance(x, ast.Call) for x in ast.walk(v.slice)):
            return False
        v = v.value
    return isinstance(v, ast.Name)


def _unconditional(st, call):
    """Is `call` evaluated exactly once, unconditionally, when the simple statement st runs?"""
    path = []

    def find(n):
        if n is call:
            return True
        for c in ast.iter_child_nodes(n):
            if find(c):
                path.append(n)
                return True
        return False
    if not find(st):
        return False
    return not any(isinstance(p, (ast.IfExp, ast.BoolOp, ast.Lambda, ast.ListComp, ast.SetComp, ast.DictComp, ast.GeneratorExp,
                                  ast.Compare)) for p in path)


def _single_expr(h, call, is_m, static):
    body = _docless(h.body)
    binding = _bind_args(h, call, is_m, static)
    if binding is None:
        return None
    temps = {}
    for st in body[:-1]:
        if isinstance(st, ast.Assign) and len(st.targets) == 1 and isinstance(st.targets[0], ast.Name) \
                and st.targets[0].id not in temps:
            temps[st.targets[0].id] = _Subst(dict(temps)).visit(_clone(st.value))
        else:
            return None
    if not body or not isinstance(body[-1], ast.Return) or body[-1].value is None:
        return None
    e = _Subst(dict(temps)).visit(_clone(body[-1].value))
    return _Subst(binding).visit(e)


# ---------------------------------------------------------------------------
# temporaries
# ---------------------------------------------------------------------------

def _number(fn):
    """Source-order sequence numbers (`_ord`) for every node of a function (line numbers are unreliable after splicing)."""
    k = 0
    stack = [fn]
    while stack:
        n = stack.pop()
        n._ord = k
        k += 1
        stack.extend(reversed(list(ast.iter_child_nodes(n))))


def _stores_between(fn, names, attrs, after, before):
    """Is any of the names (or self-attributes) stored between two line numbers?"""
    for x in ast.walk(fn):
        ln = getattr(x, '_ord', None)
        if ln is None or not (after < ln <= before):
            continue
        if isinstance(x, ast.Name) and isinstance(x.ctx, ast.Store) and x.id in names:
            return True
        if isinstance(x, ast.Attribute) and isinstance(x.ctx, ast.Store) and ast.unparse(x) in attrs:
            return True
        if isinstance(x, ast.Subscript) and isinstance(x.ctx, ast.Store):
            base = ast.unparse(x.value)
            if base in names or base in attrs:
                return True
        if isinstance(x, ast.AugAssign):
            t = ast.unparse(x.target)
            if t in names or t in attrs:
                return True
    return False


def _fold_assign_return(fn, q, ref, log):
    """`t = E; return t` -> `return E` for a local t the reference does not have (however many returns use that name)."""
    a = fn.args
    params = {x.arg for x in a.posonlyargs + a.args + a.kwonlyargs}
    for parent in ast.walk(fn):
        for fld in ('body', 'orelse', 'finalbody'):
            blk = getattr(parent, fld, None)
            if not isinstance(blk, list):
                continue
            i = 0
            while i + 1 < len(blk):
                s0, s1 = blk[i], blk[i + 1]
                if isinstance(s0, ast.Assign) and len(s0.targets) == 1 and isinstance(s0.targets[0], ast.Name) \
                        and isinstance(s1, ast.Return) and isinstance(s1.value, ast.Name) and s1.value.id == s0.targets[0].id \
                        and s0.targets[0].id not in ref and s0.targets[0].id not in params:
                    blk[i:i + 2] = [ast.copy_location(ast.Return(value=s0.value), s0)]
                    log.append(('inline-temp', q, s0.targets[0].id))
                    continue
                i += 1


def inline_temporaries(funcs, table, log):
    for q, fn in funcs:
        ref = table.get(q) or {}
        ast.fix_missing_locations(fn)
        _fold_assign_return(fn, q, ref, log)
        for _round in range(3):
            if not _inline_temps_once(fn, q, ref, log):
                break


def _inline_temps_once(fn, q, ref, log):
    _number(fn)
    a = fn.args
    params = {x.arg for x in a.posonlyargs + a.args + a.kwonlyargs}
    stores = {}
    for x in ast.walk(fn):
        if isinstance(x, ast.Name) and isinstance(x.ctx, ast.Store):
            stores.setdefault(x.id, []).append(x)
    inner_defs = [x for x in ast.walk(fn) if isinstance(x, (ast.FunctionDef, ast.AsyncFunctionDef, ast.Lambda)) and x is not fn]
    changed = False
    for parent in ast.walk(fn):
        for fld in ('body', 'orelse', 'finalbody'):
            blk = getattr(parent, fld, None)
            if not isinstance(blk, list) or not blk or not isinstance(blk[0], ast.stmt):
                continue
            for i, st in enumerate(list(blk)):
                if not (isinstance(st, ast.Assign) and len(st.targets) == 1):
                    continue
                t = st.targets[0]
                pairs = []
                if isinstance(t, ast.Name):
                    pairs = [(t.id, st.value)]
                elif isinstance(t, (ast.Tuple, ast.List)) and all(isinstance(e, ast.Name) for e in t.elts) \
                        and isinstance(st.value, (ast.Name, ast.Attribute, ast.Subscript)):
                    pairs = [(e.id, ast.Subscript(value=_clone(st.value), slice=ast.Constant(value=k), ctx=ast.Load()))
                             for k, e in enumerate(t.elts)]
                elif isinstance(t, (ast.Tuple, ast.List)) and isinstance(st.value, (ast.Tuple, ast.List)) \
                        and len(t.elts) == len(st.value.elts) and all(isinstance(e, ast.Name) for e in t.elts):
                    pairs = [(e.id, v) for e, v in zip(t.elts, st.value.elts)]
                if not pairs or any(n in ref or n in params or len(stores.get(n, [])) != 1 for n, _ in pairs):
                    continue
                # containers that are filled afterwards are objects, not values: never substitute them
                if any(isinstance(v, (ast.List, ast.Dict, ast.Set, ast.ListComp, ast.DictComp, ast.SetComp)) and _is_mutated(fn, n)
                       for n, v in pairs):
                    continue
                # a value that is modified through the temporary must stay an object of its own, unless the temporary is a
                # plain alias of an attribute path (`g = sample.geometry`): then the modification reaches the same object
                if any(_is_mutated(fn, n) and not _is_path(v) for n, v in pairs):
                    continue
                names_used = {x.id for _, v in pairs for x in ast.walk(v) if isinstance(x, ast.Name)}
                attrs_used = {ast.unparse(x) for _, v in pairs for x in ast.walk(v) if isinstance(x, ast.Attribute)}
                if any(isinstance(x, (ast.Call,)) and not _pure_call(x) for _, v in pairs for x in ast.walk(v)):
                    # a call is evaluated once by the temporary; substituting it is fine for a single use only
                    single = True
                else:
                    single = False
                tnames = {n for n, _ in pairs}
                uses = [x for x in ast.walk(fn) if isinstance(x, ast.Name) and isinstance(x.ctx, ast.Load) and x.id in tnames]
                if not uses or any(u._ord < st._ord for u in uses):
                    continue
                if single and any(sum(1 for u in uses if u.id == n) > 1 for n in tnames):
                    continue
                in_closure = any(any(u is y for y in ast.walk(d)) for d in inner_defs for u in uses)
                if in_closure:
                    # a closure reads the temporary when it is *called*: only a plain lookup whose inputs are never rebound in
                    # this function (parameters, module-level tables) may be moved into it
                    if not all(_is_path_or_sub(v) for _, v in pairs) \
                            or any(len(stores.get(nm, [])) > 0 for nm in names_used):
                        continue
                    for k in range(i + 1, len(blk)):
                        blk[k] = _Subst({n: v for n, v in pairs}).visit(blk[k])
                    blk.remove(st)
                    ast.fix_missing_locations(fn)
                    for n in tnames:
                        log.append(('inline-temp', q, n))
                    return True
                last = max(u._ord for u in uses)
                if _stores_between(fn, names_used, attrs_used, max(x._ord for x in ast.walk(st)), last):
                    continue
                # uses must be in the same block or nested deeper (dominance by position)
                later = blk[i + 1:]
                inside = {id(x) for s_ in later for x in ast.walk(s_)}
                if not all(id(u) in inside for u in uses):
                    continue
                mapping = {n: v for n, v in pairs}
                for k in range(i + 1, len(blk)):
                    blk[k] = _Subst(mapping).visit(blk[k])
                blk.remove(st)
                ast.fix_missing_locations(fn)
                for n in tnames:
                    log.append(('inline-temp', q, n))
                return True
    return changed


def _is_path(v):
    while isinstance(v, ast.Attribute):
        v = v.value
    return isinstance(v, ast.Name)


def _is_mutated(fn, name):
    for x in ast.walk(fn):
        if isinstance(x, ast.Attribute) and isinstance(x.value, ast.Name) and x.value.id == name:
            p_ok = isinstance(x.ctx, ast.Store)
            if p_ok:
                return True
        if isinstance(x, ast.Call) and isinstance(x.func, ast.Attribute) and isinstance(x.func.value, ast.Name) \
                and x.func.value.id == name and x.func.attr in ('append', 'extend', 'insert', 'pop', 'remove', 'sort', 'update', 'add',
                                                                 'clear', 'setdefault', 'fill', 'resize'):
            return True
        if isinstance(x, ast.Subscript) and isinstance(x.ctx, ast.Store) and isinstance(x.value, ast.Name) and x.value.id == name:
            return True
        if isinstance(x, ast.AugAssign) and isinstance(x.target, (ast.Name, ast.Subscript)):
            t = x.target.id if isinstance(x.target, ast.Name) else (x.target.value.id if isinstance(x.target.value, ast.Name) else None)
            if t == name:
                return True
    return False


_PURE = {'len', 'int', 'float', 'abs', 'min', 'max', 'tuple', 'list', 'isinstance', 'getattr', 'hasattr', 'range', 'zip', 'enumerate',
         'np.isnan', 'np.isfinite', 'np.arange', 'np.asarray', 'np.array', 'np.prod', 'np.sum', 'np.sqrt', 'np.cos', 'np.sin',
         'np.where', 'np.nonzero', 'np.any', 'np.all', 'np.zeros', 'np.ones', 'np.dot', 'np.broadcast_to', 'np.ogrid',
         'np.asanyarray', 'np.atleast_1d', 'np.atleast_2d', 'np.isscalar', 'np.shape', 'np.ndim'}


def _pure_call(c):
    return ast.unparse(c.func) in _PURE


def apply(tree, modname):
    table = canon.table()
    log = []
    ref_functions = set(table.get('__functions__', ()))
    if not ref_functions:
        return log
    funcs = canon._functions(tree, modname)
    # cheap pre-check: only functions that have a local the reference does not know (or new helpers) are touched
    has_new_helper = any(q not in ref_functions and '<locals>' not in q and q.rsplit('.', 1)[-1].startswith('_')
                         and not q.rsplit('.', 1)[-1].startswith('__') for q, _ in funcs)
    n0 = len(log)
    relocate_back(tree, modname, ref_functions, log)
    inline_helpers(tree, modname, ref_functions, log)
    if len(log) != n0:
        funcs = canon._functions(tree, modname)
    dirty = []
    for q, fn in funcs:
        if q not in ref_functions:
            continue
        ref = table.get(q) or {}
        if not isinstance(ref, dict):
            continue
        a = fn.args
        known = set(ref) | {x.arg for x in a.posonlyargs + a.args + a.kwonlyargs}
        if a.vararg:
            known.add(a.vararg.arg)
        if a.kwarg:
            known.add(a.kwarg.arg)
        if any(isinstance(x, ast.Name) and isinstance(x.ctx, ast.Store) and x.id not in known for x in ast.walk(fn)):
            dirty.append((q, fn))
    if dirty:
        undo_destructuring(dirty, table, log)
    # pure renames first (a local that matches a missing reference local is that local, not a new temporary) ...
    for q_, new_, old_ in canon.apply(tree, modname):
        log.append(('rename', q_, f'{new_}->{old_}'))
    for q_, text_, what_ in canon.restore_call_shapes(tree, modname):
        log.append((what_, q_, text_))
    if dirty:
        # ... then whatever is still unknown to the reference and assigned once is a temporary
        inline_temporaries(dirty, table, log)
    canonical_shapes(tree, modname)
    if dirty:
        inline_temporaries(dirty, table, log)      # a temporary may only become substitutable after a loop became a comprehension
    return log


def canonical_shapes(tree, modname):
    """Shape canonicalisations applied to every tree (reference and current alike); not logged as refactor reversals."""
    split_parallel_assignments(tree)
    unroll_literal_setattr(tree)
    dedent_else_after_exit(tree)
    expand_literal_kwargs(tree)
    fold_augmented(tree)
    loops_to_comprehensions(tree, [], modname)


_FRESH_CALLS = {'np.array', 'np.zeros', 'np.ones', 'np.empty', 'np.full', 'np.sqrt', 'np.sum', 'np.diff', 'np.abs', 'np.exp',
                'np.arange', 'np.zeros_like', 'np.ones_like', 'np.copy', 'np.hypot', 'np.cos', 'np.sin'}


def _fresh_value(v):
    """An expression whose value is certainly a new object (so that `x = v; x op= w` and `x = v op w` are the same): arithmetic,
    or a constructor.  `np.asarray(a)`, `a.reshape(...)`, `a[...]` may alias `a`: an in-place update of them is an effect."""
    if isinstance(v, ast.BinOp):
        return True
    if isinstance(v, ast.Call):
        fn = ast.unparse(v.func)
        return fn in _FRESH_CALLS or fn.endswith('.copy')
    return False


def fold_augmented(tree):
    """`x = A` ... `x op= B` in one block, x untouched in between and B's inputs not written in between -> `x = A op B`."""
    for parent in ast.walk(tree):
        for fld in ('body', 'orelse', 'finalbody'):
            blk = getattr(parent, fld, None)
            if not isinstance(blk, list):
                continue
            j = 0
            while j < len(blk):
                b = blk[j]
                if isinstance(b, ast.AugAssign) and isinstance(b.target, ast.Name) \
                        and not isinstance(b.op, (ast.LShift, ast.BitOr, ast.BitAnd)):
                    x = b.target.id
                    if not any(isinstance(n, ast.Name) and n.id == x for n in ast.walk(b.value)):
                        i = j - 1
                        ok = False
                        while i >= 0:
                            a = blk[i]
                            if isinstance(a, ast.Assign) and len(a.targets) == 1 and isinstance(a.targets[0], ast.Name) \
                                    and a.targets[0].id == x and _fresh_value(a.value):
                                ok = True
                                break
                            if any(isinstance(n, ast.Name) and n.id == x for n in ast.walk(a)) \
                                    or isinstance(a, (ast.For, ast.While, ast.If, ast.Try, ast.With, ast.Return, ast.Raise)):
                                break
                            i -= 1
                        if ok:
                            bnames = {n.id for n in ast.walk(b.value) if isinstance(n, ast.Name)}
                            between = blk[i + 1:j]
                            if not any(isinstance(n, ast.Name) and isinstance(n.ctx, ast.Store) and n.id in bnames
                                       for st in between for n in ast.walk(st)):
                                a = blk[i]
                                new_st = ast.Assign(targets=[a.targets[0]], value=ast.BinOp(left=a.value, op=b.op, right=b.value))
                                ast.copy_location(new_st, a)
                                ast.fix_missing_locations(new_st)
                                blk[i] = new_st
                                del blk[j]
                                continue
                j += 1


def unroll_literal_setattr(tree):
    """`for a in ('x', 'y'): setattr(obj, a, V)`  ->  `obj.x = V; obj.y = V`  (the names are literal, possibly through a local
    bound to the literal tuple just for the loop; V does not depend on the loop variable)."""
    if not any(isinstance(c, ast.Call) and isinstance(c.func, ast.Name) and c.func.id == 'setattr' for c in ast.walk(tree)):
        return
    for parent in list(ast.walk(tree)):
        for fld in ('body', 'orelse', 'finalbody'):
            blk = getattr(parent, fld, None)
            if not isinstance(blk, list) or not blk or not isinstance(blk[0], ast.stmt):
                continue
            i = 0
            while i < len(blk):
                st = blk[i]
                i += 1
                if not (isinstance(st, ast.For) and isinstance(st.target, ast.Name) and not st.orelse and len(st.body) == 1
                        and isinstance(st.body[0], ast.Expr) and isinstance(st.body[0].value, ast.Call)):
                    continue
                c = st.body[0].value
                if not (isinstance(c.func, ast.Name) and c.func.id == 'setattr' and len(c.args) == 3 and not c.keywords
                        and isinstance(c.args[1], ast.Name) and c.args[1].id == st.target.id
                        and not any(isinstance(x, ast.Name) and x.id == st.target.id for x in ast.walk(c.args[2]))
                        and not any(isinstance(x, ast.Name) and x.id == st.target.id for x in ast.walk(c.args[0]))
                        and not any(isinstance(x, ast.Call) for x in ast.walk(c.args[2]))):
                    continue
                lit = st.iter
                temp = None
                if isinstance(lit, ast.Name):
                    k = blk.index(st)
                    prev = blk[k - 1] if k > 0 else None
                    if isinstance(prev, ast.Assign) and len(prev.targets) == 1 and isinstance(prev.targets[0], ast.Name) \
                            and prev.targets[0].id == lit.id:
                        uses = [x for x in ast.walk(tree) if isinstance(x, ast.Name) and x.id == lit.id]
                        if len(uses) == 2:
                            temp, lit = prev, prev.value
                if not (isinstance(lit, (ast.Tuple, ast.List)) and lit.elts
                        and all(isinstance(e, ast.Constant) and isinstance(e.value, str) and e.value.isidentifier() for e in lit.elts)):
                    continue
                new = [ast.copy_location(ast.Assign(targets=[ast.Attribute(value=_clone(c.args[0]), attr=e.value, ctx=ast.Store())],
                                                    value=_clone(c.args[2])), st) for e in lit.elts]
                k = blk.index(st)
                blk[k:k + 1] = new
                if temp is not None:
                    blk.remove(temp)
                ast.fix_missing_locations(tree)
                i = 0


def dedent_else_after_exit(tree):
    """`if c: ...; return/raise/continue/break  else: rest`  ->  `if c: ...; return`  followed by `rest` (one shape for an early
    exit, whether or not the author wrote the `else`)."""
    if not any(isinstance(n, ast.If) and n.orelse for n in ast.walk(tree)):
        return
    for _pass in range(6):
        if not _dedent_else_once(tree):
            break


def _dedent_else_once(tree):
    changed = False
    for parent in list(ast.walk(tree)):
        for fld in ('body', 'orelse', 'finalbody'):
            blk = getattr(parent, fld, None)
            if not isinstance(blk, list) or not blk or not isinstance(blk[0], ast.stmt):
                continue
            i = 0
            while i < len(blk):
                st = blk[i]
                if isinstance(st, ast.If) and st.orelse and st.body \
                        and isinstance(st.body[-1], (ast.Return, ast.Raise, ast.Continue, ast.Break)):
                    rest = st.orelse
                    st.orelse = []
                    blk[i + 1:i + 1] = rest
                    changed = True
                i += 1
    return changed


def expand_literal_kwargs(tree):
    """f(**{'a': x, 'b': y}) -> f(a=x, b=y)."""
    for c in ast.walk(tree):
        if isinstance(c, ast.Call):
            new = []
            for k in c.keywords:
                if k.arg is None and isinstance(k.value, ast.Dict) and k.value.keys \
                        and all(isinstance(x, ast.Constant) and isinstance(x.value, str) and x.value.isidentifier() for x in k.value.keys):
                    new.extend(ast.keyword(arg=x.value, value=v) for x, v in zip(k.value.keys, k.value.values))
                else:
                    new.append(k)
            c.keywords = new


def split_parallel_assignments(tree):
    """`a, b = x, y` (no target occurs in a value) -> `a = x; b = y`."""
    for parent in ast.walk(tree):
        for fld in ('body', 'orelse', 'finalbody'):
            blk = getattr(parent, fld, None)
            if not isinstance(blk, list):
                continue
            i = 0
            while i < len(blk):
                st = blk[i]
                if isinstance(st, ast.Assign) and len(st.targets) == 1 and isinstance(st.targets[0], (ast.Tuple, ast.List)) \
                        and isinstance(st.value, (ast.Tuple, ast.List)) and len(st.targets[0].elts) == len(st.value.elts) \
                        and all(isinstance(t, ast.Name) for t in st.targets[0].elts) \
                        and not any(isinstance(v, ast.Starred) for v in st.value.elts):
                    tnames = {t.id for t in st.targets[0].elts}
                    used = {x.id for v in st.value.elts for x in ast.walk(v) if isinstance(x, ast.Name)}
                    if not (tnames & used):
                        new = []
                        for t, v in zip(st.targets[0].elts, st.value.elts):
                            a_ = ast.Assign(targets=[t], value=v)
                            ast.copy_location(a_, st)
                            new.append(a_)
                        blk[i:i + 1] = new
                        i += len(new)
                        continue
                i += 1


# ---------------------------------------------------------------------------
# append loops -> comprehensions (one canonical form for "build a list element by element")
# ---------------------------------------------------------------------------

def _append_call(st, name):
    return isinstance(st, ast.Expr) and isinstance(st.value, ast.Call) and isinstance(st.value.func, ast.Attribute) \
        and st.value.func.attr == 'append' and isinstance(st.value.func.value, ast.Name) and st.value.func.value.id == name \
        and len(st.value.args) == 1 and not st.value.keywords


def _loop_to_elt(body, name):
    """(element expression, filter or None) of a loop body that only computes temporaries and appends once per iteration."""
    temps = {}
    for k, st in enumerate(body):
        if isinstance(st, ast.Assign) and len(st.targets) == 1 and isinstance(st.targets[0], ast.Name) \
                and st.targets[0].id not in temps and st.targets[0].id != name:
            temps[st.targets[0].id] = _Subst(dict(temps)).visit(_clone(st.value))
            continue
        if isinstance(st, ast.Assign) and len(st.targets) == 1 and isinstance(st.targets[0], (ast.Tuple, ast.List)) \
                and all(isinstance(e, ast.Name) and e.id not in temps and e.id != name for e in st.targets[0].elts) \
                and isinstance(st.value, ast.Call):
            # a, _ = f(...): a -> f(...)[0]
            val = _Subst(dict(temps)).visit(_clone(st.value))
            for k_, e in enumerate(st.targets[0].elts):
                temps[e.id] = ast.Subscript(value=_clone(val), slice=ast.Constant(value=k_), ctx=ast.Load())
            continue
        if isinstance(st, ast.If) and not st.orelse and len(st.body) == 1 and isinstance(st.body[0], ast.Assign) \
                and len(st.body[0].targets) == 1 and isinstance(st.body[0].targets[0], ast.Name) \
                and st.body[0].targets[0].id in temps and k < len(body) - 1:
            # t = E; if C: t = F  ->  t = F if C else E
            sub_ = _Subst(dict(temps))
            t_ = st.body[0].targets[0].id
            temps[t_] = ast.IfExp(test=sub_.visit(_clone(st.test)), body=sub_.visit(_clone(st.body[0].value)), orelse=temps[t_])
            continue
        rest = body[k:]
        sub = _Subst(dict(temps))
        if len(rest) == 1 and _append_call(rest[0], name):
            return sub.visit(_clone(rest[0].value.args[0])), None
        if len(rest) == 1 and isinstance(rest[0], ast.If):
            i_ = rest[0]
            if len(i_.body) == 1 and _append_call(i_.body[0], name):
                if not i_.orelse:
                    return sub.visit(_clone(i_.body[0].value.args[0])), sub.visit(_clone(i_.test))
                if len(i_.orelse) == 1 and _append_call(i_.orelse[0], name):
                    return ast.IfExp(test=sub.visit(_clone(i_.test)), body=sub.visit(_clone(i_.body[0].value.args[0])),
                                     orelse=sub.visit(_clone(i_.orelse[0].value.args[0]))), None
        # if C: L.append(X); continue  ...  L.append(Y)
        if len(rest) >= 2 and isinstance(rest[0], ast.If) and not rest[0].orelse and len(rest[0].body) == 2 \
                and _append_call(rest[0].body[0], name) and isinstance(rest[0].body[1], ast.Continue):
            tail = _loop_to_elt(rest[1:], name)
            if tail is not None and tail[1] is None:
                return ast.IfExp(test=sub.visit(_clone(rest[0].test)), body=sub.visit(_clone(rest[0].body[0].value.args[0])),
                                 orelse=sub.visit(tail[0])), None
        return None
    return None


def loops_to_comprehensions(tree, log, modname):
    for parent in ast.walk(tree):
        for fld in ('body', 'orelse', 'finalbody'):
            blk = getattr(parent, fld, None)
            if not isinstance(blk, list) or len(blk) < 2:
                continue
            i = 0
            while i < len(blk) - 1:
                a, b = blk[i], blk[i + 1]
                if isinstance(b, ast.For) and not b.orelse and isinstance(a, ast.Assign) and len(a.targets) == 1 \
                        and isinstance(a.targets[0], ast.Name) and isinstance(a.value, ast.List) and not a.value.elts:
                    name = a.targets[0].id
                    uses_in_loop = [x for x in ast.walk(b) if isinstance(x, ast.Name) and x.id == name]
                    r = _loop_to_elt(b.body, name)
                    if r is not None and len(uses_in_loop) == sum(1 for x in ast.walk(b) if isinstance(x, ast.Call)
                                                                   and isinstance(x.func, ast.Attribute) and x.func.attr == 'append'
                                                                   and isinstance(x.func.value, ast.Name) and x.func.value.id == name):
                        elt, flt = r
                        comp = ast.ListComp(elt=elt, generators=[ast.comprehension(target=_clone(b.target), iter=_clone(b.iter),
                                                                                    ifs=[flt] if flt is not None else [], is_async=0)])
                        new_st = ast.Assign(targets=[ast.Name(id=name, ctx=ast.Store())], value=comp)
                        ast.copy_location(new_st, a)
                        blk[i:i + 2] = [new_st]
                        ast.fix_missing_locations(new_st)
                        log.append(('loop-to-comprehension', modname, name))
                        continue
                i += 1


def undo_destructuring(funcs, table, log):
    """`for (a, b), c in it:` with a, b unknown to the reference function -> `for _p, c in it:` and a, b -> _p[0], _p[1]."""
    for q, fn in funcs:
        ref = table.get(q) or {}
        k = 0
        for node in ast.walk(fn):
            if isinstance(node, (ast.For, ast.comprehension)) and isinstance(node.target, (ast.Tuple, ast.List)):
                scope = node if isinstance(node, ast.For) else None
                for i, el in enumerate(node.target.elts):
                    if isinstance(el, (ast.Tuple, ast.List)) and el.elts and all(isinstance(x, ast.Name) and x.id not in ref for x in el.elts):
                        names = [x.id for x in el.elts]
                        stores = [x for x in ast.walk(fn) if isinstance(x, ast.Name) and isinstance(x.ctx, ast.Store) and x.id in names]
                        if len(stores) != len(names):
                            continue
                        tmp = f'_p{k}'
                        k += 1
                        mapping = {n: ast.Subscript(value=ast.Name(id=tmp, ctx=ast.Load()), slice=ast.Constant(value=j), ctx=ast.Load())
                                   for j, n in enumerate(names)}
                        node.target.elts[i] = ast.Name(id=tmp, ctx=ast.Store())
                        sub = _Subst(mapping)
                        if scope is not None:
                            scope.body = [sub.visit(s_) for s_ in scope.body]
                        else:
                            comp = _parent_comp(fn, node)
                            if comp is None:
                                continue
                            for fld in ('elt', 'key', 'value'):
                                if hasattr(comp, fld):
                                    setattr(comp, fld, sub.visit(getattr(comp, fld)))
                            for g in comp.generators:
                                g.ifs = [sub.visit(x) for x in g.ifs]
                                if g is not node:
                                    g.iter = sub.visit(g.iter)
                        log.append(('undo-destructuring', q, ','.join(names)))
        # `for yslc, xslc in it` where the reference iterates with ONE name (`for slc in it`): back to that name, elements -> slc[j]
        have = {x.id for x in ast.walk(fn) if isinstance(x, ast.Name) and isinstance(x.ctx, ast.Store)}
        missing_iter = [v for v, fp in ref.items() if isinstance(fp, str) and fp.startswith('iter') and 'unpack' not in fp and v not in have]
        cands = [node for node in ast.walk(fn) if isinstance(node, (ast.For, ast.comprehension))
                 and isinstance(node.target, (ast.Tuple, ast.List)) and node.target.elts
                 and all(isinstance(x, ast.Name) and (x.id not in ref or x.id == '_') for x in node.target.elts)]
        if len(missing_iter) == 1 and len(cands) == 1:
            node = cands[0]
            names = [x.id for x in node.target.elts]
            real = [n for n in names if n != '_']
            stores = [x for x in ast.walk(fn) if isinstance(x, ast.Name) and isinstance(x.ctx, ast.Store) and x.id in real]
            if len(stores) == len(real) and len(set(real)) == len(real):
                v = missing_iter[0]
                mapping = {n: ast.Subscript(value=ast.Name(id=v, ctx=ast.Load()), slice=ast.Constant(value=j), ctx=ast.Load())
                           for j, n in enumerate(names) if n != '_'}
                sub = _Subst(mapping)
                done_ = True
                if isinstance(node, ast.For):
                    node.body = [sub.visit(s_) for s_ in node.body]
                else:
                    comp = _parent_comp(fn, node)
                    if comp is None:
                        done_ = False
                    else:
                        for fld in ('elt', 'key', 'value'):
                            if hasattr(comp, fld):
                                setattr(comp, fld, sub.visit(getattr(comp, fld)))
                        for g in comp.generators:
                            g.ifs = [sub.visit(x) for x in g.ifs]
                            if g is not node:
                                g.iter = sub.visit(g.iter)
                if done_:
                    node.target = ast.Name(id=v, ctx=ast.Store())
                    log.append(('undo-destructuring', q, ','.join(names) + '->' + v))
        ast.fix_missing_locations(fn)


def _parent_comp(fn, gen):
    for n in ast.walk(fn):
        if isinstance(n, (ast.ListComp, ast.SetComp, ast.GeneratorExp, ast.DictComp)) and any(g is gen for g in n.generators):
            return n
    return None
