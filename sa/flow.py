"""Structured forward dataflow over Python statements (no goto in Python, so
a syntax-directed walk with explicit break/continue/return/raise channels is
an exact CFG traversal for the statement kinds the package uses).

A client subclasses Flow and provides:
  * copy(state), join(a, b), equal(a, b)
  * assign/expr effects through on_stmt(stmt, state) for simple statements
  * optionally branch(test, state) -> (state_if_true, state_if_false)

`None` is the unreachable state.
"""
from __future__ import annotations

import ast


class Flow:
    max_loop_iter = 6

    # ---- to be provided -------------------------------------------------
    def copy(self, s):
        raise NotImplementedError

    def join(self, a, b):
        raise NotImplementedError

    def equal(self, a, b):
        return a == b

    def on_stmt(self, stmt, s):
        """Transfer for a simple statement (Assign, AugAssign, AnnAssign,
        Expr, Delete, Assert, Import, Pass, Global, Nonlocal, nested defs);
        returns new state."""
        return s

    def on_expr(self, expr, s, role):
        """Evaluate an expression in a control position (if/while test, for
        iter, with item, return value, raise exc); returns new state."""
        return s

    def on_for_target(self, node, s):
        """Bind the loop target from the iterable."""
        return s

    def on_with_item(self, item, s):
        return s

    def on_except(self, handler, s):
        return s

    def branch(self, test, s):
        return s, self.copy(s)

    def on_return(self, node, s):
        pass

    def on_raise(self, node, s):
        pass

    # ---- driver -----------------------------------------------------------
    def jn(self, a, b):
        if a is None:
            return b
        if b is None:
            return a
        return self.join(a, b)

    def run(self, func, init):
        """Run over a function body. Returns the fall-through state at the
        end of the body (None when every path returns/raises)."""
        self.returns = []   # (Return node | None, state)
        self.raises = []
        ctx = _Ctx()
        out = self.block(func.body, init, ctx)
        if out is not None:
            self.returns.append((None, out))
        return out

    def block(self, stmts, s, ctx):
        for st in stmts:
            if s is None:
                return None
            s = self.stmt(st, s, ctx)
            if ctx.try_acc is not None and s is not None:
                ctx.try_acc[0] = self.jn(ctx.try_acc[0], self.copy(s))
        return s

    def stmt(self, st, s, ctx):
        if isinstance(st, ast.If):
            s = self.on_expr(st.test, s, 'test')
            st_true, st_false = self.branch(st.test, s)
            a = self.block(st.body, st_true, ctx) if st_true is not None else None
            b = self.block(st.orelse, st_false, ctx) if st_false is not None else None
            return self.jn(a, b)
        if isinstance(st, (ast.For, ast.AsyncFor)):
            s = self.on_expr(st.iter, s, 'iter')
            return self.loop(st, s, ctx, is_for=True)
        if isinstance(st, ast.While):
            return self.loop(st, s, ctx, is_for=False)
        if isinstance(st, (ast.With, ast.AsyncWith)):
            for item in st.items:
                s = self.on_expr(item.context_expr, s, 'with')
                s = self.on_with_item(item, s)
            return self.block(st.body, s, ctx)
        if isinstance(st, ast.Try) or (hasattr(ast, 'TryStar') and isinstance(st, ast.TryStar)):
            return self.try_(st, s, ctx)
        if isinstance(st, ast.Return):
            if st.value is not None:
                s = self.on_expr(st.value, s, 'return')
            self.on_return(st, s)
            self.returns.append((st, s))
            if ctx.finally_stack:
                pass
            return None
        if isinstance(st, ast.Raise):
            if st.exc is not None:
                s = self.on_expr(st.exc, s, 'raise')
            self.on_raise(st, s)
            self.raises.append((st, s))
            if ctx.try_acc is not None:
                ctx.try_acc[0] = self.jn(ctx.try_acc[0], self.copy(s))
            return None
        if isinstance(st, ast.Break):
            if ctx.loops:
                ctx.loops[-1].breaks = self.jn(ctx.loops[-1].breaks, s)
            return None
        if isinstance(st, ast.Continue):
            if ctx.loops:
                ctx.loops[-1].continues = self.jn(ctx.loops[-1].continues, s)
            return None
        if isinstance(st, ast.Match):
            s = self.on_expr(st.subject, s, 'test')
            out = None
            for case in st.cases:
                out = self.jn(out, self.block(case.body, self.copy(s), ctx))
            return self.jn(out, s)
        return self.on_stmt(st, s)

    def runs_at_least_once(self, st):
        it = getattr(st, 'iter', None)
        return isinstance(it, (ast.Tuple, ast.List)) and len(it.elts) > 0 \
            and not any(isinstance(e, ast.Starred) for e in it.elts)

    def loop(self, st, s, ctx, is_for):
        lp = _Loop()
        ctx.loops.append(lp)
        entry = s
        exit_state = None
        out = None
        for _ in range(self.max_loop_iter):
            lp.continues = None
            if is_for:
                body_in = self.on_for_target(st, self.copy(entry))
                not_taken = self.copy(entry)
            else:
                e = self.on_expr(st.test, self.copy(entry), 'test')
                body_in, not_taken = self.branch(st.test, e)
            exit_state = self.jn(exit_state, not_taken)
            out = self.block(st.body, body_in, ctx) if body_in is not None else None
            out = self.jn(out, lp.continues)
            new_entry = self.jn(self.copy(entry), out)
            if new_entry is None or self.equal(new_entry, entry):
                entry = new_entry
                break
            entry = new_entry
        ctx.loops.pop()
        # loop exits normally (condition false / iterator exhausted)
        if is_for:
            normal = entry
            if self.runs_at_least_once(st):
                # literal non-empty iterable: the zero-iteration path does not exist
                normal = out
        else:
            if entry is not None:
                e = self.on_expr(st.test, self.copy(entry), 'test')
                _, normal = self.branch(st.test, e)
            else:
                normal = None
            if isinstance(st.test, ast.Constant) and st.test.value is True:
                normal = None
        if st.orelse and normal is not None:
            normal = self.block(st.orelse, normal, ctx)
        return self.jn(normal, lp.breaks)

    def try_(self, st, s, ctx):
        saved = ctx.try_acc
        acc = [self.copy(s)]
        ctx.try_acc = acc
        body_out = self.block(st.body, s, ctx)
        ctx.try_acc = saved
        if saved is not None and acc[0] is not None:
            # an inner try's intermediate states are also intermediate for the outer try
            saved[0] = self.jn(saved[0], self.copy(acc[0]))
        if body_out is not None and st.orelse:
            body_out = self.block(st.orelse, body_out, ctx)
        out = body_out
        for h in st.handlers:
            hs = self.copy(acc[0]) if acc[0] is not None else None
            if hs is None:
                continue
            hs = self.on_except(h, hs)
            out = self.jn(out, self.block(h.body, hs, ctx))
        if st.finalbody:
            # finally runs on every exit; approximate: run on the join of normal exits
            if out is not None:
                out = self.block(st.finalbody, out, ctx)
            else:
                self.block(st.finalbody, self.copy(acc[0]), ctx)
        return out


class _Loop:
    def __init__(self):
        self.breaks = None
        self.continues = None


class _Ctx:
    def __init__(self):
        self.loops = []
        self.try_acc = None
        self.finally_stack = []
