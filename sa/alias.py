"""E-ALIAS: ownership / in-place effect analysis (may-analysis).

Origins are triples (kind, name, depth):
  ('P', param, 0)  may be the very object the caller passed as `param`
                   (or a view / sub-object of it)
  ('P', param, 1)  a fresh container that holds such an object
  ('F', attr, d)   same for the object held in self.<attr>
An empty origin set means "fresh or scalar".

Per function a summary (MUT / MUTF / SELFSET / RET / STORE) is computed and
iterated to a fixpoint over the call graph.
"""
from __future__ import annotations

import ast
import re

from .core import (ClassInfo, FunctionInfo, Module, dotted, unparse,
                   norm_stmt_text, enclosing_stmt, AnalysisError)
from .flow import Flow

EMPTY = frozenset()

# ---------------------------------------------------------------------------
# API model (Appendix A of DESIGN.md)
# ---------------------------------------------------------------------------

# external functions returning an alias of (some of) their arguments:
# name -> tuple of positional indexes / keyword names that may be aliased
ALIAS_FUNCS = {
    'numpy.asarray': (0,), 'numpy.asanyarray': (0,), 'numpy.ascontiguousarray': (0,),
    'numpy.asfortranarray': (0,),
    'numpy.atleast_1d': '*', 'numpy.atleast_2d': '*', 'numpy.atleast_3d': '*',
    'numpy.transpose': (0,), 'numpy.squeeze': (0,), 'numpy.ravel': (0,),
    'numpy.reshape': (0,), 'numpy.broadcast_to': (0,), 'numpy.moveaxis': (0,),
    'numpy.swapaxes': (0,), 'numpy.expand_dims': (0,), 'numpy.flipud': (0,),
    'numpy.fliplr': (0,), 'numpy.flip': (0,), 'numpy.rot90': (0,),
    'numpy.diagonal': (0,), 'numpy.real': (0,), 'numpy.imag': (0,),
    'numpy.broadcast_arrays': '*', 'numpy.rollaxis': (0,),
    'numpy.ma.asarray': (0,), 'numpy.ma.asanyarray': (0,),
    'numpy.ma.getdata': (0,), 'numpy.ma.getmask': (0,),
    'numpy.ma.getmaskarray': (0,),
    'numpy.lib.stride_tricks.as_strided': (0,),
    'numpy.lib.stride_tricks.sliding_window_view': (0,),
    'astropy.nddata.utils.extract_array': (),       # returns a new array
    'astropy.nddata.reshape_as_blocks': (0,),
    'astropy.nddata.utils.reshape_as_blocks': (0,),
    'getattr': (0, 2), 'iter': (0,), 'next': (0, 1), 'reversed': (0,),
    'zip': '*', 'enumerate': (0,), 'list': (0,), 'tuple': (0,), 'sorted': (0,),
    'filter': (1,), 'dict': '*', 'set': (0,), 'frozenset': (0,),
    'itertools.chain': '*', 'itertools.product': '*', 'itertools.cycle': (0,),
    'itertools.islice': (0,),
    'vars': (0,),
}
# constructors / converters that alias only when copy=False is given
COPY_KW_FUNCS = {
    # name -> (aliased arg positions, default copy)
    'numpy.array': ((0,), True),
    'numpy.ma.array': ((0, 'mask'), False),
    'numpy.ma.masked_array': ((0, 'mask'), False),
    'numpy.ma.MaskedArray': ((0, 'mask'), False),
    'numpy.ma.masked_where': ((1,), True),
    'numpy.ma.masked_invalid': ((0,), True),
    'numpy.ma.masked_equal': ((0,), True),
    'numpy.ma.masked_less': ((0,), True),
    'numpy.ma.masked_greater': ((0,), True),
    'numpy.ma.fix_invalid': ((0,), True),
    'numpy.nan_to_num': ((0,), True),
    'astropy.units.Quantity': ((0,), True),
    'astropy.units.quantity.Quantity': ((0,), True),
}
# container-like constructors that keep references to their arguments
HOLDER_FUNCS = {
    'astropy.nddata.NDData', 'astropy.nddata.CCDData',
    'astropy.nddata.StdDevUncertainty', 'astropy.nddata.VarianceUncertainty',
    'astropy.table.Table', 'astropy.table.QTable', 'astropy.table.Column',
    'collections.OrderedDict', 'collections.defaultdict',
    'functools.partial',
}
# methods returning a view/alias of the receiver
ALIAS_METHODS = {
    'view', 'reshape', 'ravel', 'squeeze', 'transpose', 'swapaxes', 'filled',
    'get', 'pop', 'setdefault', 'values', 'items', 'keys', 'to_value',
    '__array__', 'diagonal', 'byteswap_view', 'newbyteorder', 'group_by',
    'harden_mask', 'soften_mask', 'as_array', 'popitem', '__getitem__',
    'conj', 'conjugate',
}
# attributes that are scalars / metadata (no aliasing)
SCALAR_ATTRS = {
    'shape', 'size', 'ndim', 'dtype', 'unit', 'nbytes', 'itemsize', 'name',
    'names', 'colnames', 'start', 'stop', 'step', 'n_inputs', 'n_outputs',
    'param_names', 'isscalar', 'nlabels', 'max_label', '__name__',
    '__class__', 'n_submodels', 'fixed', 'bounds', 'tied',
}
VIEW_ATTRS = {'data', 'mask', 'value', 'T', 'real', 'imag', 'flat', 'array',
              'quantity', 'base', '_data', 'uncertainty', 'mT'}
# in-place methods of ndarray / list / dict / set / Table / MaskedArray
MUTATING_METHODS = {
    'sort', 'fill', 'resize', 'put', 'partition', 'setflags', 'itemset',
    'append', 'extend', 'insert', 'remove', 'reverse', 'clear',
    'update', 'setdefault', 'pop', 'popitem', 'add', 'discard',
    'rename_column', 'rename_columns', 'remove_column', 'remove_columns',
    'add_column', 'add_columns', 'add_row', 'remove_row', 'remove_rows',
    'keep_columns', 'replace_column', 'add_index', 'byteswap_inplace',
    'harden_mask', 'soften_mask', 'setfield', '__setitem__', '__delitem__',
    'set_fill_value', 'difference_update', 'intersection_update',
    'symmetric_difference_update',
}
# MUTATING_METHODS that are *not* mutating on some common non-container
# receivers are disambiguated by resolving in-repo methods first.

# functions that write into one of their arguments
MUTATING_FUNCS = {
    'numpy.copyto': (0,), 'numpy.putmask': (0,), 'numpy.place': (0,),
    'numpy.put': (0,), 'numpy.put_along_axis': (0,),
    'numpy.fill_diagonal': (0,), 'numpy.random.shuffle': (0,),
    'setattr': (0,), 'delattr': (0,),
    'numpy.ndarray.sort': (0,), 'numpy.add.at': (0,), 'numpy.subtract.at': (0,),
    'numpy.maximum.at': (0,), 'numpy.minimum.at': (0,),
    'random.shuffle': (0,), 'heapq.heappush': (0,), 'heapq.heappop': (0,),
}

SCALAR_DOC_RE = re.compile(
    r'^\s*(int|float|bool|str|scalar|number|`?~?astropy\.units\.Unit|callable|'
    r'\{|None|`?~?enum)', re.I)
ARRAY_DOC_RE = re.compile(r'array|ndarray|sequence|list|tuple|Quantity|NDData|'
                          r'Table|image|dict|Model|object|`', re.I)
CONTAINER_DOC_RE = re.compile(r'\b(dict|list|tuple)\b', re.I)


UNITCONV = 'in-place unit conversion'


class Site:
    """A root mutation sink (function, node, what) plus the call chain that
    leads to it from the function whose summary holds the site."""
    __slots__ = ('finfo', 'node', 'what', 'chain', 'lvl')

    def __init__(self, finfo, node, what, chain=(), lvl=0):
        self.finfo = finfo
        self.node = node
        self.what = what
        self.chain = tuple(chain)
        self.lvl = lvl

    @property
    def stmt(self):
        return enclosing_stmt(self.node) or self.node

    @property
    def loc(self):
        return f'{self.finfo.module.relpath}:{getattr(self.node, "lineno", 0)}'

    def key(self):
        return (self.finfo.fullname, norm_stmt_text(self.stmt), self.lvl)

    def via(self, hop):
        if len(self.chain) >= 6:
            return self
        return Site(self.finfo, self.node, self.what, (hop,) + self.chain, self.lvl)

    def describe(self):
        s = f'{self.loc} in {self.finfo.qualname}: {self.what}: `{norm_stmt_text(self.stmt)}`'
        if self.chain:
            s += ' reached via ' + ' -> '.join(self.chain)
        return s


class Summary:
    def __init__(self):
        self.mut = {}       # param -> {site_key: Site}
        self.mutf = {}      # field -> {site_key: Site}
        self.selfset = {}   # field -> {site_key: Site}   (self.a = v outside __init__)
        self.ret = EMPTY    # origins
        self.store = {}     # field -> origins

    def sig(self):
        return (tuple(sorted((p, tuple(sorted(v))) for p, v in self.mut.items())),
                tuple(sorted((p, tuple(sorted(v))) for p, v in self.mutf.items())),
                tuple(sorted((p, tuple(sorted(v))) for p, v in self.selfset.items())),
                tuple(sorted(self.ret)),
                tuple(sorted((k, tuple(sorted(v))) for k, v in self.store.items())))


def docstring_param_types(func_node):
    """numpydoc 'Parameters' section: name -> type text."""
    doc = ast.get_docstring(func_node, clean=True)
    out = {}
    if not doc:
        return out
    lines = doc.splitlines()
    in_params = False
    for i, ln in enumerate(lines):
        if ln.strip() in ('Parameters', 'Other Parameters') and i + 1 < len(lines) \
                and set(lines[i + 1].strip()) == {'-'}:
            in_params = True
            continue
        if in_params:
            if ln.strip() in ('Returns', 'Raises', 'Notes', 'Examples', 'See Also',
                              'Yields', 'Attributes', 'References', 'Warns') \
                    and i + 1 < len(lines) and set(lines[i + 1].strip()) == {'-'}:
                in_params = False
                continue
            m = re.match(r'^(\*{0,2}\w[\w, \*]*?)\s*:\s*(.*)$', ln)
            if m and not ln.startswith(' '):
                for nm in m.group(1).split(','):
                    out[nm.strip().lstrip('*')] = m.group(2)
    return out


class AliasAnalysis:
    """Whole-package driver."""

    def __init__(self, repo):
        self.repo = repo
        self.summaries = {}
        self.doc_types = {}
        self.param_kind_cache = {}
        self.unresolved = {}      # external callee name -> count (assumed pure/fresh)
        self.resolved_calls = 0
        self.unknown_index = 0
        self.field_types = {}     # (class fullname, field) -> ClassInfo
        self._funcs = [f for k, f in repo.functions.items()]
        for f in self._funcs:
            self.summaries[id(f)] = Summary()
        self._class_doc = {}
        self._compute_field_types()

    # -- kinds -------------------------------------------------------------
    def param_kind(self, f, name):
        """'scalar' | 'container' | 'array' (default)."""
        key = (id(f), name)
        if key in self.param_kind_cache:
            return self.param_kind_cache[key]
        kind = 'array'
        node = f.node
        a = node.args
        allargs = a.posonlyargs + a.args + a.kwonlyargs
        defaults = {}
        pos = a.posonlyargs + a.args
        for arg, d in zip(reversed(pos), reversed(a.defaults)):
            defaults[arg.arg] = d
        for arg, d in zip(a.kwonlyargs, a.kw_defaults):
            if d is not None:
                defaults[arg.arg] = d
        doc = self._doc_types(f)
        t = doc.get(name)
        if a.kwarg and a.kwarg.arg == name or a.vararg and a.vararg.arg == name:
            kind = 'container'
        elif t is not None:
            if SCALAR_DOC_RE.match(t) and not re.search(r'array|ndarray|Quantity|list|tuple|sequence', t, re.I):
                kind = 'scalar'
            elif re.match(r'^\s*(dict|list)\b', t, re.I):
                kind = 'container'
        else:
            d = defaults.get(name)
            if isinstance(d, ast.Constant) and isinstance(d.value, (int, float, str, bool)) and d.value is not None:
                kind = 'scalar'
            elif isinstance(d, ast.UnaryOp) and isinstance(d.operand, ast.Constant):
                kind = 'scalar'
        self.param_kind_cache[key] = kind
        return kind

    def _doc_types(self, f):
        k = id(f)
        if k not in self.doc_types:
            d = docstring_param_types(f.node)
            if f.cls is not None and f.name == '__init__' and not d:
                d = docstring_param_types(f.cls.node)
            self.doc_types[k] = d
        return self.doc_types[k]

    def _compute_field_types(self):
        for c in self.repo.classes.values():
            for fs in c.methods.values():
                for f in fs:
                    for n in ast.walk(f.node):
                        if isinstance(n, ast.Assign) and isinstance(n.value, ast.Call):
                            for t in n.targets:
                                if (isinstance(t, ast.Attribute) and isinstance(t.value, ast.Name)
                                        and t.value.id == 'self'):
                                    r = self.repo.resolve_call(f, n.value)
                                    if isinstance(r, ClassInfo):
                                        self.field_types[(c.fullname, t.attr)] = r

    def field_type(self, cls, attr):
        if cls is None:
            return None
        for c in cls.mro:
            if isinstance(c, ClassInfo):
                r = self.field_types.get((c.fullname, attr))
                if r is not None:
                    return r
        return None

    # -- fixpoint ------------------------------------------------------------
    def run(self, max_rounds=8):
        for rnd in range(max_rounds):
            changed = False
            self.unresolved = {}
            self.resolved_calls = 0
            self.unknown_index = 0
            for f in self._funcs:
                old = self.summaries[id(f)].sig()
                fa = FuncAlias(self, f)
                new = fa.analyse()
                self.summaries[id(f)] = new
                if new.sig() != old:
                    changed = True
            self.rounds = rnd + 1
            if not changed:
                break
        return self

    def summary(self, f):
        return self.summaries[id(f)]


def _shift(origins, d):
    """Put origins inside a container (depth -> 1)."""
    return frozenset((k, n, 1) for (k, n, _) in origins) if d else origins


_ITEM = {'P': 'Pi', 'Pi': 'Pi', 'F': 'Fi', 'Fi': 'Fi'}


def _elem(origins, item=True):
    """Element / attribute read.  Contents of a fresh container come out as
    the contained objects themselves; an element of a caller/field object is
    an *item* of it (kind Pi/Fi: possibly a scalar) unless item=False (a
    view: slice, .data, .mask, ...)."""
    out = set()
    for (k, n, d) in origins:
        if d:
            out.add((k, n, 0))
        else:
            out.add((_ITEM[k] if item else k, n, 0))
    return frozenset(out)


def _direct(origins):
    return frozenset(o for o in origins if o[2] == 0)


class FuncAlias(Flow):
    def __init__(self, driver, finfo):
        self.d = driver
        self.repo = driver.repo
        self.f = finfo
        self.cls = finfo.cls or getattr(finfo, 'owner_cls', None)
        self.summ = Summary()
        self.local_types = {}
        self._prepass_types()

    # ---- Flow plumbing ------------------------------------------------------
    def copy(self, s):
        return dict(s)

    def join(self, a, b):
        out = dict(a)
        for k, v in b.items():
            out[k] = out.get(k, EMPTY) | v
        return out

    def equal(self, a, b):
        return a == b

    def analyse(self):
        node = self.f.node
        init = {}
        a = node.args
        for arg in a.posonlyargs + a.args + a.kwonlyargs:
            init[arg.arg] = frozenset({('P', arg.arg, 0)})
        if a.vararg:
            init[a.vararg.arg] = frozenset({('P', a.vararg.arg, 1)})
        if a.kwarg:
            init[a.kwarg.arg] = frozenset({('P', a.kwarg.arg, 1)})
        # closures: a nested function sees the outer function's names as
        # opaque (its own summary is consumed by the outer one only via calls)
        self.run(node, init)
        ret = EMPTY
        for rnode, st in self.returns:
            if rnode is not None and rnode.value is not None and st is not None:
                ret |= self.ev(rnode.value, st)
        # generators: yielded values
        for n in ast.walk(node):
            if isinstance(n, (ast.Yield, ast.YieldFrom)) and n.value is not None:
                ret |= frozenset(('P', p, 1) for (k, p, _) in EMPTY)
        self.summ.ret = frozenset(o for o in ret if not (o[0] == 'P' and o[1] == 'self' and False))
        return self.summ

    def _prepass_types(self):
        cand = {}
        for n in ast.walk(self.f.node):
            if isinstance(n, ast.Assign) and len(n.targets) == 1 and isinstance(n.targets[0], ast.Name) \
                    and isinstance(n.value, ast.Call):
                r = self.repo.resolve_call(self.f, n.value)
                name = n.targets[0].id
                if isinstance(r, ClassInfo):
                    cand.setdefault(name, set()).add(r)
                else:
                    cand.setdefault(name, set()).add(None)
            elif isinstance(n, ast.Assign):
                for t in n.targets:
                    if isinstance(t, ast.Name):
                        cand.setdefault(t.id, set()).add(None)
        for k, v in cand.items():
            if len(v) == 1 and None not in v:
                self.local_types[k] = next(iter(v))

    # ---- recording -----------------------------------------------------------
    def _rec(self, table, name, site):
        t = table.setdefault(name, {})
        k = site.key()
        if k not in t or len(site.chain) < len(t[k].chain):
            t[k] = site

    def mutate(self, origins, node, what, chain=(), site=None, rebind_ok=False):
        """The object(s) with these origins are mutated in place here.
        rebind_ok: the construct is `name op= v`, which only rebinds when the
        name holds an item (possibly a scalar) of a caller/field object."""
        for (k, n, dpt) in origins:
            if dpt != 0:
                continue
            if rebind_ok and k in ('Pi', 'Fi'):
                continue
            st = site if site is not None else Site(self.f, node, what, chain)
            if k != 'P' and st.what.startswith(UNITCONV):
                # `<<=` mutates only when the object is a Quantity; fields that reach a private
                # unit-attaching helper hold unit-stripped ndarrays (the package's convention,
                # not decidable without types), so only caller parameters are tracked
                continue
            if k in ('P', 'Pi'):
                if n in ('self', 'cls'):
                    continue
                if rebind_ok and self.d.param_kind(self.f, n) == 'scalar':
                    continue
                if rebind_ok and 'unit' in n.lower():
                    continue
                self._rec(self.summ.mut, n, st)
            else:
                if rebind_ok and 'unit' in n.lower():
                    continue
                lvl = max(st.lvl, 1 if k == 'Fi' else 0)
                if lvl != st.lvl:
                    st = Site(st.finfo, st.node, st.what, st.chain, lvl)
                self._rec(self.summ.mutf, n, st)

    # ---- statements -----------------------------------------------------------
    def on_stmt(self, st, s):
        if isinstance(st, ast.Assign):
            val = self.ev(st.value, s)
            for t in st.targets:
                s = self.bind(t, val, st.value, s, st)
            return s
        if isinstance(st, ast.AnnAssign):
            if st.value is not None:
                val = self.ev(st.value, s)
                s = self.bind(st.target, val, st.value, s, st)
            return s
        if isinstance(st, ast.AugAssign):
            val = self.ev(st.value, s)
            t = st.target
            if isinstance(st.op, ast.LShift):
                # `x <<= unit`: for an ndarray this rebinds the name to a new Quantity view
                # (aliasing, no mutation); for a Quantity it converts the units IN PLACE.  A bare
                # parameter that may be a Quantity therefore needs a dominating
                # `not isinstance(x, Quantity)` guard.
                if isinstance(t, ast.Name):
                    cur = s.get(t.id, EMPTY)
                    direct = frozenset(o for o in cur if o[0] == 'P' and o[2] == 0 and o[1] == t.id)
                    if direct and not self._guarded_not_quantity(st, t.id):
                        self.mutate(direct, st, 'in-place unit conversion (`<<=`) of a possible caller Quantity')
                return s
            if isinstance(t, ast.Name):
                cur = s.get(t.id, EMPTY)
                if not self._scalar_value(st.value):
                    if 'unit' not in t.id.lower():
                        self.mutate(cur, st, 'augassign on name', rebind_ok=True)
                return s
            if isinstance(t, ast.Attribute):
                if isinstance(t.value, ast.Name) and t.value.id == 'self':
                    if not self._scalar_value(st.value):
                        cur = self.read_self_attr(t.attr, s)
                        self.mutate(cur, st, 'augassign on self attribute', rebind_ok=True)
                    return s
                base = self.ev(t.value, s)
                # obj.attr op= v : in-place on obj.attr (a sub-object of obj) and an attribute store
                self.mutate(_elem(base, item=t.attr not in VIEW_ATTRS), st, 'augassign on attribute', rebind_ok=t.attr not in VIEW_ATTRS)
                return s
            if isinstance(t, ast.Subscript):
                base = self.ev(t.value, s)
                self.ev(t.slice, s)
                self.mutate(_elem(base) if False else base, st, 'augassign on subscript')
                return s
            return s
        if isinstance(st, ast.Delete):
            for t in st.targets:
                if isinstance(t, ast.Subscript):
                    self.mutate(self.ev(t.value, s), st, 'del subscript')
                elif isinstance(t, ast.Attribute):
                    if isinstance(t.value, ast.Name) and t.value.id == 'self':
                        if self.f.name != '__init__':
                            self._rec(self.summ.selfset, t.attr, Site(self.f, st, 'del self attribute'))
                    else:
                        self.mutate(self.ev(t.value, s), st, 'del attribute')
                elif isinstance(t, ast.Name):
                    s = dict(s)
                    s.pop(t.id, None)
            return s
        if isinstance(st, ast.Expr):
            self.ev(st.value, s)
            return s
        if isinstance(st, ast.Assert):
            self.ev(st.test, s)
            return s
        if isinstance(st, (ast.FunctionDef, ast.AsyncFunctionDef, ast.ClassDef)):
            return s
        return s

    def on_expr(self, expr, s, role):
        self.ev(expr, s)
        return s

    def on_for_target(self, node, s):
        it = self.ev(node.iter, s)
        return self.bind(node.target, _elem(it), None, s, node, from_iter=True)

    def on_with_item(self, item, s):
        if item.optional_vars is not None:
            val = self.ev(item.context_expr, s)
            s = self.bind(item.optional_vars, val, None, s, item.context_expr)
        return s

    def branch(self, test, s):
        """`x is None` / `x is not None` / `not x` refinements: a name known to
        be None aliases nothing."""
        t, f = dict(s), dict(s)
        self._refine(test, t, f)
        return t, f

    def _refine(self, test, t, f):
        if isinstance(test, ast.Compare) and len(test.ops) == 1 and \
                isinstance(test.comparators[0], ast.Constant) and test.comparators[0].value is None \
                and isinstance(test.left, ast.Name):
            if isinstance(test.ops[0], ast.Is):
                t[test.left.id] = EMPTY
            elif isinstance(test.ops[0], ast.IsNot):
                f[test.left.id] = EMPTY
        elif isinstance(test, ast.UnaryOp) and isinstance(test.op, ast.Not):
            self._refine(test.operand, f, t)
        elif isinstance(test, ast.BoolOp) and isinstance(test.op, ast.And):
            for v in test.values:
                self._refine(v, t, {})
        elif isinstance(test, ast.BoolOp) and isinstance(test.op, ast.Or):
            for v in test.values:
                self._refine(v, {}, f)

    def on_except(self, handler, s):
        if handler.name:
            s = dict(s)
            s[handler.name] = EMPTY
        return s

    def _guarded_not_quantity(self, st, name):
        from . import guards as G
        g = G.guard_of(st, self.f.node)
        for a in G.atoms(g):
            if a.startswith(f'isinstance({name},') and 'Quantity' in a:
                # the guard formula must contain the NEGATED atom
                return G.satisfiable(G.conj([g, ('atom', a)])) is None
        return False

    def _scalar_value(self, v):
        """RHS of an augmented assignment that proves the target is a python
        scalar (x += 1 on a counter) -- numeric constants only."""
        return isinstance(v, ast.Constant) and isinstance(v.value, (int, float)) \
            and not isinstance(v.value, bool) and False

    # ---- binding ---------------------------------------------------------------
    def bind(self, target, val, value_node, s, stmt, from_iter=False):
        if isinstance(target, ast.Name):
            s = dict(s)
            s[target.id] = val
            return s
        if isinstance(target, (ast.Tuple, ast.List)):
            elts = target.elts
            if value_node is not None and isinstance(value_node, (ast.Tuple, ast.List)) \
                    and len(value_node.elts) == len(elts) \
                    and not any(isinstance(e, ast.Starred) for e in value_node.elts + elts):
                for t, v in zip(elts, value_node.elts):
                    s = self.bind(t, self.ev(v, s), v, s, stmt)
                return s
            # call returning a tuple: per-slot origins if the callee summary has them
            for t in elts:
                if isinstance(t, ast.Starred):
                    s = self.bind(t.value, val, None, s, stmt)
                else:
                    s = self.bind(t, _elem(val), None, s, stmt)
            return s
        if isinstance(target, ast.Starred):
            return self.bind(target.value, val, None, s, stmt)
        if isinstance(target, ast.Attribute):
            if isinstance(target.value, ast.Name) and target.value.id == 'self':
                s = dict(s)
                s['self.' + target.attr] = val
                self.summ.store[target.attr] = self.summ.store.get(target.attr, EMPTY) | val
                if self.f.name not in ('__init__', '__new__', '__post_init__'):
                    self._rec(self.summ.selfset, target.attr,
                              Site(self.f, stmt, 'self attribute assigned'))
                return s
            base = self.ev(target.value, s)
            self.mutate(_direct(base), stmt, 'attribute assigned on object')
            return s
        if isinstance(target, ast.Subscript):
            base = self.ev(target.value, s)
            self.ev(target.slice, s)
            # self.__dict__['k'] = v  : a field store
            if self._is_self_dict(target.value):
                key = self._const_key(target.slice)
                if key is not None:
                    self.summ.store[key] = self.summ.store.get(key, EMPTY) | val
                    if self.f.name not in ('__init__',):
                        self._rec(self.summ.selfset, key, Site(self.f, stmt, 'self.__dict__ store'))
                    return s
            self.mutate(base, stmt, 'subscript store')
            # the container now also holds val
            if isinstance(target.value, ast.Name):
                s = dict(s)
                s[target.value.id] = s.get(target.value.id, EMPTY) | _shift(val, 1)
            elif (isinstance(target.value, ast.Attribute) and isinstance(target.value.value, ast.Name)
                  and target.value.value.id == 'self'):
                a = target.value.attr
                self.summ.store[a] = self.summ.store.get(a, EMPTY) | _shift(val, 1)
            return s
        return s

    def _is_self_dict(self, node):
        return (isinstance(node, ast.Attribute) and node.attr == '__dict__'
                and isinstance(node.value, ast.Name) and node.value.id == 'self')

    def _const_key(self, sl):
        if isinstance(sl, ast.Constant) and isinstance(sl.value, str):
            return sl.value
        return None

    # ---- expressions -------------------------------------------------------------
    def read_self_attr(self, attr, s):
        key = 'self.' + attr
        if key in s:
            return s[key] | frozenset({('F', attr, 0)})
        out = frozenset({('F', attr, 0)})
        if self.cls is not None:
            g = self.cls.lookup(attr)
            if g is not None and g.is_property:
                sm = self.d.summary(g)
                out |= self.map_ret(sm.ret, {'self': frozenset({('P', 'self', 0)})}, recv_is_self=True)
                if not g.is_lazy:
                    out -= frozenset({('F', attr, 0)})
                    out |= self.map_ret(sm.ret, {}, recv_is_self=True)
        return out

    def index_is_copy(self, sl, s):
        """True when subscripting with `sl` surely yields a fresh array
        (boolean / fancy index)."""
        if isinstance(sl, ast.Tuple):
            return any(self.index_is_copy(e, s) for e in sl.elts)
        if isinstance(sl, (ast.Compare, ast.List, ast.ListComp)):
            return True
        if isinstance(sl, ast.UnaryOp) and isinstance(sl.op, ast.Invert):
            return True
        if isinstance(sl, ast.BoolOp):
            return False
        if isinstance(sl, ast.BinOp) and isinstance(sl.op, (ast.BitAnd, ast.BitOr, ast.BitXor)):
            return True
        if isinstance(sl, ast.Call):
            d = dotted(sl.func) or ''
            last = d.split('.')[-1]
            if last in ('isnan', 'isfinite', 'isinf', 'logical_and', 'logical_or',
                        'logical_not', 'logical_xor', 'where', 'nonzero', 'argsort',
                        'flatnonzero', 'isin', 'in1d', 'argwhere', 'isclose',
                        'greater', 'less', 'equal', 'not_equal', 'invert',
                        'argpartition', 'triu_indices', 'tril_indices', 'ix_',
                        'array', 'asarray', 'arange'):
                return True
        if isinstance(sl, ast.Name):
            nm = sl.id.lower()
            if 'mask' in nm or nm.endswith('idx') and False:
                return True
        return False

    def index_is_item(self, sl):
        """Index that selects one element (integer / string key)."""
        if isinstance(sl, ast.Constant) and isinstance(sl.value, (int, str)):
            return True
        if isinstance(sl, ast.UnaryOp) and isinstance(sl.operand, ast.Constant):
            return True
        if isinstance(sl, ast.Tuple) and sl.elts and all(self.index_is_item(x) for x in sl.elts):
            return True
        return False

    def ev(self, e, s):
        """Origins the value of expression e may alias; records effects."""
        if e is None:
            return EMPTY
        m = getattr(self, 'ev_' + type(e).__name__, None)
        if m is not None:
            return m(e, s)
        # generic: evaluate children for effects
        for c in ast.iter_child_nodes(e):
            if isinstance(c, ast.expr):
                self.ev(c, s)
        return EMPTY

    def ev_Constant(self, e, s):
        return EMPTY

    def ev_Name(self, e, s):
        return s.get(e.id, EMPTY)

    def ev_Attribute(self, e, s):
        if isinstance(e.value, ast.Name) and e.value.id == 'self' and 'self' in self.f.params[:1]:
            if e.attr == '__dict__':
                return EMPTY
            return self.read_self_attr(e.attr, s)
        base = self.ev(e.value, s)
        if e.attr in SCALAR_ATTRS:
            return EMPTY
        if e.attr == 'meta' and not _direct(base):
            return EMPTY
        return _elem(base, item=e.attr not in VIEW_ATTRS)

    def ev_Subscript(self, e, s):
        base = self.ev(e.value, s)
        self.ev(e.slice, s)
        if self._is_self_dict(e.value):
            key = self._const_key(e.slice)
            if key is not None:
                return self.read_self_attr(key, s)
        if self.index_is_copy(e.slice, s):
            # fancy/boolean index of an array: fresh copy.  (A container held
            # at depth 1 cannot be indexed by a boolean expression.)
            return EMPTY
        item = self.index_is_item(e.slice)
        # an integer index into a transposed array selects a row of a >= 2-D array: a view, never a scalar item
        v = e.value
        if item and ((isinstance(v, ast.Call) and self._call_name(v).split('.')[-1] in ('transpose', 'swapaxes', 'atleast_2d'))
                     or (isinstance(v, ast.Attribute) and v.attr == 'T')):
            item = False
        return _elem(base, item=item)

    def _call_name(self, call):
        try:
            return ast.unparse(call.func)
        except Exception:
            return ''

    def ev_Starred(self, e, s):
        return self.ev(e.value, s)

    def ev_Tuple(self, e, s):
        out = EMPTY
        for x in e.elts:
            out |= _shift(self.ev(x, s), 1)
        return out

    ev_List = ev_Tuple
    ev_Set = ev_Tuple

    def ev_Dict(self, e, s):
        out = EMPTY
        for k in e.keys:
            if k is not None:
                self.ev(k, s)
        for v in e.values:
            out |= _shift(self.ev(v, s), 1)
        return out

    def ev_IfExp(self, e, s):
        self.ev(e.test, s)
        return self.ev(e.body, s) | self.ev(e.orelse, s)

    def ev_BoolOp(self, e, s):
        out = EMPTY
        for v in e.values:
            out |= self.ev(v, s)
        return out

    def ev_NamedExpr(self, e, s):
        v = self.ev(e.value, s)
        if isinstance(e.target, ast.Name):
            s[e.target.id] = v
        return v

    def ev_BinOp(self, e, s):
        left = self.ev(e.left, s)
        self.ev(e.right, s)
        if isinstance(e.op, ast.LShift):
            return left   # data << unit : Quantity view of data
        return EMPTY

    def ev_UnaryOp(self, e, s):
        self.ev(e.operand, s)
        return EMPTY

    def ev_Compare(self, e, s):
        self.ev(e.left, s)
        for c in e.comparators:
            self.ev(c, s)
        return EMPTY

    def ev_JoinedStr(self, e, s):
        return EMPTY

    def ev_Lambda(self, e, s):
        return EMPTY

    def ev_Await(self, e, s):
        return self.ev(e.value, s)

    def _comp(self, e, s, elts):
        s2 = dict(s)
        for gen in e.generators:
            it = self.ev(gen.iter, s2)
            s2 = self.bind(gen.target, _elem(it), None, s2, e, from_iter=True)
            for c in gen.ifs:
                self.ev(c, s2)
        out = EMPTY
        for x in elts:
            out |= _shift(self.ev(x, s2), 1)
        return out

    def ev_ListComp(self, e, s):
        return self._comp(e, s, [e.elt])

    ev_SetComp = ev_ListComp
    ev_GeneratorExp = ev_ListComp

    def ev_DictComp(self, e, s):
        return self._comp(e, s, [e.value])

    # ---- calls --------------------------------------------------------------------
    def ev_Call(self, e, s):
        func = e.func
        argvals = [self.ev(a, s) for a in e.args]
        kwvals = {}
        starkw = EMPTY
        for kw in e.keywords:
            v = self.ev(kw.value, s)
            if kw.arg is None:
                starkw |= v
            else:
                kwvals[kw.arg] = v
        recv = None
        recv_node = None
        if isinstance(func, ast.Attribute):
            recv_node = func.value
            recv = self.ev(func.value, s)
        # out= keyword of ufuncs: written in place
        if 'out' in kwvals:
            kwnode = [k for k in e.keywords if k.arg == 'out'][0]
            if not (isinstance(kwnode.value, ast.Constant) and kwnode.value.value is None):
                self.mutate(kwvals['out'], e, 'written through out=')
        callee = self.repo.resolve_call(self.f, e, self._types_for(func, s))
        if callee is None and isinstance(func, ast.Attribute):
            callee = '?.' + func.attr
        # callable object held in a local / field of known class
        if isinstance(callee, FunctionInfo):
            self.d.resolved_calls += 1
            return self.call_inrepo(e, callee, recv, recv_node, argvals, kwvals, starkw, s)
        if isinstance(callee, ClassInfo):
            self.d.resolved_calls += 1
            init = callee.lookup('__init__')
            held = EMPTY
            if init is not None:
                amap = self.bind_args(init, e, argvals, kwvals, starkw, skip_self=True)
                sm = self.d.summary(init)
                self.apply_effects(e, init, sm, amap, recv_origins=EMPTY, recv_is_self=False,
                                   chain_name=f'{callee.name}()')
                for fld, orgs in sm.store.items():
                    held |= _shift(self.map_ret(orgs, amap, recv_is_self=False, recv=EMPTY), 1)
            else:
                for v in argvals:
                    held |= _shift(v, 1)
                for v in kwvals.values():
                    held |= _shift(v, 1)
            return held
        name = callee if isinstance(callee, str) else ''
        return self.call_external(e, name, recv, recv_node, argvals, kwvals, starkw, s)

    def _types_for(self, func, s):
        lt = self.local_types
        if isinstance(func, ast.Attribute) and isinstance(func.value, ast.Attribute) \
                and isinstance(func.value.value, ast.Name) and func.value.value.id == 'self':
            t = self.d.field_type(self.cls, func.value.attr)
            if t is not None:
                lt = dict(lt)
                lt['self.' + func.value.attr] = t
        return lt

    def bind_args(self, g, call, argvals, kwvals, starkw, skip_self):
        """Map callee parameter names -> origins at this call."""
        a = g.node.args
        pos = [x.arg for x in a.posonlyargs + a.args]
        if skip_self and pos and not g.is_static:
            pos = pos[1:]
        amap = {}
        has_star = any(isinstance(x, ast.Starred) for x in call.args)
        if has_star:
            allv = EMPTY
            for v in argvals:
                allv |= _elem(v)
            for p in pos:
                amap[p] = allv
            if a.vararg:
                amap[a.vararg.arg] = _shift(allv, 1)
        else:
            for i, v in enumerate(argvals):
                if i < len(pos):
                    amap[pos[i]] = v
                elif a.vararg:
                    amap[a.vararg.arg] = amap.get(a.vararg.arg, EMPTY) | _shift(v, 1)
        kwnames = set(pos) | {x.arg for x in a.kwonlyargs}
        for k, v in kwvals.items():
            if k in kwnames:
                amap[k] = amap.get(k, EMPTY) | v
            elif a.kwarg:
                amap[a.kwarg.arg] = amap.get(a.kwarg.arg, EMPTY) | _shift(v, 1)
        if starkw:
            ev = _elem(starkw)
            for p in kwnames:
                if p not in amap:
                    amap[p] = ev
            if a.kwarg:
                amap[a.kwarg.arg] = amap.get(a.kwarg.arg, EMPTY) | _shift(ev, 1)
        return amap

    def map_ret(self, origins, amap, recv_is_self, recv=EMPTY):
        out = EMPTY
        for (k, n, dpt) in origins:
            if k == 'P':
                if n == 'self':
                    src = frozenset({('P', 'self', 0)}) if recv_is_self else recv
                else:
                    src = amap.get(n, EMPTY)
                out |= _shift(src, 1) if dpt else src
            elif k == 'F':
                if recv_is_self:
                    out |= frozenset({(k, n, dpt)})
                else:
                    out |= _shift(_elem(recv), 1) if dpt else _elem(recv)
        return out

    def apply_effects(self, call, g, sm, amap, recv_origins, recv_is_self, chain_name):
        hop = f'{chain_name}@{self.f.module.relpath}:{call.lineno}'
        # parameters mutated by the callee
        for p, sites in sm.mut.items():
            src = amap.get(p, EMPTY)
            if not src:
                continue
            for site in sites.values():
                self.mutate(src, call, site.what, site=site.via(hop))
        # fields of the receiver mutated / assigned by the callee
        if g.cls is not None and not g.is_static:
            if recv_is_self:
                for fld, sites in sm.mutf.items():
                    for site in sites.values():
                        self._rec(self.summ.mutf, fld, site.via(hop))
                if self.f.name not in ('__init__',):
                    for fld, sites in sm.selfset.items():
                        for site in sites.values():
                            self._rec(self.summ.selfset, fld, site.via(hop))
                for fld, orgs in sm.store.items():
                    mapped = self.map_ret(orgs, amap, recv_is_self=True)
                    self.summ.store[fld] = self.summ.store.get(fld, EMPTY) | mapped
            else:
                # the receiver is another object: state it holds is part of it
                direct = _direct(recv_origins)
                if direct and g.name not in ('__init__',):
                    for fld, sites in sm.mutf.items():
                        for site in sites.values():
                            self.mutate(direct, call, site.what, site=site.via(hop))
                    for fld, sites in sm.selfset.items():
                        if g.is_lazy or self._is_cache_field(g, fld):
                            continue
                        for site in sites.values():
                            self.mutate(direct, call, site.what, site=site.via(hop))

    def _is_cache_field(self, g, fld):
        """A lazyproperty's own cache slot is not observable state."""
        if g.cls is None:
            return False
        h = g.cls.lookup(fld)
        return h is not None and h.is_lazy

    def call_inrepo(self, e, g, recv, recv_node, argvals, kwvals, starkw, s):
        is_method = g.cls is not None and not g.is_static and isinstance(e.func, ast.Attribute)
        recv_is_self = (is_method and isinstance(recv_node, ast.Name) and recv_node.id in ('self',)
                        and self.cls is not None)
        # Class.method(self, ...) explicit form or super().method(...)
        if is_method and isinstance(recv_node, ast.Call) and isinstance(recv_node.func, ast.Name) \
                and recv_node.func.id == 'super':
            recv_is_self = True
        explicit_self = False
        if g.cls is not None and not g.is_static and isinstance(e.func, ast.Attribute) \
                and isinstance(recv_node, ast.Name) and recv_node.id == g.cls.name:
            explicit_self = True
        skip_self = g.cls is not None and not g.is_static and not explicit_self and not g.is_classmethod
        if g.is_classmethod:
            skip_self = True
        amap = self.bind_args(g, e, argvals, kwvals, starkw, skip_self=skip_self)
        sm = self.d.summary(g)
        recv_origins = recv if (is_method and not recv_is_self) else EMPTY
        if explicit_self and argvals:
            recv_origins = argvals[0]
            first = g.pos_params[0] if g.pos_params else None
            if isinstance(e.args[0], ast.Name) and e.args[0].id == 'self':
                recv_is_self = True
                recv_origins = EMPTY
        self.apply_effects(e, g, sm, amap, recv_origins, recv_is_self, g.qualname)
        return self.map_ret(sm.ret, amap, recv_is_self=recv_is_self,
                            recv=recv_origins if recv_origins else (recv or EMPTY))

    def call_external(self, e, name, recv, recv_node, argvals, kwvals, starkw, s):
        func = e.func
        copy_kw = None
        for kw in e.keywords:
            if kw.arg == 'copy':
                copy_kw = kw.value
        copy_false = isinstance(copy_kw, ast.Constant) and copy_kw.value is False
        copy_true = isinstance(copy_kw, ast.Constant) and copy_kw.value is True
        copy_unknown = copy_kw is not None and not isinstance(copy_kw, ast.Constant)

        def pick(spec):
            out = EMPTY
            if spec == '*':
                for v in argvals:
                    out |= v
                if len(argvals) > 1:
                    out = _shift(out, 1) | out
                return out
            for i in spec:
                if isinstance(i, int):
                    if i < len(argvals):
                        out |= argvals[i]
                else:
                    out |= kwvals.get(i, EMPTY)
            return out

        if isinstance(func, ast.Attribute):
            attr = func.attr
            # method on some object
            if name.startswith('?.') or name.startswith('self.') or name.startswith('super.'):
                return self.method_external(e, attr, recv, recv_node, argvals, kwvals,
                                            copy_false, copy_unknown, s)
        if name in MUTATING_FUNCS:
            for i in MUTATING_FUNCS[name]:
                if i < len(argvals):
                    self.mutate(argvals[i] if name not in ('setattr', 'delattr') else _elem(argvals[i]),
                                e, f'{name}() writes into its argument')
            return EMPTY
        if name in ALIAS_FUNCS:
            if name == 'numpy.nan_to_num':
                pass
            out = pick(ALIAS_FUNCS[name])
            if name in ('zip', 'enumerate', 'list', 'tuple', 'sorted', 'reversed', 'set',
                        'frozenset', 'iter', 'dict', 'itertools.chain', 'itertools.product',
                        'itertools.cycle', 'itertools.islice', 'filter'):
                # new container holding the same elements
                return frozenset((k, n, 1) for (k, n, d) in out)
            if name == 'getattr':
                return _elem(out)
            if name == 'next':
                return _elem(out)
            return out
        if name in COPY_KW_FUNCS:
            spec, default_copy = COPY_KW_FUNCS[name]
            aliases = (not default_copy and not copy_true) or copy_false or copy_unknown
            if name == 'numpy.nan_to_num' and (copy_false or copy_unknown) and argvals:
                self.mutate(argvals[0], e, 'numpy.nan_to_num(copy=False) writes into its argument')
            if aliases:
                return pick(spec)
            return EMPTY
        if name in HOLDER_FUNCS:
            out = EMPTY
            for v in argvals:
                out |= _shift(v, 1)
            for v in kwvals.values():
                out |= _shift(v, 1)
            return out
        if name in ('copy.copy',):
            return _shift(_elem(argvals[0]), 1) if argvals and any(o[2] for o in argvals[0]) else EMPTY
        if name == 'super':
            return frozenset({('P', 'self', 0)})
        # sigma-clipping helpers with copy=False write NaN into the input
        if copy_false and argvals:
            masked_false = any(kw.arg == 'masked' and isinstance(kw.value, ast.Constant)
                               and kw.value.value is False for kw in e.keywords)
            if masked_false:
                self.mutate(argvals[0], e, f'{name or unparse(func)}(copy=False, masked=False) writes into its argument')
            return argvals[0]
        # unknown / pure external: fresh result, no effect (assumption, counted)
        key = name or unparse(func, 60)
        self.d.unresolved[key] = self.d.unresolved.get(key, 0) + 1
        return EMPTY

    def method_external(self, e, attr, recv, recv_node, argvals, kwvals, copy_false, copy_unknown, s):
        recv = recv or EMPTY
        if attr == 'copy':
            # ndarray/Table/Model/Quantity .copy(): fresh.  dict/list .copy()
            # is shallow: contents keep their owners.
            if isinstance(recv_node, ast.Name) and any(
                    o[0] == 'P' and self.d.param_kind(self.f, o[1]) == 'container' and o[2] == 0
                    for o in recv):
                return frozenset((k, n, 1) for (k, n, d) in recv)
            return frozenset(o for o in recv if o[2] == 1)
        if attr == 'astype':
            if copy_false or copy_unknown:
                return recv
            return EMPTY
        if attr in ('to', 'decompose', 'si', 'cgs') :
            if copy_false:
                return recv
            return EMPTY
        if attr in MUTATING_METHODS:
            # in-place method of ndarray / list / dict / set / Table
            if attr in ('pop', 'setdefault', 'update', 'add', 'remove', 'insert', 'sort', 'clear',
                        'append', 'extend', 'reverse', 'discard', 'fill', 'put', 'resize',
                        'partition', 'setflags', 'itemset') or True:
                self.mutate(recv, e, f'in-place method .{attr}()')
            if attr in ('append', 'extend', 'insert', 'add', 'update', 'setdefault', 'add_column',
                        'add_columns', 'add_row', 'replace_column', '__setitem__'):
                held = EMPTY
                for v in argvals:
                    held |= _shift(v, 1) if attr not in ('extend', 'update') else frozenset((k, n, 1) for (k, n, d) in v)
                for v in kwvals.values():
                    held |= _shift(v, 1)
                if held:
                    if isinstance(recv_node, ast.Name):
                        s[recv_node.id] = s.get(recv_node.id, EMPTY) | held
                    elif (isinstance(recv_node, ast.Attribute) and isinstance(recv_node.value, ast.Name)
                          and recv_node.value.id == 'self'):
                        a = recv_node.attr
                        self.summ.store[a] = self.summ.store.get(a, EMPTY) | held
            if attr in ('pop', 'setdefault', 'popitem'):
                return _elem(recv)
            return EMPTY
        if attr in ALIAS_METHODS:
            if attr in ('values', 'items', 'keys'):
                return frozenset((k, n, 1) for (k, n, d) in recv)
            return _elem(recv)
        key = '.' + attr
        self.d.unresolved[key] = self.d.unresolved.get(key, 0) + 1
        return EMPTY


# ---------------------------------------------------------------------------
# Package-level rules A1 / A2
# ---------------------------------------------------------------------------

def is_public_function(repo, f):
    """A function/method a user can call: listed in its module's __all__, or a
    non-underscore method/property (or dunder) of a class, where the class is
    public or is handed out by the public API."""
    if f.outer is not None:
        return False
    if f.cls is None:
        if f.name.startswith('_'):
            return False
        m = f.module
        if m.all is not None:
            return f.name in m.all
        return not m.name.split('.')[-1].startswith('_')
    if f.cls.name.startswith('_'):
        return False
    if f.name.startswith('__') and f.name.endswith('__'):
        return True
    return not f.name.startswith('_')


class FieldTaint:
    """For every class: which fields may hold a caller-owned object.

    taint[(class, field)] = {(entry qualname, param, depth)}; depth 0: the
    field *is* (a view of) the caller's object; depth 1: the field is a fresh
    container/object that holds it.
    """

    def __init__(self, driver):
        self.d = driver
        self.repo = driver.repo
        self.taint = {}
        self._compute()

    def _compute(self):
        repo = self.repo
        direct = {}
        fdeps = {}
        for c in repo.classes.values():
            for f in c.all_functions():
                sm = self.d.summary(f)
                ext = (f.name.startswith('__') and f.name.endswith('__')) or \
                    not f.name.startswith('_') or f.is_lazy or f.is_property
                stores = dict(sm.store)
                if f.is_lazy or (f.is_property and not f.is_setter):
                    stores[f.name] = stores.get(f.name, EMPTY) | sm.ret
                for fld, orgs in stores.items():
                    for (k, n, dpt) in orgs:
                        if k in ('P', 'Pi') and n not in ('self', 'cls'):
                            if not ext:
                                continue
                            if self.d.param_kind(f, n) == 'scalar':
                                continue
                            direct.setdefault((c.fullname, fld), set()).add((f.qualname, n, dpt))
                        elif k in ('F', 'Fi') and n != fld:
                            fdeps.setdefault((c.fullname, fld), set()).add((n, dpt))
        taint = {k: set(v) for k, v in direct.items()}
        changed = True
        while changed:
            changed = False
            for (cn, fld), deps in fdeps.items():
                for (dname, dpt) in deps:
                    src = taint.get((cn, dname))
                    if src:
                        add = {(e, p, min(1, dm + dpt)) for (e, p, dm) in src}
                        cur = taint.setdefault((cn, fld), set())
                        if not add <= cur:
                            cur |= add
                            changed = True
        self.taint = taint

    def sources(self, cls, fld, lvl):
        """Caller-owned sources a mutation of self.<fld> at level lvl would hit."""
        out = set()
        for c in cls.mro:
            if isinstance(c, ClassInfo):
                for (e, p, d) in self.taint.get((c.fullname, fld), ()):
                    # depth-1 taints (the field is a fresh container that
                    # holds caller objects next to fresh ones) are not
                    # reported: contents of containers are merged, so the
                    # mutated element cannot be told from its fresh siblings
                    # (documented gap, DESIGN 3.1)
                    if d == 0:
                        out.add((e, p))
        return out
