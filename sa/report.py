"""Findings, results, evidence files, known-findings matching."""
from __future__ import annotations

import json
import os
import time

VERIF = os.path.dirname(os.path.dirname(os.path.abspath(__file__)))
KNOWN_FILE = os.path.join(VERIF, 'known_findings.json')
EVIDENCE_DIR = os.path.join(VERIF, 'evidence')


class Finding:
    def __init__(self, rule, func, construct, loc, message, detail=None):
        self.rule = rule            # rule id, e.g. 'A1'
        self.func = func            # qualified function / class the construct lives in
        self.construct = construct  # normalised construct text (no line numbers)
        self.loc = loc              # file:line on this run (informational)
        self.message = message
        self.detail = detail or {}

    @property
    def key(self):
        return f'{self.rule}|{self.func}|{self.construct}'

    def to_json(self):
        return {'rule': self.rule, 'function': self.func, 'construct': self.construct,
                'location': self.loc, 'message': self.message, 'detail': self.detail,
                'key': self.key}


class Result:
    """What one property check did on one run."""

    def __init__(self, prop):
        self.prop = prop
        self.findings = []
        self.obligations = 0
        self.discharged = 0
        self.nontrivial = set()     # distinct non-trivial obligations (hashable descriptions)
        self.rule_instances = {}    # rule -> instances examined
        self.floors = {}            # rule -> minimum instances confirmed by hand
        self.samples = []
        self.explanation = ''
        self.not_decided = ''
        self.assumptions = []
        self.exhaustive_rules = []
        self.notes = {}
        self.liveness = []

    def inst(self, rule, n=1):
        self.rule_instances[rule] = self.rule_instances.get(rule, 0) + n

    def oblige(self, rule, desc, ok, nontrivial=True, sample=None):
        """Record one obligation examined by `rule`."""
        self.obligations += 1
        self.inst(rule)
        if ok:
            self.discharged += 1
        if nontrivial:
            self.nontrivial.add((rule, desc))
        if sample is not None and len([s for s in self.samples if s.get('rule') == rule]) < 3:
            d = {'rule': rule, 'obligation': desc, 'ok': bool(ok)}
            d.update(sample)
            self.samples.append(d)

    def add(self, finding):
        for f in self.findings:
            if f.key == finding.key:
                return
        self.findings.append(finding)

    def floor(self, rule, n):
        self.floors[rule] = n


def load_known():
    if not os.path.exists(KNOWN_FILE):
        return []
    with open(KNOWN_FILE) as fh:
        return json.load(fh).get('findings', [])


def split_findings(prop, findings):
    known = [k for k in load_known() if k.get('property') == prop and k.get('status') == 'known']
    kmap = {k['key']: k for k in known}
    old, new = [], []
    for f in findings:
        if f.key in kmap:
            old.append((f, kmap[f.key]))
        else:
            new.append(f)
    return old, new


RULE_GLOSSARY = {
    'SEED': 'no mutator stores into a lazyproperty cache a value that the ALLOWED_SEEDS table does not vouch for',
    'NAN-TWIN': 'generic pack: a function does not mix the NaN-aware and the NaN-blind form of one numpy reduction',
    'APPEND-TWIN': 'generic pack: sibling branches append the same variable to one result list',
    'PARAM-UNUSED': 'generic pack: a parameter the reference definition reads is still read',
    'QUADFORM': 'generic pack: a one-axis coefficient of a quadratic form multiplies displacements of its own axis only',
    'MUTABLE-DEFAULT': 'generic pack: a parameter default bound to a mutable display is never modified, stored or passed on',
    'LOOP-BREAK': 'generic pack: an exception handler inside a per-element loop skips the element (continue), it never leaves the loop',
    'LOOP-COUNTER': 'generic pack: a counter that limits work per element is reset inside the per-element loop',
    'GUARD-FAMILY': 'generic pack: an `a_x or a_y` guard names every flag of the family that its block consumes',
    'MEMO-STALE': 'generic pack: a hand-rolled `if self._m is None` memo is reset wherever its inputs are written',
    'A2-PROP': 'generic pack: a property getter (plain or lazy) modifies no stored array of its object in place (E-ALIAS summary)',
    'A1': 'ownership/alias may-analysis: no caller-owned object (or view, or field holding it) reaches an in-place sink',
    'A1-field': 'fields that store a caller object are not mutated (or the site is a named, reasoned exemption)',
    'A2': 'getters / stateless helpers modify no stored array or container in place',
    'L1': 'every state write of a public mutator is followed on every path by invalidation of every dependent lazy cache',
    'L2': 'cache-presence branches agree with the getter', 'L3': 'kill/use typestate of memory-saving deletions',
    'L4': 'aperture descriptors reset every cache before storing; positions are stored as a private copy; no narrower override',
    'L5': 'memo key covers everything the memoised value depends on',
    'LP1': 'no container entry carried from one loop iteration (source) to the next', 'LP1b': 'no pre-loop array modified in place with a per-iteration value',
    'LP1c': 'no loop-local used on a path of the iteration that did not assign it (incl. swallowed exceptions)',
    'LP2': 'first-iteration actions cannot be skipped', 'LP3': 'parallel result lists receive the same appends', 'LP4': 'registered arrays are cut with the same slice variable',
    'SPEC': 'a statement / return / condition has the documented formula (algebraic normal form, accepted alternatives listed)',
    'SIB': 'sibling implementations agree', 'CLONE': 'near-clone methods of sibling classes are exact clones up to an accepted table',
    'LOOP-TWIN': 'a while-loop re-evaluates its control value with the expression that initialised it',
    'T-AXIS': 'x/y pairing by naming convention incl. external coordinate-order models', 'T-MIRROR': 'axis-mirrored statement pairs carry no copy-paste signature',
    'T-FRAME': 'image-frame and cutout-frame twins differ by exactly the origin', 'T-ORDER': 'group-ordered values pass _order_by_id/_ungroup before publication',
    'T-SLOT': 'tuple/table slots of writer and reader agree', 'T-FAMILY': 'sum_method-family values never derive from centre-method masks', 'T-CARD': 'one entry per label',
    'FWD': 'every option a function holds is forwarded to the callee that implements it', 'DEADSTORE': 'no assigned-but-never-read local (misspelt target)',
    'NONFINITE': 'announced non-finite handling is isfinite-based', 'SCALE': 'no absolute tolerance in code that must be scale-equivariant',
    'GUARD': 'a step runs under exactly the allowed conditions', 'RELABEL': 'final relabel structure', 'MERGE': 'merge statements of deblend_sources',
    'SCHED': 'as_completed loop body only stores results[submission index]', 'TABLE': 'finite-domain abstract interpretation of the method table',
    'UNIT': 'angles are converted to a stated unit before their bare number is taken', 'UNIT-LAST': 'no bare value stored into a local after units were attached',
    'USERCOL': 'guard of every init_params column store entails "column not supplied"', 'DTYPE': 'dtype-kind dataflow (NaN store / in-place float op on a caller-dtype array)',
    'QTY': 'Quantity-capable inputs are unit-checked together', 'CASTDT': 'no foreign value forced into the image dtype', 'CONV': 'integer images converted to float',
    'CACHE-PURE': 'no method modifies a cached property value in place', 'GETITEM': '__getitem__ carries every attribute over', 'SHARE': 'by-reference shared containers are never mutated',
    'SCALAR-SHAPE': 'per-source indexing of @as_scalar values is scalar-safe', 'DECOR': 'decorator stacks / as_scalar wrapper', 'ECALL': 're-entrancy of call-like entries',
    'ATOMIC': 'coupled state updated all-or-nothing', 'COUPLED': 'label array and deblend map change together', 'MIRROR': 'mirrored expressions (error like data, rms like bkg)',
    'LABEL-EQ': 'label-array cutouts are compared with `label` inside per-label loops', 'ROUND': 'no round-half-to-even call', 'KEYPAIR': 'column-key copy-paste signature',
    'TRUTHY': 'optional numeric parameters tested against None', 'AXIS-DISPATCH': 'axis-neutral code after a per-axis dispatch', 'LATE-UPDATE': 'a mask is complete before it is merged',
    'WHO': 'who may call', 'MUST-PASS': 'must pass through', 'D1': 'mask builders', 'D2': 'return/None discipline', 'D3': 'who may seed private state', 'NEGZERO': 'negative-zero slice',
    'PRF': 'pixel-integrated PRF pattern', 'TWIN': 'scalar and array forms of one transform agree', 'FIXED': 'fixed-parameter flags handed on', 'SLOT': 'profile/area/error slots',
    'CLASS-MUTABLE': 'no mutable class attribute modified through self', 'LIVENESS': 'seeded in-memory faults are reported', 'SEEDED': 'stored independently written changes are reported',
    'BENIGN': 'silent on behaviour-preserving whole-package variants',
}


def _per_rule_samples(samples, per_rule=4):
    seen, out = {}, []
    for s_ in samples:
        r = s_.get('rule') if isinstance(s_, dict) else None
        if seen.get(r, 0) < per_rule:
            seen[r] = seen.get(r, 0) + 1
            out.append(s_)
    return out[:160]


def _renames():
    try:
        from . import canon
        return [list(x) for x in canon.RENAMES[:20]]
    except Exception:
        return []


def write_evidence(res, tier, seed, wall, nviol, known_hits):
    os.makedirs(EVIDENCE_DIR, exist_ok=True)
    cov = {
        'explanation': res.explanation + (' NOT DECIDED: ' + res.not_decided if res.not_decided else ''),
        'obligations': res.obligations,
        'discharged': res.discharged,
        'evaluations': max(res.obligations, 1),
        'distinct_nontrivial': len(res.nontrivial),
        'rule': 'an obligation is one (rule, construct) pair examined on the parsed tree; it is '
                'non-trivial when the rule had to follow a path, dominance, alias chain or table row '
                'to decide it; distinct = distinct (rule, description) pairs',
        'rule_instances': res.rule_instances,
        'floors': res.floors,
        'samples': _per_rule_samples(res.samples) or [{'note': 'no obligations'}],
        'rule_glossary': {r: RULE_GLOSSARY.get(r, 'see DESIGN.md section 3') for r in sorted(res.rule_instances)},
        'local_renames_undone': _renames(),
        'exhaustive': bool(res.exhaustive_rules),
        'exhaustive_rules': res.exhaustive_rules,
        'findings_known': [f.to_json() for f, _ in known_hits],
        'findings_new': nviol,
        'liveness': res.liveness,
    }
    cov.update(res.notes)
    ev = {
        'property_id': res.prop,
        'tier': tier,
        'seed': seed,
        'level': 'other',
        'coverage': cov,
        'assumptions': res.assumptions,
        'wall_s': round(wall, 3),
        'violations': nviol,
    }
    path = os.path.join(EVIDENCE_DIR, f'{res.prop}.json')
    tmp = path + '.tmp'
    with open(tmp, 'w') as fh:
        json.dump(ev, fh, indent=1, default=str)
    os.replace(tmp, path)
    return path


def write_replays(prop, new):
    d = os.path.join(EVIDENCE_DIR, f'{prop}.viol')
    os.makedirs(d, exist_ok=True)
    for fn in os.listdir(d):
        os.unlink(os.path.join(d, fn))
    paths = []
    for i, f in enumerate(new):
        p = os.path.join(d, f'{i}.json')
        with open(p, 'w') as fh:
            json.dump({'property': prop, **f.to_json()}, fh, indent=1, default=str)
        paths.append(p)
    return paths
