"""Findings, results, evidence files, known-findings matching."""
from __future__ import annotations

import json
import os
import time

VERIF = os.path.dirname(os.path.dirname(os.path.abspath(__file__)))
KNOWN_FILE = os.path.join(VERIF, 'known_findings.json')
EVIDENCE_DIR = os.path.join(VERIF, 'evidence')


class Finding:
    def __init__(self, rule, func, construct, loc, message, detail=None):
        self.rule = rule            # rule id, e.g. 'A1'
        self.func = func            # qualified function / class the construct lives in
        self.construct = construct  # normalised construct text (no line numbers)
        self.loc = loc              # file:line on this run (informational)
        self.message = message
        self.detail = detail or {}

    @property
    def key(self):
        return f'{self.rule}|{self.func}|{self.construct}'

    def to_json(self):
        return {'rule': self.rule, 'function': self.func, 'construct': self.construct,
                'location': self.loc, 'message': self.message, 'detail': self.detail,
                'key': self.key}


class Result:
    """What one property check did on one run."""

    def __init__(self, prop):
        self.prop = prop
        self.findings = []
        self.obligations = 0
        self.discharged = 0
        self.nontrivial = set()     # distinct non-trivial obligations (hashable descriptions)
        self.rule_instances = {}    # rule -> instances examined
        self.floors = {}            # rule -> minimum instances confirmed by hand
        self.samples = []
        self.explanation = ''
        self.not_decided = ''
        self.assumptions = []
        self.exhaustive_rules = []
        self.notes = {}
        self.liveness = []

    def inst(self, rule, n=1):
        self.rule_instances[rule] = self.rule_instances.get(rule, 0) + n

    def oblige(self, rule, desc, ok, nontrivial=True, sample=None):
        """Record one obligation examined by `rule`."""
        self.obligations += 1
        self.inst(rule)
        if ok:
            self.discharged += 1
        if nontrivial:
            self.nontrivial.add((rule, desc))
        if sample is not None and len([s for s in self.samples if s.get('rule') == rule]) < 3:
            d = {'rule': rule, 'obligation': desc, 'ok': bool(ok)}
            d.update(sample)
            self.samples.append(d)

    def add(self, finding):
        for f in self.findings:
            if f.key == finding.key:
                return
        self.findings.append(finding)

    def floor(self, rule, n):
        self.floors[rule] = n


def load_known():
    if not os.path.exists(KNOWN_FILE):
        return []
    with open(KNOWN_FILE) as fh:
        return json.load(fh).get('findings', [])


def split_findings(prop, findings):
    known = [k for k in load_known() if k.get('property') == prop and k.get('status') == 'known']
    kmap = {k['key']: k for k in known}
    old, new = [], []
    for f in findings:
        if f.key in kmap:
            old.append((f, kmap[f.key]))
        else:
            new.append(f)
    return old, new


def write_evidence(res, tier, seed, wall, nviol, known_hits):
    os.makedirs(EVIDENCE_DIR, exist_ok=True)
    cov = {
        'explanation': res.explanation + (' NOT DECIDED: ' + res.not_decided if res.not_decided else ''),
        'obligations': res.obligations,
        'discharged': res.discharged,
        'evaluations': max(res.obligations, 1),
        'distinct_nontrivial': len(res.nontrivial),
        'rule': 'an obligation is one (rule, construct) pair examined on the parsed tree; it is '
                'non-trivial when the rule had to follow a path, dominance, alias chain or table row '
                'to decide it; distinct = distinct (rule, description) pairs',
        'rule_instances': res.rule_instances,
        'floors': res.floors,
        'samples': res.samples[:40] or [{'note': 'no obligations'}],
        'exhaustive': bool(res.exhaustive_rules),
        'exhaustive_rules': res.exhaustive_rules,
        'findings_known': [f.to_json() for f, _ in known_hits],
        'findings_new': nviol,
        'liveness': res.liveness,
    }
    cov.update(res.notes)
    ev = {
        'property_id': res.prop,
        'tier': tier,
        'seed': seed,
        'level': 'other',
        'coverage': cov,
        'assumptions': res.assumptions,
        'wall_s': round(wall, 3),
        'violations': nviol,
    }
    path = os.path.join(EVIDENCE_DIR, f'{res.prop}.json')
    tmp = path + '.tmp'
    with open(tmp, 'w') as fh:
        json.dump(ev, fh, indent=1, default=str)
    os.replace(tmp, path)
    return path


def write_replays(prop, new):
    d = os.path.join(EVIDENCE_DIR, f'{prop}.viol')
    os.makedirs(d, exist_ok=True)
    for fn in os.listdir(d):
        os.unlink(os.path.join(d, fn))
    paths = []
    for i, f in enumerate(new):
        p = os.path.join(d, f'{i}.json')
        with open(p, 'w') as fh:
            json.dump({'property': prop, **f.to_json()}, fh, indent=1, default=str)
        paths.append(p)
    return paths
