"""Path guards as propositional formulas over opaque atoms, decided by
truth-table enumeration (no solver).

guard_of(node, func) = conjunction of the tests of the enclosing `if`s (with
polarity), of preceding early-exit `if`s in the enclosing blocks, and of
enclosing conditional expressions.
"""
from __future__ import annotations

import ast
import itertools

from .core import unparse


# formula: ('atom', text) | ('not', f) | ('and', [f..]) | ('or', [f..]) | ('true',) | ('false',)
TRUE = ('true',)
FALSE = ('false',)


def atom_of(test):
    """Normalise a test expression into a formula."""
    if isinstance(test, ast.BoolOp):
        parts = [atom_of(v) for v in test.values]
        return ('and', parts) if isinstance(test.op, ast.And) else ('or', parts)
    if isinstance(test, ast.UnaryOp) and isinstance(test.op, ast.Not):
        return neg(atom_of(test.operand))
    if isinstance(test, ast.Constant):
        return TRUE if test.value else FALSE
    if isinstance(test, ast.Compare) and len(test.ops) == 1:
        op = test.ops[0]
        left, right = test.left, test.comparators[0]
        if isinstance(op, (ast.Eq, ast.NotEq)) and isinstance(left, ast.Constant) and not isinstance(right, ast.Constant):
            left, right = right, left        # `0 == axis` is `axis == 0`
            test = ast.Compare(left=left, ops=[op], comparators=[right])
        if isinstance(right, ast.Constant) and right.value is None:
            base = ('atom', unparse(left, 0) + ' is None')
            if isinstance(op, (ast.Is, ast.Eq)):
                return base
            if isinstance(op, (ast.IsNot, ast.NotEq)):
                return neg(base)
        if isinstance(op, (ast.In, ast.NotIn)) and isinstance(left, ast.Constant) \
                and isinstance(right, ast.Attribute) and right.attr == '__dict__':
            base = ('atom', f'cached:{left.value}')
            return base if isinstance(op, ast.In) else neg(base)
        if isinstance(op, (ast.Is, ast.IsNot)) and isinstance(right, ast.Constant) \
                and isinstance(right.value, bool):
            base = ('atom', unparse(left, 0))
            pos = (isinstance(op, ast.Is)) == bool(right.value)
            return base if pos else neg(base)
        if isinstance(op, ast.NotIn):
            return neg(('atom', unparse(left, 0) + ' in ' + unparse(right, 0)))
        if isinstance(op, ast.NotEq):
            return neg(('atom', unparse(left, 0) + ' == ' + unparse(right, 0)))
        if isinstance(op, ast.GtE):
            return neg(('atom', unparse(left, 0) + ' < ' + unparse(right, 0)))
        if isinstance(op, ast.Gt):
            return neg(('atom', unparse(left, 0) + ' <= ' + unparse(right, 0)))
    return ('atom', unparse(test, 0))


def neg(f):
    if f[0] == 'not':
        return f[1]
    if f == TRUE:
        return FALSE
    if f == FALSE:
        return TRUE
    return ('not', f)


def conj(fs):
    fs = [f for f in fs if f != TRUE]
    if any(f == FALSE for f in fs):
        return FALSE
    if not fs:
        return TRUE
    return ('and', list(fs))


def disj(fs):
    fs = [f for f in fs if f != FALSE]
    if any(f == TRUE for f in fs):
        return TRUE
    if not fs:
        return FALSE
    return ('or', list(fs))


def atoms(f, out=None):
    out = set() if out is None else out
    if f[0] == 'atom':
        out.add(f[1])
    elif f[0] == 'not':
        atoms(f[1], out)
    elif f[0] in ('and', 'or'):
        for g in f[1]:
            atoms(g, out)
    return out


def evaluate(f, env):
    k = f[0]
    if k == 'true':
        return True
    if k == 'false':
        return False
    if k == 'atom':
        return env[f[1]]
    if k == 'not':
        return not evaluate(f[1], env)
    if k == 'and':
        return all(evaluate(g, env) for g in f[1])
    return any(evaluate(g, env) for g in f[1])


def satisfiable(f, fixed=None, limit=16):
    """Truth-table satisfiability.  Returns a witness env or None.  With more
    than `limit` atoms the answer is 'satisfiable' (conservative)."""
    names = sorted(atoms(f))
    fixed = fixed or {}
    free = [n for n in names if n not in fixed]
    if len(free) > limit:
        return {n: None for n in names}
    for vals in itertools.product((False, True), repeat=len(free)):
        env = dict(fixed)
        env.update(zip(free, vals))
        if evaluate(f, env):
            return env
    return None


def show(f):
    k = f[0]
    if k in ('true', 'false'):
        return k
    if k == 'atom':
        return f[1]
    if k == 'not':
        return 'not(' + show(f[1]) + ')'
    return '(' + (' and ' if k == 'and' else ' or ').join(show(g) for g in f[1]) + ')'


def _ends_flow(stmts):
    """Block always leaves the enclosing block (return/raise/continue/break)."""
    if not stmts:
        return False
    last = stmts[-1]
    if isinstance(last, (ast.Return, ast.Raise, ast.Continue, ast.Break)):
        return True
    if isinstance(last, ast.If):
        return _ends_flow(last.body) and _ends_flow(last.orelse)
    return False


def guard_of(node, func):
    """Formula that holds whenever `node` (inside function node `func`) is
    evaluated, from the structure of enclosing and preceding `if`s."""
    lits = []
    child = node
    p = getattr(node, '_parent', None)
    while p is not None and child is not func:
        if isinstance(p, ast.If):
            if _in(child, p.body):
                lits.append(atom_of(p.test))
                lits.extend(_preceding(child, p.body))
            elif _in(child, p.orelse):
                lits.append(neg(atom_of(p.test)))
                lits.extend(_preceding(child, p.orelse))
        elif isinstance(p, ast.IfExp):
            if child is p.body:
                lits.append(atom_of(p.test))
            elif child is p.orelse:
                lits.append(neg(atom_of(p.test)))
        elif isinstance(p, ast.BoolOp) and isinstance(p.op, ast.And):
            idx = _index(child, p.values)
            for v in p.values[:idx]:
                lits.append(atom_of(v))
        elif isinstance(p, ast.BoolOp) and isinstance(p.op, ast.Or):
            idx = _index(child, p.values)
            for v in p.values[:idx]:
                lits.append(neg(atom_of(v)))
        elif isinstance(p, ast.While):
            if _in(child, p.body):
                lits.extend(_preceding(child, p.body))
        else:
            for fld in ('body', 'orelse', 'finalbody'):
                blk = getattr(p, fld, None)
                if isinstance(blk, list) and _in(child, blk):
                    lits.extend(_preceding(child, blk))
            if isinstance(p, ast.Try):
                for h in p.handlers:
                    if child is h:
                        pass
            if isinstance(p, ast.ExceptHandler):
                if _in(child, p.body):
                    lits.extend(_preceding(child, p.body))
        child = p
        p = getattr(p, '_parent', None)
    return conj(lits)


def _in(child, blk):
    return isinstance(blk, list) and any(c is child for c in blk)


def _index(child, seq):
    for i, c in enumerate(seq):
        if c is child:
            return i
    return 0


def _preceding(child, blk):
    """Negated tests of earlier `if t: ...return/raise` statements of the block."""
    out = []
    for st in blk:
        if st is child:
            break
        if isinstance(st, ast.If) and _ends_flow(st.body) and not st.orelse:
            out.append(neg(atom_of(st.test)))
        elif isinstance(st, ast.If) and st.orelse and _ends_flow(st.orelse) and not _ends_flow(st.body):
            out.append(atom_of(st.test))
    return out
