"""SCALAR-SHAPE / GETITEM-COMPLETE / SHARE rules for catalog classes (C08)."""
from __future__ import annotations

import ast

from .core import ClassInfo, unparse, norm_stmt_text, enclosing_stmt, AnalysisError
from .lazy import self_attr, is_self
from . import guards as G
from .alias import MUTATING_METHODS

NORMALISERS = {'atleast_1d', 'atleast_2d', 'atleast_3d'}


def as_scalar_attrs(cls):
    out = set()
    for name, f in cls.all_methods().items():
        if 'as_scalar' in f.decorators:
            out.add(name)
    return out


def _derives(e, names, attrs):
    """Is expression e the polymorphic value itself (self.A, a tracked local,
    .value/.to()/arithmetic of one)?"""
    if self_attr(e) in attrs:
        return True
    if isinstance(e, ast.Name) and e.id in names:
        return True
    if isinstance(e, ast.Attribute) and e.attr in ('value', 'T', 'real'):
        return _derives(e.value, names, attrs)
    if isinstance(e, ast.Call) and isinstance(e.func, ast.Attribute) and e.func.attr in ('to', 'to_value', 'copy', 'astype'):
        return _derives(e.func.value, names, attrs)
    if isinstance(e, ast.BinOp):
        return _derives(e.left, names, attrs) or _derives(e.right, names, attrs)
    if isinstance(e, ast.UnaryOp):
        return _derives(e.operand, names, attrs)
    return False


def _is_normaliser(e):
    if isinstance(e, ast.Call) and unparse(e.func, 0).split('.')[-1] in NORMALISERS:
        return True
    return False


def check_function(f, attrs):
    """Yield (node, what, ok, reason) for every per-source use of a shape-polymorphic value."""
    out = []
    tracked = {}          # local name -> line where it became polymorphic
    normalised = {}       # local name -> line from which it is normalised
    body = list(ast.walk(f.node))
    # pass 1: locals bound to polymorphic values, and normalisations
    for n in sorted([x for x in body if isinstance(x, ast.Assign)], key=lambda x: x.lineno):
        if len(n.targets) != 1 or not isinstance(n.targets[0], ast.Name):
            continue
        nm = n.targets[0].id
        if _is_normaliser(n.value) or isinstance(n.value, (ast.Tuple, ast.List)):
            normalised[nm] = n.lineno
            continue
        if nm in tracked and 'self.isscalar' in G.atoms(G.guard_of(n, f.node)):
            # `if self.isscalar: v = v[np.newaxis, :]` : the normalisation idiom
            normalised[nm] = n.lineno
            continue
        live = {k for k, ln in tracked.items() if not (k in normalised and normalised[k] >= ln and normalised[k] <= n.lineno)}
        if _derives(n.value, live, attrs) and not _is_normaliser(n.value):
            g = G.guard_of(n, f.node)
            if 'self.isscalar' in G.atoms(g):
                # assignment inside an isscalar branch: the normalisation idiom
                normalised[nm] = n.lineno
            else:
                tracked.setdefault(nm, n.lineno)
        elif isinstance(n.value, ast.Call) and unparse(n.value.func, 0).split('.')[-1] in ('array',) \
                and 'self.isscalar' in G.atoms(G.guard_of(n, f.node)):
            normalised[nm] = n.lineno

    def poly(e, line):
        if self_attr(e) in attrs:
            return True
        if isinstance(e, ast.Name) and e.id in tracked and tracked[e.id] <= line:
            if e.id in normalised and normalised[e.id] <= line and normalised[e.id] >= tracked[e.id]:
                return False
            return True
        if isinstance(e, ast.Attribute) and e.attr in ('value',):
            return poly(e.value, line)
        return False

    for n in body:
        site = None
        what = None
        if isinstance(n, ast.Subscript) and poly(n.value, n.lineno):
            # string keys (table columns) are not per-source indexing
            if isinstance(n.slice, ast.Constant) and isinstance(n.slice.value, str):
                continue
            site, what = n, f'subscript `{unparse(n, 60)}`'
        elif isinstance(n, (ast.For, ast.comprehension)) and poly(n.iter, getattr(n, 'lineno', n.iter.lineno)):
            site, what = n.iter, f'iteration over `{unparse(n.iter, 50)}`'
        elif isinstance(n, ast.Call) and isinstance(n.func, ast.Name) and n.func.id in ('zip', 'len', 'enumerate', 'list', 'tuple'):
            for a in n.args:
                if poly(a, n.lineno):
                    site, what = a, f'`{n.func.id}({unparse(a, 40)})`'
        if site is None:
            continue
        g = G.guard_of(site, f.node)
        ok = 'self.isscalar' in G.atoms(g)
        reason = 'inside an `if self.isscalar` branch' if ok else None
        if not ok:
            # wrapped directly by a normaliser
            p = getattr(site, '_parent', None)
            if isinstance(p, ast.Call) and _is_normaliser(p):
                ok, reason = True, 'wrapped by np.atleast_*d'
        out.append((site, what, ok, reason))
    return out


def init_attrs_of(cls):
    """Attributes stored by __init__ (own or inherited first definition)."""
    init = cls.lookup('__init__')
    out = {}
    if init is None:
        return out
    for n in ast.walk(init.node):
        if isinstance(n, ast.Assign):
            for t in n.targets:
                for e in (t.elts if isinstance(t, (ast.Tuple, ast.List)) else [t]):
                    a = self_attr(e)
                    if a:
                        out.setdefault(a, n.value)
        elif isinstance(n, ast.AnnAssign) and self_attr(n.target):
            out.setdefault(self_attr(n.target), n.value)
    return out


def getitem_handled(getitem):
    """Attribute names the __getitem__ copies / slices into the new object."""
    handled = set()
    byref = set()
    for n in ast.walk(getitem.node):
        if isinstance(n, ast.Assign) and len(n.targets) == 1 and isinstance(n.targets[0], ast.Name):
            if isinstance(n.value, (ast.Tuple, ast.List)) and all(isinstance(e, ast.Constant) and isinstance(e.value, str) for e in n.value.elts) \
                    and n.value.elts:
                names = [e.value for e in n.value.elts]
                handled |= set(names)
                # is this tuple used for by-reference copies?  setattr(newcls, attr, getattr(self, attr))
                byref |= set(names)
            elif isinstance(n.value, ast.Constant) and isinstance(n.value.value, str) and n.targets[0].id == 'attr':
                handled.add(n.value.value)
        if isinstance(n, ast.Assign):
            for t in n.targets:
                if isinstance(t, ast.Attribute) and isinstance(t.value, ast.Name) and t.value.id == 'newcls':
                    handled.add(t.attr)
                    byref.discard(t.attr)
        if isinstance(n, ast.Call) and isinstance(n.func, ast.Name) and n.func.id == 'setattr' and len(n.args) == 3 \
                and isinstance(n.args[1], ast.Constant):
            handled.add(n.args[1].value)
            byref.discard(n.args[1].value)
    return handled, byref


def inplace_mutated_fields(cls):
    """field -> [(method, stmt)] in-place container mutations (append/remove/[k]=...)."""
    out = {}
    for f in cls.all_functions():
        if f.name == '__init__':
            continue
        for n in ast.walk(f.node):
            if isinstance(n, ast.Call) and isinstance(n.func, ast.Attribute) and n.func.attr in MUTATING_METHODS:
                a = self_attr(n.func.value)
                if a:
                    out.setdefault(a, []).append((f, enclosing_stmt(n)))
            if isinstance(n, (ast.Assign, ast.AugAssign)):
                tg = n.targets if isinstance(n, ast.Assign) else [n.target]
                for t in tg:
                    if isinstance(t, ast.Subscript) and self_attr(t.value):
                        out.setdefault(self_attr(t.value), []).append((f, n))
            if isinstance(n, ast.Delete):
                for t in n.targets:
                    if isinstance(t, ast.Subscript) and self_attr(t.value):
                        out.setdefault(self_attr(t.value), []).append((f, n))
    return out


def is_mutable_container_init(value):
    if isinstance(value, (ast.List, ast.Dict, ast.Set, ast.ListComp, ast.DictComp)):
        return True
    if isinstance(value, ast.Call) and unparse(value.func, 0).split('.')[-1] in ('list', 'dict', 'set', 'defaultdict', 'OrderedDict'):
        return True
    return False
